"""C03 -- version comparison agrees with dpkg and is a consistent total preorder."""
import ast

from .. import rx
from .. import normalize, paths
from ..core import AnalysisError, norm, walk_no_nested
from ..flow import Aff, Facts, cmp_to_constraints

META = {
    'design_ref': 'DESIGN.md §5 C03',
    'technique': 'path-sensitive abstract interpretation of the comparison routines over position configurations with linear facts (Fourier-Motzkin entailment; padded list comparison normalised to the position loop); operator table and version_compare from path enumeration with substitution; character order chain from the paths of _order with regex literals and constant tables (constant folding of computed tables) evaluated per character class; chunk-partition language check; heap interpretation of __hash__ on classes of equally ordered versions (one value per class reaches hash()); may-raise rule for int() of unbounded digit runs, per public operation; constructor premise valid ⊆ accepted from the C14 automata; character order chain tabulated by interpreting _order on every ASCII character; freshness rule: every instance attribute read by the comparison or the hash is an assignable component or is stored by the single update funnel; NativeVersion._compare interpreted on all ordered pairs of a family of versions against an implementation of the dpkg order; the path-level readings are a second opinion where the routines leave their vocabulary; the six operators and version_compare interpreted on the family; histories of refused and accepted assignments, each followed by comparisons and a hash against a fresh object of the version the edited object shows',
    'level_text': 'Static decision of necessary conditions: the six operators are _compare(other) <op> 0; epochs are compared as integers '
                  'with absent = 0 and decide alone only when they differ numerically; upstream then revision with the same default on both '
                  'sides; the chunk comparison is numeric for two digit chunks and delegates to the character comparison otherwise, padding an '
                  'exhausted side with "0"; the character comparison is lexicographic on the order values with pad 0, so "~" (-1) sorts before '
                  'the end, letters before other characters; chunks partition the string; hash ignores exactly what equality ignores.',
    'level_note': 'trusted: the abstract interpreter for the loop idioms it recognises (others are ANALYSIS-ERROR), CPython re parser, '
                  'automata engine.  Agreement with dpkg on all pairs and transitivity as such are not decided.',
}

M = 'debian_support'
CLS = M + ':NativeVersion'


# ---------------------------------------------------------------------------------------------------
# R1 operator table

FLIP = {ast.Lt: ast.Gt, ast.Gt: ast.Lt, ast.LtE: ast.GtE, ast.GtE: ast.LtE, ast.Eq: ast.Eq, ast.NotEq: ast.NotEq}
NEG = {ast.Lt: ast.GtE, ast.Gt: ast.LtE, ast.LtE: ast.Gt, ast.GtE: ast.Lt, ast.Eq: ast.NotEq, ast.NotEq: ast.Eq}


def _rel(t, left, right):
    """operator class of the comparison `t` read as  <left> OP <right>  (operands may be swapped, `not` folded)"""
    neg = False
    while isinstance(t, ast.UnaryOp) and isinstance(t.op, ast.Not):
        neg = not neg
        t = t.operand
    OPMOD = {'operator.lt': ast.Lt, 'operator.le': ast.LtE, 'operator.eq': ast.Eq, 'operator.ne': ast.NotEq, 'operator.ge': ast.GtE, 'operator.gt': ast.Gt}
    if isinstance(t, ast.Call) and norm(t.func) in OPMOD and len(t.args) == 2 and not t.keywords:
        # the operator module spells the comparison operators as functions
        t = ast.Compare(left=t.args[0], ops=[OPMOD[norm(t.func)]()], comparators=[t.args[1]])
    if not (isinstance(t, ast.Compare) and len(t.ops) == 1 and type(t.ops[0]) in FLIP):
        return None
    l, r = norm(t.left), norm(t.comparators[0])
    op = type(t.ops[0])
    if (l, r) == (right, left):
        op = FLIP[op]
    elif (l, r) != (left, right):
        return None
    return NEG[op] if neg else op


def r1_operators(rep, src):
    ops = {'__lt__': ast.Lt, '__le__': ast.LtE, '__eq__': ast.Eq, '__ne__': ast.NotEq, '__ge__': ast.GtE, '__gt__': ast.Gt}
    for name, op in ops.items():
        f = src.func(M + ':BaseVersion.' + name)
        rep.saw_func(f)
        other = f.params()[1]
        fnode, _ = normalize.inline_helpers(f, skip=('_compare',))
        ps = [p_ for p_ in paths.function_paths(fnode) if p_.outcome[0] != 'raise']
        got = set()
        for p_ in ps:
            v = p_.outcome[1] if p_.outcome[0] == 'return' else None
            rel = _rel(v, 'self._compare(%s)' % other, '0') if v is not None and not p_.conds else None
            got.add(rel)
        if got == {op}:
            rep.ok('C03.R1', f.site, 'operator table', 'self._compare(other) %s 0' % name, nontrivial=False)
        else:
            rep.fail('C03.R1', f.site, 'operator table', '%s is not `self._compare(%s) <its own operator> 0` on every path' % (name, other), where=f.where)
    f = src.func(M + ':version_compare')
    rep.saw_func(f)
    a, b = f.params()[:2]
    fnode, _ = normalize.inline_helpers(f)
    L, R = 'Version(%s)' % a, 'Version(%s)' % b
    bad = []
    ps = paths.function_paths(fnode)
    for p_ in ps:
        if p_.outcome[0] != 'return' or not isinstance(p_.outcome[1], (ast.Constant, ast.UnaryOp)):
            bad.append('a path does not return a constant')
            continue
        val = paths.Folder().value(p_.outcome[1])
        facts = set()           # possible orderings left: subset of {'lt','eq','gt'}
        poss = {'lt', 'eq', 'gt'}
        for t, pol in p_.conds:
            rel = _rel(t, L, R)
            if rel is None:
                bad.append('a condition is not a comparison of Version(a) with Version(b): %s' % norm(t)[:50])
                continue
            if not pol:
                rel = NEG[rel]
            poss &= {ast.Lt: {'lt'}, ast.Gt: {'gt'}, ast.LtE: {'lt', 'eq'}, ast.GtE: {'gt', 'eq'}, ast.Eq: {'eq'}, ast.NotEq: {'lt', 'gt'}}[rel]
        want = {'lt': -1, 'eq': 0, 'gt': 1}
        if not poss:
            continue
        if val is None or {want[x] for x in poss} != {val[1]}:
            bad.append('returns %s when the versions compare as %s' % (norm(p_.outcome[1]), '/'.join(sorted(poss))))
        _ = facts
    if not bad and ps:
        rep.ok('C03.R1', f.site, 'version_compare', '-1 / 1 / 0 from the comparison operators on (Version(a), Version(b)), %d paths' % len(ps))
    else:
        rep.fail('C03.R1', f.site, 'version_compare', 'version_compare does not return -1/1/0 according to the operators on (a, b): %s' % '; '.join(sorted(set(bad))[:2]), where=f.where)


# ---------------------------------------------------------------------------------------------------
# small path interpreter with linear facts

class Sym:
    """abstract value: integer affine form / string chunk / delegate result / constant"""

    def __init__(self, kind, **kw):
        self.kind = kind
        self.__dict__.update(kw)

    def __repr__(self):
        return 'Sym(%s %s)' % (self.kind, {k: v for k, v in self.__dict__.items() if k != 'kind'})


class PathInterp:
    """interprets straight-line / branching code; forks on undecided comparisons; collects outcomes"""

    def __init__(self, site, hooks):
        self.site = site
        self.hooks = hooks          # object with ev_call(interp, call, env, facts) -> value or NotImplemented
        self.outcomes = []

    def ev(self, e, env, facts):
        if isinstance(e, ast.Constant):
            if isinstance(e.value, bool):
                return e.value
            if isinstance(e.value, int):
                return Sym('int', aff=Aff.const(e.value))
            if isinstance(e.value, str):
                return Sym('strconst', v=e.value)
            if e.value is None:
                return None
        if isinstance(e, ast.Name):
            if e.id in env:
                return env[e.id]
            raise AnalysisError('%s: name %s outside the modelled environment' % (self.site, e.id))
        if isinstance(e, ast.UnaryOp) and isinstance(e.op, ast.USub):
            v = self.ev(e.operand, env, facts)
            if isinstance(v, Sym) and v.kind == 'int':
                return Sym('int', aff=-v.aff)
        if isinstance(e, ast.BinOp) and isinstance(e.op, (ast.Add, ast.Sub)):
            l, r = self.ev(e.left, env, facts), self.ev(e.right, env, facts)
            if isinstance(l, Sym) and isinstance(r, Sym) and l.kind == r.kind == 'int':
                return Sym('int', aff=l.aff + r.aff if isinstance(e.op, ast.Add) else l.aff - r.aff)
        if isinstance(e, ast.Call):
            r = self.hooks.ev_call(self, e, env, facts)
            if r is not NotImplemented:
                return r
        if isinstance(e, ast.Attribute) or isinstance(e, ast.BoolOp) or isinstance(e, ast.Subscript):
            r = self.hooks.ev_expr(self, e, env, facts)
            if r is not NotImplemented:
                return r
        raise AnalysisError('%s: expression outside the comparison vocabulary: %s' % (self.site, norm(e)[:60]))

    def cond(self, t, env, facts):
        """[(truth, facts)]"""
        if isinstance(t, ast.BoolOp):
            isand = isinstance(t.op, ast.And)
            res = []

            def rec(i, fx):
                if i == len(t.values):
                    res.append((isand, fx))
                    return
                for truth, f2 in self.cond(t.values[i], env, fx):
                    if truth != isand:
                        res.append((truth, f2))
                    else:
                        rec(i + 1, f2)
            rec(0, facts)
            return res
        if isinstance(t, ast.UnaryOp) and isinstance(t.op, ast.Not):
            return [(not a, f) for a, f in self.cond(t.operand, env, facts)]
        if isinstance(t, ast.Compare) and len(t.ops) == 1:
            r = self.hooks.ev_compare(self, t, env, facts)
            if r is not NotImplemented:
                return r
            l = self.ev(t.left, env, facts)
            rr = self.ev(t.comparators[0], env, facts)
            op = t.ops[0]
            if isinstance(l, Sym) and isinstance(rr, Sym) and l.kind == rr.kind == 'int':
                return self.cmp_int(l.aff, op, rr.aff, facts)
            if isinstance(l, Sym) and l.kind == 'delegate' and isinstance(rr, Sym) and rr.kind == 'int' and rr.aff == Aff.const(0) \
                    and isinstance(op, (ast.NotEq, ast.Eq)):
                # result of the delegated comparison: zero or not (two worlds)
                out = []
                for z in (True, False):
                    key = ('delegate-zero', l.args)
                    prev = dict(facts.marks) if hasattr(facts, 'marks') else {}
                    if key in prev and prev[key] != z:
                        continue
                    f2 = Facts(facts.items)
                    f2.marks = dict(prev)
                    f2.marks[key] = z
                    out.append(((not z) if isinstance(op, ast.NotEq) else z, f2))
                return out
        v = self.ev(t, env, facts)
        if isinstance(v, bool):
            return [(v, facts)]
        if isinstance(v, Sym) and v.kind == 'truth':
            return [(v.v, facts)]
        raise AnalysisError('%s: condition outside the comparison vocabulary: %s' % (self.site, norm(t)[:60]))

    def cmp_int(self, l, op, r, facts):
        if isinstance(op, ast.NotEq):
            return [(not a, f) for a, f in self.cmp_int(l, ast.Eq(), r, facts)]
        cs = cmp_to_constraints(l, op, r)
        if cs is None:
            raise AnalysisError('comparison operator not supported')
        if all(facts.entails(c) for c in cs):
            return [(True, facts)]
        if any(facts.contradicts(c) for c in cs):
            return [(False, facts)]
        out = []
        ft = facts
        for c in cs:
            ft = self._add(ft, c)
        out.append((True, ft))
        for c in cs:
            out.append((False, self._add(facts, (-c) - 1)))
        return [(t, f) for t, f in out if not f.inconsistent()]

    @staticmethod
    def _add(facts, c):
        f2 = facts.add(c)
        f2.marks = dict(getattr(facts, 'marks', {}))
        return f2

    def run(self, stmts, env, facts):
        """-> list of (kind, payload, env, facts): kind in 'fall', 'return', 'continue', 'break', 'raise'"""
        states = [(dict(env), facts)]
        done = []
        for st in stmts:
            nxt = []
            for env1, f1 in states:
                for kind, payload, env2, f2 in self.step(st, env1, f1):
                    if kind == 'fall':
                        nxt.append((env2, f2))
                    else:
                        done.append((kind, payload, env2, f2))
            states = nxt
            if len(states) + len(done) > 2000:
                raise AnalysisError('%s: too many paths' % self.site)
        return done + [('fall', None, e, f) for e, f in states]

    def step(self, st, env, facts):
        if isinstance(st, ast.Expr) and isinstance(st.value, ast.Constant):
            return [('fall', None, env, facts)]
        if isinstance(st, ast.Assign) and len(st.targets) == 1 and isinstance(st.targets[0], ast.Name):
            env = dict(env)
            r = self.hooks.ev_assign(self, st, env, facts)
            if r is NotImplemented:
                v_ = st.value
                if isinstance(v_, ast.IfExp) or (isinstance(v_, ast.BinOp) and isinstance(v_.op, ast.Sub) and isinstance(v_.left, ast.Compare)
                                                 and isinstance(v_.right, ast.Compare)):
                    # a value that depends on a comparison: one world per outcome
                    out = []
                    for val, f2 in self.ev_return(v_, env, facts):
                        e2 = dict(env)
                        if isinstance(val, int):
                            e2[st.targets[0].id] = Sym('int', aff=Aff.const(val))
                        elif isinstance(val, tuple) and val[0] == 'delegate':
                            e2[st.targets[0].id] = Sym('delegate', args=val[1])
                        else:
                            raise AnalysisError('%s: conditional value outside the comparison vocabulary: %s' % (self.site, norm(v_)[:60]))
                        out.append(('fall', None, e2, f2))
                    return out
                env[st.targets[0].id] = self.ev(st.value, env, facts)
            return [('fall', None, env, facts)]
        if isinstance(st, ast.If):
            out = []
            for truth, f2 in self.cond(st.test, env, facts):
                out += self.run(st.body if truth else st.orelse, dict(env), f2)
            return out
        if isinstance(st, ast.Return):
            v = self.ev_return(st.value, env, facts)
            return [('return', x, env, f) for x, f in v]
        if isinstance(st, ast.Continue):
            return [('continue', None, env, facts)]
        if isinstance(st, ast.Break):
            return [('break', None, env, facts)]
        if isinstance(st, ast.Raise):
            return [('raise', norm(st.exc)[:40] if st.exc else '', env, facts)]
        if isinstance(st, ast.Try):
            # the handled exception is an error exit; the comparison semantics are those of the body
            return self.run(st.body + st.orelse, env, facts)
        raise AnalysisError('%s: statement outside the comparison vocabulary: %s' % (self.site, norm(st)[:60]))

    def ev_return(self, e, env, facts):
        """[(value, facts)]  value: int constant, ('delegate', args) or ('expr', text)"""
        if isinstance(e, ast.IfExp):
            out = []
            for truth, f2 in self.cond(e.test, env, facts):
                out += self.ev_return(e.body if truth else e.orelse, env, f2)
            return out
        if isinstance(e, ast.BinOp) and isinstance(e.op, ast.Sub) and isinstance(e.left, ast.Compare) and isinstance(e.right, ast.Compare):
            out = []
            for t1, f1 in self.cond(e.left, env, facts):
                for t2, f2 in self.cond(e.right, env, f1):
                    out.append((int(t1) - int(t2), f2))
            return out
        v = self.ev(e, env, facts)
        if isinstance(v, Sym) and v.kind == 'int' and v.aff.is_const():
            return [(v.aff.k, facts)]
        if isinstance(v, Sym) and v.kind == 'delegate':
            return [(('delegate', v.args), facts)]
        return [(('expr', norm(e)), facts)]


# ---------------------------------------------------------------------------------------------------
# R2 _compare: epoch, then upstream, then revision

class CompareHooks:
    def __init__(self, f):
        self.f = f
        self.other = f.params()[1]

    def side(self, e):
        """('self'|'other', attr) for self.attr / other.attr"""
        if isinstance(e, ast.Attribute) and isinstance(e.value, ast.Name) and e.value.id in ('self', self.other):
            return ('self' if e.value.id == 'self' else 'other', e.attr)
        return None

    def ev_expr(self, it, e, env, facts):
        s = self.side(e)
        if s is not None:
            return Sym('raw', side=s[0], attr=s[1], default=None)
        if isinstance(e, ast.BoolOp) and isinstance(e.op, ast.Or) and len(e.values) == 2:
            l = it.ev(e.values[0], env, facts)
            r = it.ev(e.values[1], env, facts)
            if isinstance(l, Sym) and l.kind == 'raw' and isinstance(r, Sym) and r.kind == 'strconst':
                return Sym('raw', side=l.side, attr=l.attr, default=r.v)
        return NotImplemented

    def ev_call(self, it, c, env, facts):
        fn = norm(c.func)
        if fn == 'int' and len(c.args) == 1:
            v = it.ev(c.args[0], env, facts)
            if isinstance(v, Sym) and v.kind == 'raw':
                if v.default is None:
                    return Sym('int', aff=Aff.var('%s.%s!nodefault' % (v.side, v.attr)), nodefault=True)
                if v.default != '0' and int(v.default) != 0:
                    return Sym('int', aff=Aff.var('%s.%s!default=%s' % (v.side, v.attr, v.default)))
                return Sym('int', aff=Aff.var('%s.%s' % (v.side, v.attr)))
        if fn in ('self._version_cmp_part', 'cls._version_cmp_part') and len(c.args) == 2:
            a, b = [it.ev(x, env, facts) for x in c.args]
            if all(isinstance(x, Sym) and x.kind == 'raw' for x in (a, b)):
                return Sym('delegate', args=((a.side, a.attr, a.default), (b.side, b.attr, b.default)))
        if fn in ('isinstance', 'str', 'BaseVersion'):
            return Sym('opaque')
        if isinstance(c.func, ast.Attribute) and isinstance(c.func.value, ast.Name) and c.func.value.id in ('self', 'cls') and len(c.args) == 1 \
                and norm(c.args[0]) == self.other and self._is_conversion(c.func.attr):
            return Sym('opaque')
        return NotImplemented

    def _is_conversion(self, name):
        """a helper of the class that hands back its argument, as it is or re-read as BaseVersion(str(arg)) (the conversion prologue)"""
        h = self.f.module.funcs.get('%s.%s' % (self.f.cls, name))
        if h is None:
            return False
        ps = [a.arg for a in h.node.args.args if a.arg not in ('self', 'cls')]
        if len(ps) != 1:
            return False
        rets = [r for r in ast.walk(h.node) if isinstance(r, ast.Return)]
        ok = {ps[0], 'BaseVersion(str(%s))' % ps[0], 'BaseVersion(%s)' % ps[0]}
        stores = [n for n in ast.walk(h.node) if isinstance(n, ast.Name) and isinstance(n.ctx, ast.Store) and n.id == ps[0]]
        return bool(rets) and not stores and all(r.value is not None and norm(r.value) in ok for r in rets)

    def ev_compare(self, it, t, env, facts):
        l, r = t.left, t.comparators[0]
        # other is None / isinstance checks: the conversion prologue
        if (isinstance(l, ast.Name) and l.id == self.other) or 'isinstance' in norm(t):
            return [(False, facts)]
        # a component tested for absence: both outcomes, remembered on the path (a result decided by it is not the "0" default)
        if isinstance(t.ops[0], (ast.Is, ast.IsNot)) and isinstance(r, ast.Constant) and r.value is None:
            try:
                lv = it.ev(l, env, facts)
            except AnalysisError:
                lv = None
            if isinstance(lv, Sym) and lv.kind == 'raw':
                out = []
                for absent in (True, False):
                    f2 = Facts(facts.items)
                    f2.marks = dict(getattr(facts, 'marks', {}))
                    f2.marks[('absent', lv.side, lv.attr)] = absent
                    out.append((absent if isinstance(t.ops[0], ast.Is) else not absent, f2))
                return out
        ls, rs = self.side(l), self.side(r)
        if ls and rs:
            # comparison of raw spellings: undecided, no numeric information
            return [(True, facts), (False, facts)]
        return NotImplemented

    def ev_assign(self, it, st, env, facts):
        return NotImplemented


def r2_compare(rep, src):
    f = src.func(CLS + '._compare')
    rep.saw_func(f)
    hooks = CompareHooks(f)
    it = PathInterp(f.site, hooks)
    fnode, _ = normalize.inline_helpers(f)
    fnode = normalize.unroll_const_loops(fnode)
    body = list(fnode.body)
    # skip the conversion prologue (other is None / not a BaseVersion)
    start = 0
    for i, st in enumerate(body):
        if isinstance(st, ast.If) and (norm(st.test) == '%s is None' % hooks.other or 'isinstance' in norm(st.test)):
            start = i + 1
    facts = Facts()
    facts.marks = {}
    outs = it.run(body[start:], {'self': Sym('obj'), hooks.other: Sym('obj')}, facts)
    rep.analysed['paths'] += len(outs)
    L, R = Aff.var('self.epoch'), Aff.var('other.epoch')
    stage = {'epoch-lt': 0, 'epoch-gt': 0, 'upstream': 0, 'revision': 0}
    bad = []
    for kind, payload, env, fx in outs:
        if kind != 'return':
            bad.append('a path ends with %s instead of a return' % kind)
            continue
        marks = getattr(fx, 'marks', {})
        used_vars = {v for e in fx.items for v in e.c}
        weird = [v for v in used_vars if '!' in v]
        if weird:
            bad.append('the epoch is converted without the default "0" (%s): an absent epoch is not treated as 0' % weird[0])
            continue
        absent = [k for k, v in marks.items() if k[0] == 'absent' and v is True]
        if absent and isinstance(payload, int) and not (payload in (-1, 1) and (fx.entails(R - L - 1) or fx.entails(L - R - 1))):
            bad.append('the result %d is decided by the absence of %s.%s: an absent component must compare like "0" (e.g. "1.0" and "1.0-0" are equal)'
                       % (payload, absent[0][1], absent[0][2]))
            continue
        if isinstance(payload, int):
            if payload == -1 and fx.entails(R - L - 1):
                stage['epoch-lt'] += 1
            elif payload == 1 and fx.entails(L - R - 1):
                stage['epoch-gt'] += 1
            elif payload == 0 and fx.entails(L - R) and fx.entails(R - L) \
                    and {k[1][0][1] for k, v in marks.items() if k[0] == 'delegate-zero' and v is True} >= {'upstream_version', 'debian_revision'}:
                stage['revision'] += 1     # equal epochs, both part comparisons returned zero
            elif payload == 0:
                bad.append('a path returns 0 without consulting the upstream version and revision')
            else:
                bad.append('returns %d although the epochs may be numerically equal or ordered the other way (known: %r): e.g. "0:1.0" vs "1.0"'
                           % (payload, fx))
            continue
        if isinstance(payload, tuple) and payload[0] == 'delegate':
            (sa, aa, da), (sb, ab, db) = payload[1]
            eq = fx.entails(L - R) and fx.entails(R - L)
            if not eq:
                bad.append('the %s comparison is reached although the epochs may differ' % aa)
                continue
            if (sa, sb) != ('self', 'other') or aa != ab:
                bad.append('the part comparison is called with (%s.%s, %s.%s)' % (sa, aa, sb, ab))
                continue
            if da != '0' or db != '0':
                bad.append('an absent %s does not count as "0" on both sides (defaults %r / %r)' % (aa, da, db))
                continue
            # which stage: revision must come after an upstream comparison that returned zero
            prior = [k for k, v in marks.items() if k[0] == 'delegate-zero' and k[1] != payload[1]]
            if aa == 'upstream_version' and not prior:
                stage['upstream'] += 1
            elif aa == 'debian_revision' and any(k[1][0][1] == 'upstream_version' and marks[k] is True for k in prior):
                stage['revision'] += 1
            else:
                bad.append('the %s comparison is not in the order epoch, upstream version, revision' % aa)
            continue
        bad.append('a path returns %r' % (payload,))
    if bad:
        for b in sorted(set(bad)):
            rep.fail('C03.R2', f.site, '_compare: epoch numerically, then upstream, then revision', b, where=f.where)
    elif all(stage.values()):
        rep.ok('C03.R2', f.site, '_compare: epoch numerically, then upstream, then revision',
               '%d paths: -1 iff L<R, 1 iff L>R (absent epoch = 0), upstream when equal, revision when upstream equal, "0" default on both sides' % len(outs))
    else:
        rep.fail('C03.R2', f.site, '_compare: epoch numerically, then upstream, then revision', 'stages missing: %s' % [k for k, v in stage.items() if not v], where=f.where)


# ---------------------------------------------------------------------------------------------------
# R3/R4 loop semantics of the two list comparators

class ListCmpHooks:
    """hooks for _version_cmp_string (elements: ints) and _version_cmp_part (elements: chunks)"""

    def __init__(self, f, la, lb, elem_kind, cfg, pad):
        self.f, self.la, self.lb, self.elem_kind, self.cfg = f, la, lb, elem_kind, cfg
        self.pad = pad

    def elem(self, which):
        if self.elem_kind == 'int':
            return Sym('int', aff=Aff.var(which))
        return Sym('chunk', name=which, digit=self.cfg['kind' + which])

    def ev_expr(self, it, e, env, facts):
        # after the loop: lb[len(la)] (la[len(lb)]) is the element of the longer list at the position where the other has ended
        if isinstance(e, ast.Subscript) and isinstance(e.value, ast.Name) and e.value.id in (self.la, self.lb):
            other = self.lb if e.value.id == self.la else self.la
            which = 'A' if e.value.id == self.la else 'B'
            if norm(e.slice) == 'len(%s)' % other and env.get('#' + which) == 'NE' and env.get('#' + ('B' if which == 'A' else 'A')) == 'E':
                return self.elem(which)
        return NotImplemented

    def ev_call(self, it, c, env, facts):
        fn = norm(c.func)
        if isinstance(c.func, ast.Attribute) and c.func.attr == 'pop' and isinstance(c.func.value, ast.Name) and c.func.value.id in (self.la, self.lb):
            which = 'A' if c.func.value.id == self.la else 'B'
            if [norm(a) for a in c.args] != ['0']:
                raise AnalysisError('%s: elements are not taken from the front: %s' % (self.f.site, norm(c)))
            st = env['#' + which]
            if st != 'NE':
                raise AnalysisError('%s: pop from a list that may be empty' % self.f.site)
            env['#' + which] = 'popped'
            return self.elem(which)
        if fn == 'int' and len(c.args) == 1:
            v = it.ev(c.args[0], env, facts)
            if isinstance(v, Sym) and v.kind == 'chunk':
                return Sym('int', aff=Aff.var('int' + v.name))
            if isinstance(v, Sym) and v.kind == 'strconst' and v.v.isdigit():
                return Sym('int', aff=Aff.const(int(v.v)))
        if isinstance(c.func, ast.Attribute) and c.func.attr in ('isdecimal', 'isdigit') and not c.args:
            # chunks are maximal all-digit or digit-free runs (C03.R4 "chunks partition the string"): a digit chunk is all digits
            v = it.ev(c.func.value, env, facts)
            if isinstance(v, Sym) and v.kind == 'chunk':
                return Sym('truth', v=bool(v.digit))
            if isinstance(v, Sym) and v.kind == 'strconst':
                return Sym('truth', v=getattr(v.v, c.func.attr)())
        if fn.endswith('.match') and len(c.args) == 1:
            v = it.ev(c.args[0], env, facts)
            rname = fn.split('.')[-2]
            if rname == 're_digits':
                if isinstance(v, Sym) and v.kind == 'chunk':
                    return Sym('truth', v=bool(v.digit))
                if isinstance(v, Sym) and v.kind == 'strconst':
                    return Sym('truth', v=v.v[:1].isdigit())
        if fn in ('cls._version_cmp_string', 'self._version_cmp_string') and len(c.args) == 2:
            a, b = [it.ev(x, env, facts) for x in c.args]

            def tag(x):
                if isinstance(x, Sym) and x.kind == 'chunk':
                    return x.name
                if isinstance(x, Sym) and x.kind == 'strconst':
                    return 'pad:' + x.v
                return '?'
            return Sym('delegate', args=(tag(a), tag(b)))
        if fn == 'len' and len(c.args) == 1 and norm(c.args[0]) not in (self.la, self.lb):
            v = it.ev(c.args[0], env, facts)
            if isinstance(v, Sym) and v.kind == 'chunk':
                return Sym('chunklen', name=v.name, digit=v.digit)
            if isinstance(v, Sym) and v.kind == 'strconst':
                return Sym('chunklen', name='pad:' + v.v, digit=v.v.isdigit())
        if fn == 'len' and len(c.args) == 1 and norm(c.args[0]) in (self.la, self.lb):
            return Sym('int', aff=Aff.var('len' + ('A' if norm(c.args[0]) == self.la else 'B')))
        return NotImplemented

    def ev_compare(self, it, t, env, facts):
        try:
            l, r = it.ev(t.left, env, facts), it.ev(t.comparators[0], env, facts)
        except AnalysisError:
            return NotImplemented
        if any(isinstance(v, Sym) and v.kind in ('chunk', 'strconst') for v in (l, r)) and isinstance(t.ops[0], (ast.Lt, ast.Gt, ast.LtE, ast.GtE)):
            self.cfg.setdefault('flags', []).append('chunks are ordered as strings in `%s` (lexicographic: "10" < "9")' % norm(t))
            return [(True, facts), (False, facts)]
        if any(isinstance(v, Sym) and v.kind == 'chunklen' for v in (l, r)):
            if all(isinstance(v, Sym) and getattr(v, 'digit', False) for v in (l, r)):
                self.cfg.setdefault('flags', []).append('digit chunks are ordered by their length in `%s` (leading zeros: "01" vs "1", "007" vs "8")' % norm(t))
            return [(True, facts), (False, facts)]
        if all(isinstance(v, Sym) and ((v.kind == 'chunk' and v.digit) or (v.kind == 'strconst' and v.v.isdigit())) for v in (l, r)) \
                and any(v.kind == 'chunk' for v in (l, r)) and isinstance(t.ops[0], (ast.Eq, ast.NotEq)):
            self.cfg.setdefault('flags', []).append('digit chunks are compared by their spelling in `%s` ("1.01" and "1.1" are equal versions)' % norm(t))
            return [(True, facts), (False, facts)]
        return NotImplemented

    def ev_assign(self, it, st, env, facts):
        return NotImplemented


def list_truth(name, env, la, lb):
    which = 'A' if name == la else 'B'
    return env['#' + which] == 'NE'


def analyse_list_comparator(f, elem_kind):
    """per position configuration: outcomes of one loop step.  returns dict cfgname -> list of (kind, payload, facts, consumed)"""
    fnode_, _inl = normalize.inline_helpers(f, depth=2, skip=('_version_cmp_string', '_version_cmp_part', '_order'))
    # `a = la.pop(0) if la else '0'`: an assignment whose value is chosen by a test that is not a comparison of the two elements is
    # the if-statement it abbreviates
    if any(isinstance(st, ast.Assign) and isinstance(st.value, ast.IfExp) and not isinstance(st.value.test, ast.Compare) for st in ast.walk(fnode_)):
        fnode_ = normalize.ifexp_to_if(fnode_)
    params = f.params()
    va, vb = params[1], params[2]
    if not any(isinstance(st, ast.While) for st in fnode_.body):
        # no position loop: the comparison of two lists padded to the same length abbreviates one
        alt = normalize.padded_list_compare_to_loop(fnode_, va, vb)
        if alt is not None:
            fnode_ = alt
    body = fnode_.body
    la = lb = None
    loop = None
    for st in body:
        if isinstance(st, ast.Assign) and isinstance(st.targets[0], ast.Name):
            names = {x.id for x in ast.walk(st.value) if isinstance(x, ast.Name)}
            if va in names and vb not in names and la is None:
                la = st.targets[0].id
            elif vb in names and va not in names and lb is None:
                lb = st.targets[0].id
        if isinstance(st, (ast.While, ast.For)) and loop is None:
            loop = st
    if la is None or lb is None or loop is None:
        raise AnalysisError('%s: the two element lists / the comparison loop were not found' % f.site)
    if isinstance(loop, ast.For) and isinstance(loop.iter, ast.Call) and norm(loop.iter.func) == 'enumerate':
        # a walk by index over the first list that pads the second: the position loop it abbreviates
        alt = normalize.enumerate_pad_loop_to_while(fnode_, la, lb)
        if alt is not None:
            fnode_ = alt
            body = fnode_.body
            loop = [st for st in body if isinstance(st, (ast.While, ast.For))][0]
    post = body[body.index(loop) + 1:]
    results = {}
    kinds = [(None, None)] if elem_kind == 'int' else [(a, b) for a in (True, False) for b in (True, False)]
    for sa in ('NE', 'E'):
        for sb in ('NE', 'E'):
            for ka, kb in kinds:
                if elem_kind != 'int' and ((sa == 'E' and ka is False) or (sb == 'E' and kb is False)):
                    continue
                cfg = {'A': sa, 'B': sb, 'kindA': ka, 'kindB': kb}
                name = '%s/%s' % (sa, sb) + ('' if elem_kind == 'int' else ' %s/%s' % ('digit' if ka else 'other', 'digit' if kb else 'other'))
                hooks = ListCmpHooks(f, la, lb, elem_kind, cfg, None)
                it = PathInterp(f.site, hooks)
                facts = Facts()
                facts.marks = {}
                if sa == 'NE' and sb == 'E':
                    facts = PathInterp._add(facts, Aff.var('lenA') - Aff.var('lenB') - 1)
                elif sa == 'E' and sb == 'NE':
                    facts = PathInterp._add(facts, Aff.var('lenB') - Aff.var('lenA') - 1)
                else:
                    facts = PathInterp._add(PathInterp._add(facts, Aff.var('lenA') - Aff.var('lenB')), Aff.var('lenB') - Aff.var('lenA')) \
                        if sa == 'E' else facts
                env = {'#A': sa, '#B': sb, 'cls': Sym('obj'), 'self': Sym('obj')}
                outs = []
                if isinstance(loop, ast.While):
                    # loop test on list truthiness
                    def truth(t):
                        if isinstance(t, ast.Name) and t.id in (la, lb):
                            return list_truth(t.id, env, la, lb)
                        if isinstance(t, ast.BoolOp):
                            vs = [truth(v) for v in t.values]
                            return any(vs) if isinstance(t.op, ast.Or) else all(vs)
                        raise AnalysisError('%s: loop condition outside the vocabulary: %s' % (f.site, norm(t)))
                    if truth(loop.test):
                        # list truthiness inside the body
                        class H(ListCmpHooks):
                            def ev_compare(self, it2, t, env2, facts2):
                                return NotImplemented
                        hooks2 = hooks
                        orig_cond = it.cond

                        def cond(t, env2, facts2):
                            if isinstance(t, ast.Name) and t.id in (la, lb):
                                return [(env2['#' + ('A' if t.id == la else 'B')] == 'NE', facts2)]
                            return orig_cond(t, env2, facts2)
                        it.cond = cond
                        for kind, payload, env2, fx in it.run(loop.body, env, facts):
                            consumed = (env2['#A'] == 'popped', env2['#B'] == 'popped')
                            outs.append((kind if kind != 'fall' else 'iterate', payload, fx, consumed))
                    else:
                        for kind, payload, env2, fx in it.run(post, env, facts):
                            outs.append((kind, payload, fx, (False, False)))
                else:
                    itx = loop.iter
                    fnn = norm(itx.func) if isinstance(itx, ast.Call) else ''
                    args = [norm(a) for a in itx.args] if isinstance(itx, ast.Call) else []
                    fill = None
                    if fnn in ('zip_longest', 'itertools.zip_longest') and args[:2] == [la, lb]:
                        mode = 'longest'
                        for kw in itx.keywords:
                            if kw.arg == 'fillvalue':
                                fill = kw.value
                    elif fnn == 'zip' and args == [la, lb]:
                        mode = 'zip'
                    else:
                        raise AnalysisError('%s: loop iterable outside the vocabulary: %s' % (f.site, norm(itx)))
                    if not (isinstance(loop.target, ast.Tuple) and len(loop.target.elts) == 2):
                        raise AnalysisError('%s: loop target' % f.site)
                    ta, tb = [norm(x) for x in loop.target.elts]
                    runs_body = (sa == 'NE' and sb == 'NE') or (mode == 'longest' and (sa == 'NE' or sb == 'NE'))
                    if runs_body:
                        def val(which, st_):
                            if st_ == 'NE':
                                return hooks.elem(which)
                            if fill is None:
                                return None
                            return it.ev(fill, env, facts)
                        env[ta], env[tb] = val('A', sa), val('B', sb)
                        if env[ta] is None or env[tb] is None:
                            raise AnalysisError('%s: zip_longest without a fill value compares None' % f.site)
                        for kind, payload, env2, fx in it.run(loop.body, env, facts):
                            outs.append((kind if kind != 'fall' else 'iterate', payload, fx, (sa == 'NE', sb == 'NE')))
                    else:
                        for kind, payload, env2, fx in it.run(post, env, facts):
                            outs.append((kind, payload, fx, (False, False)))
                results[name] = (cfg, outs)
    return results, la, lb


def pad_of(f, loopvar_defaults):
    return loopvar_defaults


def r3_string_compare(rep, src):
    f = src.func(CLS + '._version_cmp_string')
    rep.saw_func(f)
    results, la, lb = analyse_list_comparator(f, 'int')
    A, B = Aff.var('A'), Aff.var('B')
    n = 0
    for name, (cfg, outs) in sorted(results.items()):
        n += len(outs)
        X = A if cfg['A'] == 'NE' else Aff.const(0)
        Y = B if cfg['B'] == 'NE' else Aff.const(0)
        what = 'character comparison, position with %s' % name.replace('NE', 'a value').replace('E', 'end of string')
        bad = None
        for kind, payload, fx, consumed in outs:
            if kind == 'return' and isinstance(payload, int):
                if payload == -1 and fx.entails(Y - X - 1):
                    continue
                if payload == 1 and fx.entails(X - Y - 1):
                    continue
                if payload == 0 and cfg['A'] == 'E' and cfg['B'] == 'E':
                    continue
                bad = 'returns %d where the order values compare as %r vs %r under %r; the shorter string must count as order 0 at this position ' \
                      '(so that "~" = -1 sorts before the end and everything else after it)' % (payload, X, Y, fx)
            elif kind in ('iterate', 'continue'):
                if not (fx.entails(X - Y) and fx.entails(Y - X)):
                    bad = 'continues with the next position although the values may differ (%r vs %r under %r)' % (X, Y, fx)
                elif consumed != (cfg['A'] == 'NE', cfg['B'] == 'NE'):
                    bad = 'does not advance both strings by one position'
                else:
                    continue
            else:
                bad = 'ends with %s %r' % (kind, payload)
            break
        if not outs:
            bad = 'no path'
        if bad:
            rep.fail('C03.R3', f.site, what, bad, where=f.where)
        else:
            rep.ok('C03.R3', f.site, what, '%d path(s): sign of (%r) − (%r), equal → next position' % (len(outs), X, Y))
    rep.analysed['paths'] += n


def r4_part_compare(rep, src):
    f = src.func(CLS + '._version_cmp_part')
    rep.saw_func(f)
    results, la, lb = analyse_list_comparator(f, 'chunk')
    n = 0
    for name, (cfg, outs) in sorted(results.items()):
        n += len(outs)
        what = 'chunk comparison, position with %s' % name.replace('NE', 'a chunk').replace('E/', 'end/').replace('/E', '/end')
        bothE = cfg['A'] == 'E' and cfg['B'] == 'E'
        dA = cfg['kindA'] if cfg['A'] == 'NE' else True
        dB = cfg['kindB'] if cfg['B'] == 'NE' else True
        X = Aff.var('intA') if cfg['A'] == 'NE' else Aff.const(0)
        Y = Aff.var('intB') if cfg['B'] == 'NE' else Aff.const(0)
        bad = None
        if cfg.get('flags'):
            bad = cfg['flags'][0]
        for kind, payload, fx, consumed in outs:
            if bad:
                break
            marks = getattr(fx, 'marks', {})
            if bothE:
                if kind == 'return' and payload == 0:
                    continue
                bad = 'both versions exhausted but the result is %r' % (payload,)
                break
            if dA and dB:
                # numeric comparison
                if kind == 'return' and isinstance(payload, int):
                    if (payload == -1 and fx.entails(Y - X - 1)) or (payload == 1 and fx.entails(X - Y - 1)):
                        continue
                    bad = 'two digit chunks: returns %d under %r' % (payload, fx)
                elif kind in ('iterate', 'continue'):
                    if fx.entails(X - Y) and fx.entails(Y - X) and not marks:
                        continue
                    bad = 'two digit chunks are not compared as integers (leading zeros / absent = 0): continues under %r%s' % (fx, ' after a character comparison' if marks else '')
                else:
                    bad = 'two digit chunks: %s %r (digit chunks must be compared numerically)' % (kind, payload)
            else:
                want = ('A' if cfg['A'] == 'NE' else 'pad:0', 'B' if cfg['B'] == 'NE' else 'pad:0')
                if kind == 'return' and isinstance(payload, tuple) and payload[0] == 'delegate':
                    if payload[1] == want and marks.get(('delegate-zero', want)) is False:
                        continue
                    bad = 'delegates to the character comparison with %r instead of %r' % (payload[1], want)
                elif kind in ('iterate', 'continue'):
                    if marks.get(('delegate-zero', want)) is True:
                        continue
                    bad = 'a digit and a non-digit chunk (or an exhausted side, which counts as "0") are not compared by the character rule'
                else:
                    bad = 'mixed chunks: %s %r' % (kind, payload)
            if bad:
                break
        if not outs:
            bad = 'no path'
        if bad:
            rep.fail('C03.R4', f.site, what, bad, where=f.where)
        else:
            rep.ok('C03.R4', f.site, what, '%d path(s)' % len(outs))
    rep.analysed['paths'] += n
    # chunk regex partitions every string into maximal digit / non-digit runs
    r = src.regex(M, 're_all_digits_or_not', cls='NativeVersion')
    rep.saw_regex('debian_support:NativeVersion.re_all_digits_or_not')
    alpha = rx.alphabet('str')
    tree = rx.parse(r['pattern'], r['flags'])
    alts = None
    for op, av in tree:
        if str(op) == 'BRANCH':
            alts = av[1]
    ok = False
    if alts is not None and len(alts) == 2 and len(list(tree)) == 1:
        masks = []
        for alt in alts:
            items = list(alt)
            if len(items) == 1 and str(items[0][0]) == 'MAX_REPEAT' and items[0][1][0] == 1 and items[0][1][1] == rx.MAXREPEAT and len(items[0][1][2]) == 1:
                masks.append(alpha.leaf(items[0][1][2][0], tree.state.flags))
        if len(masks) == 2 and masks[0] & masks[1] == 0 and (masks[0] | masks[1]) == alpha.full:
            digits = alpha.mask_of(lambda c: c in '0123456789')
            if masks[0] & ((1 << 128) - 1) == digits or masks[1] & ((1 << 128) - 1) == digits:
                ok = True
    if ok:
        rep.ok('C03.R4', CLS + '.re_all_digits_or_not', 'chunks partition the string', 'two greedy alternatives over complementary classes, one of them the digits')
    else:
        rep.fail('C03.R4', CLS + '.re_all_digits_or_not', 'chunks partition the string', 'findall(%r) does not split a version into maximal digit and non-digit runs covering every character' % r['pattern'])
    t = norm(f.node)
    if 'cls.re_all_digits_or_not.findall(' not in t:
        rep.fail('C03.R4', f.site, 'chunks come from re_all_digits_or_not.findall', 'the part comparison does not chunk with findall', where=f.where)


CONSTS = [None]


def fold_char_expr(e, var, ch):
    look = CONSTS[0]
    if look is not None and isinstance(e, (ast.Name, ast.Attribute)) and norm(e) != var:
        v = look(norm(e))
        if v is not None and isinstance(v[0], int) and not isinstance(v[0], bool):
            return v[0]
    if look is not None and isinstance(e, ast.Subscript) and isinstance(e.slice, ast.Name) and e.slice.id == var:
        v = look(norm(e.value))
        if v is not None and isinstance(v[0], (dict, str, list, tuple)):
            try:
                r = v[0][ch]
            except (KeyError, IndexError, TypeError):
                return None
            return r if isinstance(r, int) and not isinstance(r, bool) else None
    if look is not None and isinstance(e, ast.Call) and isinstance(e.func, ast.Attribute) and e.func.attr in ('index', 'find') \
            and [norm(a) for a in e.args] == [var]:
        v = look(norm(e.func.value))
        if v is not None and isinstance(v[0], (str, list, tuple)):
            return v[0].index(ch) if ch in v[0] else (-1 if e.func.attr == 'find' else None)
    """constant folding of an integer expression over one character: constants, ord(var), int(var), + - unary -"""
    if isinstance(e, ast.Constant) and isinstance(e.value, int):
        return e.value
    if isinstance(e, ast.UnaryOp) and isinstance(e.op, ast.USub):
        v = fold_char_expr(e.operand, var, ch)
        return None if v is None else -v
    if isinstance(e, ast.BinOp) and isinstance(e.op, (ast.Add, ast.Sub)):
        l, r = fold_char_expr(e.left, var, ch), fold_char_expr(e.right, var, ch)
        if l is None or r is None:
            return None
        return l + r if isinstance(e.op, ast.Add) else l - r
    if isinstance(e, ast.Call) and len(e.args) == 1 and isinstance(e.args[0], ast.Name) and e.args[0].id == var:
        if norm(e.func) == 'ord':
            return ord(ch)
        if norm(e.func) == 'int':
            return int(ch) if ch in '0123456789' else None
    return None


def r3b_order_chain(rep, src):
    """_order: '~' < 0 (pad) < digits < letters (by code) < everything else.  The weight of every ASCII character is computed by
    interpreting _order on it (sa.heap; class-level tables are the folded values, regex tests are decided on the one character) --
    a finite function, tabulated, then the chain is a comparison of ranges"""
    from .. import heap as H
    f = src.func(CLS + '._order')
    rep.saw_func(f)
    mod = src.mod(M)
    weight = {}
    for i in range(128):
        ch = chr(i)
        heap = H.Heap(mod)
        heap.native_regex = True
        it = H.Interp(heap)
        try:
            v = it.call(H.Closure(f.node, {}, ('class', 'NativeVersion'), f.cls), [ch])
        except H.Raised:
            continue
        if isinstance(v, bool) or not isinstance(v, int):
            raise AnalysisError('%s: the weight of %r is not a decided integer (%r)' % (f.site, ch, v))
        weight[ch] = v
    def rng(chars):
        vals = [weight[c] for c in chars if c in weight]
        if len(vals) != len(chars):
            raise AnalysisError('%s: no weight for %r' % (f.site, [c for c in chars if c not in weight]))
        return (min(vals), max(vals))
    import string as _s
    rt, rd, rl, ro = rng('~'), rng(_s.digits), rng(_s.ascii_letters), rng('.+-:')
    chain = rt[1] < 0 < rd[0] and rd[1] < rl[0] and rl[1] < ro[0]
    if chain:
        rep.ok('C03.R3', f.site, 'order chain', "'~' %s < pad 0 < digits %s < letters %s < other characters %s" % (rt, rd, rl, ro))
    else:
        rep.fail('C03.R3', f.site, 'order chain', "order values do not form the chain '~' < end-of-string (0) < digits < letters < other characters: "
                 "'~' %s, digits %s, letters %s, others %s" % (rt, rd, rl, ro), where=f.where)
    letters = sorted(_s.ascii_letters)
    mono = all(weight[a] < weight[b] for a, b in zip(letters, letters[1:]))
    if mono:
        rep.ok('C03.R3', f.site, 'letters sort by code point', 'strictly increasing', nontrivial=False)
    else:
        rep.fail('C03.R3', f.site, 'letters sort by code point', 'letters are not ordered by their code', where=f.where)
    dmono = all(weight[a] < weight[b] for a, b in zip(_s.digits, _s.digits[1:]))
    if dmono:
        rep.ok('C03.R3', f.site, 'digits sort by value', 'strictly increasing', nontrivial=False)
    else:
        rep.fail('C03.R3', f.site, 'digits sort by value', 'the weights of the digits 0..9 are not increasing', where=f.where)


def r5_hash(rep, src):
    f = src.func(M + ':BaseVersion.__hash__')
    rep.saw_func(f)
    m = src.mod(M)
    # the value handed to hash(), computed by interpreting __hash__ (sa.heap, hash() itself answering with its argument) on version
    # objects that compare equal although they are spelled differently: absent / zero epoch, leading zeros in a digit run, absent /
    # zero revision, a missing trailing number (dpkg: the end of a part counts as 0).  Equal versions must hand the same value to hash().
    hcalls = [c for c in ast.walk(f.node) if isinstance(c, ast.Call) and norm(c.func) == 'hash' and c.args]
    if not hcalls:
        raise AnalysisError('%s: no call of hash() found' % f.site)
    arg = hcalls[0].args[0]
    from .. import heap as H

    def key_of(ep, up, rev):
        got = []
        heap = H.Heap(m, hooks={'hash': lambda it, a, k: (got.append(a[0]), 0)[1]})
        heap.native_regex = True
        me = heap.alloc('NativeVersion', {'epoch': ep, 'upstream_version': up, 'debian_revision': rev, 'debian_version': rev,
                                          '_BaseVersion__epoch': ep, '_BaseVersion__upstream_version': up, '_BaseVersion__debian_revision': rev,
                                          'full_version': ('%s:' % ep if ep is not None else '') + up + ('-%s' % rev if rev is not None else '')})
        H.Interp(heap).call(H.Closure(f.node, {}, me, f.cls), [])

        def plain(v):
            if isinstance(v, H.Ref):
                o = heap.objs[v.name]
                return tuple(plain(x) for x in o['items']) if o['__class__'] == 'list' else v.name
            if isinstance(v, (tuple, list)):
                return tuple(plain(x) for x in v)
            return v
        if len(got) != 1:
            raise AnalysisError('%s: hash() is called %d times on a fresh object' % (f.site, len(got)))
        return plain(got[0])
    classes = [
        ('absent and zero epoch, absent and zero revision, leading zeros', [(None, '1.0', None), ('0', '1.0', None), ('00', '1.0', None), (None, '1.0', '0'), (None, '1.00', None), (None, '01.0', None)]),
        ('a missing trailing number counts as 0', [(None, '2.0a', None), (None, '2.0a0', None), (None, '2.0a', '0'), (None, '2.0a00', None)]),
        ('leading zeros in the revision and the epoch', [('1', '3', '1'), ('01', '3', '01'), ('1', '03', '1')]),
        ('the end of the upstream part counts as 0', [(None, '1.', None), (None, '1.0', None)]),
    ]
    t = None
    n_keys = 0
    for label, members in classes:
        keys = []
        for mem in members:
            try:
                keys.append(key_of(*mem))
                n_keys += 1
            except H.Raised as x:
                t = t or 'for the version (epoch %r, upstream %r, revision %r) __hash__ raises %s' % (mem + (x.exc,))
        for mem, k_ in zip(members, keys):
            if k_ != keys[0] and t is None:
                t = ('the versions (epoch, upstream, revision) %r and %r compare equal (%s) but hand different values to hash(): %r and %r'
                     % (members[0], mem, label, keys[0], k_))
    if t:
        rep.fail('C03.R5', f.site, 'hash ignores what equality ignores', t + ': versions that compare equal (1.0 / 1.00 / 0:1.0 / 1.0-0) get different hashes', where=f.where)
    else:
        rep.ok('C03.R5', f.site, 'hash ignores what equality ignores', '%d versions in %d classes of equal versions: one value per class reaches hash()' % (n_keys, len(classes)))
    # all three components contribute (otherwise unequal versions collide systematically - allowed, but equal ones must agree: ok)
    parts = {a for a in ('epoch', 'upstream_version', 'debian_revision') if ('self.' + a) in norm(arg)}
    rep.ok('C03.R5', f.site, 'components hashed', ', '.join(sorted(parts)) or 'none', nontrivial=False)
    # subclasses must not override __hash__ with a raw one
    for cname in m.classes:
        if cname != 'BaseVersion' and 'BaseVersion' in m.mro(cname):
            h = m.funcs.get(cname + '.__hash__')
            if h is not None and 'str(self)' in norm(h.node):
                rep.fail('C03.R5', h.site, 'hash ignores what equality ignores', '%s.__hash__ hashes the raw string' % cname, where=h.where)


def r6_unbounded_conversions(rep, src):
    """the comparison and the hash are defined for every valid version string; a digit run (or an epoch) of a valid version has no
    maximum length, and int() of a decimal text of more than 4300 digits raises ValueError on CPython >= 3.11 (the integer string
    conversion limit) -- so no int() may be applied to a whole digit run on the comparison / hash path (runs can be compared as
    text: without leading zeros, by length, then lexicographically).  int() of a single character is bounded."""
    mod = src.mod(M)
    # the two public operations and everything of the class hierarchy they reach: a finding names the operation (what fails for the
    # user), its text the conversions reached from it -- moving a conversion between helpers is the same finding
    n = 0
    for entry in ('NativeVersion._compare', 'BaseVersion.__hash__'):
        root = mod.funcs.get(entry)
        if root is None:
            raise AnalysisError('%s:%s not found' % (M, entry))
        reach, todo = [], [root]
        while todo:
            g_ = todo.pop()
            if any(g_ is x for x in reach):
                continue
            reach.append(g_)
            for c in ast.walk(g_.node):
                if isinstance(c, ast.Call) and isinstance(c.func, ast.Attribute) and isinstance(c.func.value, ast.Name) and c.func.value.id in ('self', 'cls', 'NativeVersion', 'BaseVersion'):
                    for cname in ('NativeVersion', 'BaseVersion'):
                        h_ = mod.method(cname, c.func.attr)
                        if h_ is not None:
                            todo.append(h_)
                            break
                if isinstance(c, ast.Attribute) and isinstance(c.value, ast.Name) and c.value.id in ('self', 'cls') and not isinstance(getattr(c, '_parent', None), ast.Call):
                    h_ = mod.method('NativeVersion', c.attr)          # a method taken as a value (map(cls._order, ...))
                    if h_ is not None:
                        todo.append(h_)
        found = []
        for fn in reach:
            rep.saw_func(fn)
            calls = [c for c in ast.walk(fn.node) if isinstance(c, ast.Call) and norm(c.func) == 'int' and c.args]
            if not calls:
                continue
            q = fn.qual
            # a single character: the parameter of a function whose every call site passes an element of the iteration over a text
            single_char = False
            if q.endswith('._order'):
                p0 = fn.params()[-1]
                users = [c for f2 in mod.funcs.values() for c in ast.walk(f2.node) if isinstance(c, ast.Call) and norm(c.func).endswith('._order')]
                mapped = [c for f2 in mod.funcs.values() for c in ast.walk(f2.node) if isinstance(c, ast.Call) and norm(c.func) == 'map' and c.args and norm(c.args[0]).endswith('._order')]

                def elem_of_text(c):
                    par = getattr(c, '_parent', None)
                    while par is not None and not isinstance(par, (ast.ListComp, ast.GeneratorExp, ast.For)):
                        par = getattr(par, '_parent', None)
                    if isinstance(par, (ast.ListComp, ast.GeneratorExp)):
                        g = par.generators[0]
                        return isinstance(g.target, ast.Name) and [norm(a_) for a_ in c.args] == [g.target.id] and isinstance(g.iter, ast.Name)
                    if isinstance(par, ast.For):
                        return isinstance(par.target, ast.Name) and [norm(a_) for a_ in c.args] == [par.target.id] and isinstance(par.iter, ast.Name)
                    return False
                single_char = bool(users or mapped) and all(elem_of_text(c) for c in users) and all(norm(c.args[0]) == p0 for c in calls)
            if single_char:
                rep.ok('C03.R6', fn.site, 'int() of one character', 'applied to one character only', nontrivial=False)
            else:
                found += [(fn, c) for c in calls]
        n += 1
        what = 'int() of a digit run'
        if found:
            rep.fail('C03.R6', root.site, what, '%s convert%s a whole digit run (or the epoch) to an integer: for a valid version with a run of more than 4300 digits (leading zeros '
                     'included: "1." + "0" * 4300 + "1") %s ValueError on CPython >= 3.11, where dpkg orders the same strings' % (
                         ', '.join('`%s` in %s' % (norm(c)[:40], fn.qual) for fn, c in found[:4]), 's' if len(found) == 1 else '',
                         'every comparison operator and version_compare raise' if 'compare' in entry else 'hash() raises'),
                     where='%s:%d' % (found[0][0].module.relpath, found[0][1].lineno))
        else:
            rep.ok('C03.R6', root.site, what, 'no conversion of a whole digit run reachable')
    if n < 2:
        raise AnalysisError('only %d functions with integer conversions found on the comparison / hash path' % n)


def r8_live_components(rep, src):
    """a version object can be edited (epoch, upstream_version, debian_revision, full_version are assignable): comparison and hash must
    speak about the components the object has NOW.  Every instance attribute that the comparison / the hash reads -- in _compare,
    __hash__ and the methods they call, on self, on the other operand or on a parameter one of them is passed as -- is one of the
    assignable components (magic_attrs), or is stored by the function every component update funnels through (_set_full_version);
    an attribute that is only stored elsewhere (at construction) goes stale on the first assignment"""
    mod = src.mod(M)
    magic = mod.consts.get('BaseVersion', {}).get('magic_attrs')
    if not isinstance(magic, (tuple, list, set, frozenset)) or not magic:
        raise AnalysisError('BaseVersion.magic_attrs is not a table of constants')
    funnel = src.func(M + ':BaseVersion._set_full_version')

    def stored_on_self(fn):
        out = set()
        for n in ast.walk(fn.node):
            if isinstance(n, ast.Attribute) and isinstance(n.ctx, ast.Store) and isinstance(n.value, ast.Name) and n.value.id == 'self':
                out.add(n.attr)
        return out
    maintained = stored_on_self(funnel)
    classes = [c for c in ('NativeVersion', 'BaseVersion') if c in mod.classes]
    state = {}          # attribute -> functions of the classes that store it on self
    for q, fn in mod.funcs.items():
        if fn.cls in classes:
            for a in stored_on_self(fn):
                state.setdefault(a, []).append(q)
    n_inst = 0
    for entry in ('NativeVersion._compare', 'BaseVersion.__hash__'):
        start = mod.funcs.get(entry)
        if start is None:
            raise AnalysisError('%s not found' % entry)
        rep.saw_func(start)
        seen, todo, reads = set(), [start], []
        while todo:
            fn = todo.pop()
            if fn.qual in seen:
                continue
            seen.add(fn.qual)
            params = {a.arg for a in fn.node.args.args} - {'cls'}
            for n in ast.walk(fn.node):
                if isinstance(n, ast.Attribute) and isinstance(n.ctx, ast.Load) and isinstance(n.value, ast.Name) and (n.value.id in params or n.value.id == 'cls'):
                    callee = mod.method(fn.cls or 'NativeVersion', n.attr) or mod.method('NativeVersion', n.attr)
                    if callee is not None:
                        todo.append(callee)
                    elif n.value.id in params:
                        reads.append((n.attr, fn, n.lineno))
        stale = [(a, fn, ln) for a, fn, ln in reads if a in state and a not in magic and a not in maintained
                 and not (a.startswith('__') and ('_BaseVersion' + a) in maintained)]
        n_inst += 1
        what = '%s reads the components the object has now' % entry
        if stale:
            a, fn, ln = stale[0]
            rep.fail('C03.R8', start.site, what, '%s reads the instance attribute `%s` (line %d), which is stored by %s and not by %s nor through an assignable component: after '
                     '`v.upstream_version = ...` (or epoch / debian_revision / full_version) the object still compares (hashes) as the version it was constructed from'
                     % (fn.qual, a, ln, ', '.join(sorted(set(state[a]))), funnel.qual), where='%s:%d' % (mod.relpath, ln))
        else:
            rep.ok('C03.R8', start.site, what, '%d attribute reads in %d functions, instance state only through %s' % (len(reads), len(seen), sorted(set(magic))))
    return n_inst


def r9_compare_by_interpretation(rep, src, tier):
    """the comparison itself, by interpretation: NativeVersion objects built by the real constructor for a family of version strings --
    epochs (absent, 0, leading zeros, larger), tildes, letters against digits against punctuation, digit runs with leading zeros and of
    different lengths, parts of which one is a prefix of the other, absent and zero revisions -- and `_compare` interpreted (sa.heap) on
    every ordered pair; the sign is that of dpkg's algorithm (implemented here as the reference: epoch as a number, then upstream, then
    revision, each by alternating non-digit runs -- '~' before the end before letters before everything else -- and numbers)."""
    import itertools
    from .. import heap as H
    mod = src.mod(M)
    init = mod.method('NativeVersion', '__init__')
    cmpf = mod.method('NativeVersion', '_compare')
    if init is None or cmpf is None:
        raise AnalysisError('%s:NativeVersion.__init__ / _compare not found' % M)
    rep.saw_func(cmpf)

    def order(c):
        return -1 if c == '~' else 0 if c.isdigit() else ord(c) if c.isalpha() else ord(c) + 256

    def verrevcmp(a, b):
        i = j = 0
        while i < len(a) or j < len(b):
            first = 0
            while (i < len(a) and not a[i].isdigit()) or (j < len(b) and not b[j].isdigit()):
                ac = order(a[i]) if i < len(a) and not a[i].isdigit() else 0 if i >= len(a) or a[i].isdigit() else 0
                bc = order(b[j]) if j < len(b) and not b[j].isdigit() else 0
                if ac != bc:
                    return -1 if ac < bc else 1
                i += (i < len(a) and not a[i].isdigit())
                j += (j < len(b) and not b[j].isdigit())
            while i < len(a) and a[i] == '0':
                i += 1
            while j < len(b) and b[j] == '0':
                j += 1
            while i < len(a) and a[i].isdigit() and j < len(b) and b[j].isdigit():
                if not first:
                    first = ord(a[i]) - ord(b[j])
                i += 1
                j += 1
            if i < len(a) and a[i].isdigit():
                return 1
            if j < len(b) and b[j].isdigit():
                return -1
            if first:
                return -1 if first < 0 else 1
        return 0

    def split(s_):
        ep, rest = (s_.split(':', 1) if ':' in s_ and s_.split(':', 1)[0].isdigit() else ('0', s_))
        up, rev = rest.rsplit('-', 1) if '-' in rest else (rest, '0')
        return int(ep), up, rev

    def ref(a, b):
        (ea, ua, ra), (eb, ub, rb) = split(a), split(b)
        if ea != eb:
            return -1 if ea < eb else 1
        return verrevcmp(ua, ub) or verrevcmp(ra, rb)
    FAMILY = ['1.0', '1.00', '0:1.0', '1:0.5', '01:0.5', '2:0', '1.0-0', '1.0-1', '1.0-01', '1.0~rc1', '1.0~', '1.0~~', '1.0a', '1.0+', '1.0.', '1.0.0', '1.10', '1.9',
              '1.0-1~', '1.0-1a', '1a', '1', 'a', '~', '1+b1', '1-1-1', '1:1:1']
    if tier == 'thorough':
        FAMILY += ['1.0-a', '1.0-+', '0', '00', '0~0', '9', '10', '010', '1.a1', '1.a01', '1.-1', '1.~1', '1..1', '2~~a', '2~a', '2a~', '0:0-0', '1.0-1.0', '1.0-1-0']
    heap = H.Heap(mod)
    heap.native_regex = True
    heap.intercept_setattr = True
    it = H.Interp(heap)
    objs = {}
    for s_ in FAMILY:
        v = heap.alloc('NativeVersion', {})
        try:
            it.call(H.Closure(init.node, {}, v, init.cls), [s_])
        except H.Raised as x:
            raise AnalysisError('the valid version %r cannot be constructed (%s): decided under C03.R7' % (s_, x.exc))
        objs[s_] = v
    bad, n = None, 0
    for a, b in itertools.product(FAMILY, repeat=2):
        n += 1
        try:
            r = it.call(H.Closure(cmpf.node, {}, objs[a], cmpf.cls), [objs[b]])
        except H.Raised as x:
            r = 'raises %s' % x.exc
        want = ref(a, b)
        got = r if isinstance(r, str) else (r > 0) - (r < 0) if isinstance(r, int) and not isinstance(r, bool) else 'gives %r' % (r,)
        if got != want and bad is None:
            bad = 'Version(%r) compared with Version(%r) %s; dpkg orders them %s' % (a, b, got if isinstance(got, str) else 'gives %d' % got,
                                                                                        {-1: 'first < second', 0: 'as equal', 1: 'first > second'}[want])
    rep.analysed['paths'] += n
    if bad:
        rep.fail('C03.R9', cmpf.site, 'the order of dpkg on a family of versions (interpreted)', bad, where=cmpf.where)
    else:
        rep.ok('C03.R9', cmpf.site, 'the order of dpkg on a family of versions (interpreted)', '%d ordered pairs of %d versions' % (n, len(FAMILY)))
    # the six operators and version_compare(), interpreted on the same objects / the same strings: each operator answers as the
    # order says, version_compare gives exactly -1 / 0 / 1 -- however they reach the comparison
    import operator as _op
    OPS = {'__lt__': _op.lt, '__le__': _op.le, '__eq__': _op.eq, '__ne__': _op.ne, '__ge__': _op.ge, '__gt__': _op.gt}
    sample = [(a, b) for k_, (a, b) in enumerate(itertools.product(FAMILY, repeat=2)) if tier == 'thorough' or k_ % 7 == 0 or a == b]
    bad_op = None
    for name, pyop in OPS.items():
        f = mod.method('NativeVersion', name)
        if f is None:
            raise AnalysisError('%s:NativeVersion.%s not found' % (M, name))
        for a, b in sample:
            try:
                r = it.call(H.Closure(f.node, {}, objs[a], f.cls), [objs[b]])
            except H.Raised as x:
                r = 'raises %s' % x.exc
            want = pyop(ref(a, b), 0)
            if (r is not want) and bad_op is None:
                bad_op = (f, 'Version(%r).%s(Version(%r)) %s; by the order of dpkg it is %s' % (a, name, b, r if isinstance(r, str) else 'gives %r' % (r,), want))
    if bad_op:
        rep.fail('C03.R9', bad_op[0].site, 'the comparison operators answer as the order says (interpreted)', bad_op[1], where=bad_op[0].where)
    else:
        rep.ok('C03.R9', '%s:BaseVersion' % M, 'the comparison operators answer as the order says (interpreted)', '6 operators on %d pairs' % len(sample))
    # histories: an object that was edited -- or whose edit was REFUSED -- compares and hashes as a fresh object of the version it now
    # shows (a refused assignment leaves it the version it was)
    seta = mod.method('NativeVersion', '__setattr__')
    hashf = mod.method('NativeVersion', '__hash__')
    strf = mod.method('NativeVersion', '__str__')
    if seta is None or hashf is None or strf is None:
        raise AnalysisError('%s:NativeVersion.__setattr__ / __hash__ / __str__ not found' % M)
    EDITS = [('2.0-1', 'full_version', '2.0-', None), ('2.0-1', 'full_version', '1:', None), ('1:2.0-1', 'epoch', 'x', None), ('2.0-1', 'debian_revision', '', None),
             ('2.0-1', 'upstream_version', '2:0', None), ('1:2.0-1', 'upstream_version', '', None), ('2.0-1', 'full_version', 'a b', None),
             ('2.0-1', 'epoch', '3', '3:2.0-1'), ('1:2.0-1', 'debian_revision', '2', '1:2.0-2'), ('2.0-1', 'upstream_version', '2.1~rc1', '2.1~rc1-1'), ('2.0-1', 'full_version', '1.0', '1.0'),
             ('1:2.0-1', 'epoch', None, '2.0-1')]
    PROBES = ['2.0-1', '1:2.0-1', '2.0', '2.0-', '3:2.0-1', '1:2.0-2', '2.1~rc1-1', '1.0', '2.0--1', '1:x:2.0-1', '2.0-0']
    bad_h = None
    for start, attr, value, becomes in EDITS:
        def fresh(s_):
            o_ = heap.alloc('NativeVersion', {})
            it.call(H.Closure(init.node, {}, o_, init.cls), [s_])
            return o_
        v = fresh(start)
        try:
            it.call(H.Closure(seta.node, {}, v, seta.cls), [attr, value])
            outcome = 'accepted'
        except H.Raised as x:
            outcome = 'refused' if x.exc.endswith('ValueError') else 'raises %s' % x.exc
        now = becomes if outcome == 'accepted' and becomes is not None else start
        label = 'v = Version(%r); v.%s = %r (%s)' % (start, attr, value, outcome)
        if (becomes is None) != (outcome == 'refused') and outcome != 'accepted':
            bad_h = bad_h or '%s: %s' % (label, 'a valid assignment is refused' if becomes is not None else outcome)
            continue
        if becomes is None and outcome == 'accepted':
            continue          # (what the class accepts is C14's business; the object then is what it shows)
        same = fresh(now)
        try:
            shown = it.call(H.Closure(strf.node, {}, v, strf.cls), [])
            shown = shown.concrete() if hasattr(shown, 'concrete') else shown
            if shown != now:
                bad_h = bad_h or '%s: the object then shows %r; it must be %r' % (label, shown, now)
                continue
            for p_ in PROBES:
                try:
                    other = fresh(p_)
                except H.Raised:
                    continue
                r1 = it.call(H.Closure(cmpf.node, {}, v, cmpf.cls), [other])
                r2 = it.call(H.Closure(cmpf.node, {}, same, cmpf.cls), [other])
                sg = lambda r_: (r_ > 0) - (r_ < 0) if isinstance(r_, int) and not isinstance(r_, bool) else r_          # noqa: E731
                if sg(r1) != sg(r2):
                    bad_h = bad_h or '%s: the object shows %r and compares with Version(%r) as %r; a fresh Version(%r) compares as %r' % (label, now, p_, sg(r1), now, sg(r2))
            h1 = it.call(H.Closure(hashf.node, {}, v, hashf.cls), [])
            h2 = it.call(H.Closure(hashf.node, {}, same, hashf.cls), [])
            if h1 != h2:
                bad_h = bad_h or '%s: the object shows %r and hashes differently from a fresh Version(%r)' % (label, now, now)
        except H.Raised as x:
            bad_h = bad_h or '%s: comparing / hashing the object afterwards raises %s' % (label, x.exc)
    if bad_h:
        rep.fail('C03.R9', seta.site, 'an edited object -- and one whose edit was refused -- compares and hashes as the version it shows (interpreted histories)', bad_h, where=seta.where)
    else:
        rep.ok('C03.R9', seta.site, 'an edited object -- and one whose edit was refused -- compares and hashes as the version it shows (interpreted histories)',
               '%d assignments, each followed by %d comparisons and a hash' % (len(EDITS), len(PROBES)))
    vc = mod.funcs.get('version_compare')
    if vc is None:
        raise AnalysisError('%s:version_compare not found' % M)
    rep.saw_func(vc)
    heap.class_alias = dict(getattr(heap, 'class_alias', None) or {}, Version='NativeVersion')          # (the pure-Python implementation is the one the statement is about)
    bad_vc = None
    for a, b in sample:
        try:
            r = it.call(H.Closure(vc.node, {}, None, None), [a, b])
        except H.Raised as x:
            r = 'raises %s' % x.exc
        want = ref(a, b)
        if not (isinstance(r, int) and not isinstance(r, bool) and r == want) and bad_vc is None:
            bad_vc = 'version_compare(%r, %r) %s; the order of dpkg gives %d' % (a, b, r if isinstance(r, str) else 'gives %r' % (r,), want)
    if bad_vc:
        rep.fail('C03.R9', vc.site, 'version_compare gives -1 / 0 / 1 as the order says (interpreted)', bad_vc, where=vc.where)
    else:
        rep.ok('C03.R9', vc.site, 'version_compare gives -1 / 0 / 1 as the order says (interpreted)', '%d pairs' % len(sample))


def check(src, rep, tier):
    rep.explanation = ('C03: (R1) operator table.  (R2) every path of NativeVersion._compare after the conversion prologue is enumerated with '
                       'linear facts on L = int(self.epoch or "0"), R = int(other.epoch or "0"): -1 only under L<R, 1 only under L>R, the '
                       'part comparisons only under L=R, upstream before revision, default "0" on both sides.  (R3) one loop step of '
                       '_version_cmp_string is interpreted in the four position configurations (value/end × value/end): the result must be '
                       'the sign of the difference with the exhausted side counting as 0, equal → advance both; the order function is '
                       'evaluated on all ASCII characters: "~" < 0 < digits < letters < others.  (R4) one loop step of _version_cmp_part per '
                       'configuration and chunk kind: digit/digit numeric via int, otherwise delegation to the character comparison in '
                       'argument order with "0" for an exhausted side; chunk regex partitions the string.  (R5) no raw spelling reaches hash().')
    rep.not_decided = ['agreement with dpkg on all pairs', 'transitivity as such', 'AptPkgVersion']
    rep.need('C03.R1', 7)
    rep.need('C03.R2', 1)
    rep.need('C03.R3', 6)
    rep.need('C03.R4', 8)
    rep.need('C03.R5', 1)
    # the premise of the comparison: a version that is valid by the Policy grammar can be constructed (C14.R1, the direction
    # valid ⊆ accepted; what else the constructor accepts is C14's business)
    from . import C14
    from . import common
    n_v, n_e = len(rep.violations), len(rep.errors)
    rep.guard('C03.R7', C14.r4_family, src, tier, 'C03.R7', ('rej',))
    fam_holds = len(rep.violations) == n_v and len(rep.errors) == n_e
    common.SoftErrors(rep, lambda: fam_holds, 'the interpreted family of version strings, which holds').guard('C03.R7', C14.r1_accepted_set, src, 'C03.R7', True)
    rep.need('C03.R9', 1)
    n_v, n_e = len(rep.violations), len(rep.errors)
    rep.guard('C03.R9', r9_compare_by_interpretation, src, tier)
    order_holds = len(rep.violations) == n_v and len(rep.errors) == n_e
    # (how the operators and version_compare are written: a second opinion behind the interpreted ones)
    soft1 = common.SoftAll(rep, lambda: order_holds, 'the interpreted operators and version_compare (C03.R9), which answer as the order of dpkg says')
    soft1.guard('C03.R1', r1_operators, src)
    # (the path-level readings of the comparison routines: exact for ALL versions when the routines are in their vocabulary)
    soft = common.SoftErrors(rep, lambda: order_holds, 'the interpreted comparisons of a family of versions (C03.R9), which agree with dpkg')
    soft.guard('C03.R2', r2_compare, src)
    soft.guard('C03.R3', r3_string_compare, src)
    soft.guard('C03.R3', r3b_order_chain, src)
    soft.guard('C03.R4', r4_part_compare, src)
    rep.guard('C03.R5', r5_hash, src)
    rep.need('C03.R6', 2)
    rep.guard('C03.R6', r6_unbounded_conversions, src)
    rep.need('C03.R8', 2)
    rep.guard('C03.R8', r8_live_components, src)

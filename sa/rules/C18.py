"""C18 -- ed-style patch scripts are applied exactly."""
import ast

from .. import rx, cfg, normalize
from ..core import AnalysisError, norm, walk_no_nested
from ..flow import Aff, Facts, cmp_to_constraints

META = {
    'design_ref': 'DESIGN.md §5 C18',
    'technique': 'regular-language equivalence for the command regex; path-sensitive affine-form analysis of patches_from_ed_script (command x range table with module constants, difference-bound entailment for slice validity); CFG must-pass-through for the text-block terminator in the function or its helper; tuple-order agreement with patch_lines; patch_lines: the mutating loop runs over the materialised script, and its range guard is interpreted on affine values (ValueError exactly when the range end exceeds the length); a reader written with a mode variable is normalised to the nested loop first; format-arity rule for the messages of refusals (a refusal arrives as the promised ValueError)',
    'level_text': 'Static decision: the command regex accepts exactly the ed command lines on ASCII input; for every command '
                  'letter and range form every path through the loop body either raises ValueError or yields the slice the ed '
                  'semantics prescribes, with 0 <= first <= last proved from the guards on the path; no path reaches the yield '
                  'of a text command after the input is exhausted; patch_lines assigns the triple positions in script order.',
    'level_note': 'trusted: CPython re parser, the automata engine, the small affine/difference-bound domain; contents of '
                  'patches (diff correctness) are not decided',
}

SITE = 'debian_support:patches_from_ed_script'
REF_CMD = r'[0-9]+(?:,[0-9]+)?[acd]\n?'


def r1_command_language(rep, src):
    r = src.regex('debian_support', '_patch_re')
    rb = src.regex('debian_support', '_patch_re_b')
    rep.saw_regex('debian_support:_patch_re')
    rep.saw_regex('debian_support:_patch_re_b')
    alpha = rx.alphabet('str')
    # over all of Unicode: a command whose digits are not ASCII digits (ARABIC-INDIC, fullwidth ...) is malformed, and int() would
    # convert them
    L = rx.regex_lang(r['pattern'], r['flags'], 'match', alpha=alpha)
    ref = rx.regex_lang(REF_CMD, 0, 'fullmatch', alpha=alpha)
    w = L.equiv_witness(ref)
    if w is not None:
        side, s = w
        rep.fail('C18.R1', 'debian_support:_patch_re', 'command language',
                 ('the command regex accepts the malformed command line %r' if side == 'left-only' else
                  'the command regex rejects the valid command line %r') % s, detail={'witness': s, 'side': side})
    else:
        rep.ok('C18.R1', 'debian_support:_patch_re', 'command language', 'L_match(_patch_re) = [0-9]+(,[0-9]+)?[acd]\\n? over all text')
    if isinstance(rb['pattern'], bytes) and rb['pattern'] == r['pattern'].encode('utf-8') and rb['flags'] == r['flags']:
        rep.ok('C18.R1', 'debian_support:_patch_re_b', 'bytes twin', 'same pattern, encoded', nontrivial=False)
    else:
        rep.fail('C18.R1', 'debian_support:_patch_re_b', 'bytes twin', 'the bytes command regex %r differs from the str one %r'
                 % (rb['pattern'], r['pattern']))
    # group roles: which group is a number, which the command letter
    tree = rx.parse(r['pattern'], r['flags'])
    ng = tree.state.groups - 1
    roles = []
    markers_all = [(k, g) for g in range(1, ng + 1) for k in ('open', 'close')]
    Rm = rx.regex_lang(r['pattern'], r['flags'], 'match', list(range(1, ng + 1)), markers_all, alpha)
    digits = rx.regex_lang('[0-9]+', 0, 'fullmatch', alpha=alpha)
    anyl = rx.regex_lang('(?s:.*)', 0, 'fullmatch', alpha=alpha)
    # (role inference only: which group is the number and which the command letter is read off the ASCII part of the language)
    ascii_only = rx.from_function(alpha, [], 0, lambda s, sym: 0 if (s == 0 and sym < 128) else 1, lambda s: s == 0)
    asc = rx.lift(ascii_only, markers_all)
    for g in range(1, ng + 1):
        part = rx.has_group(alpha, markers_all, g)
        optional = not Rm.minus(part).is_empty()
        is_num = Rm.intersect(asc).intersect(part).minus(rx.group_content(alpha, markers_all, g, digits)).is_empty()
        letters = ''
        if not is_num:
            for ch in 'abcdefghijklmnopqrstuvwxyz':
                one = rx.regex_lang(rx.literal(ch), 0, 'fullmatch', alpha=alpha)
                if not Rm.intersect(rx.group_content(alpha, markers_all, g, one)).is_empty():
                    letters += ch
            only = rx.regex_lang('[%s]' % letters, 0, 'fullmatch', alpha=alpha) if letters else None
            if only is None or not Rm.intersect(asc).intersect(part).minus(rx.group_content(alpha, markers_all, g, only)).is_empty():
                raise AnalysisError('group %d of _patch_re is neither a number nor a command letter' % g)
        roles.append(dict(group=g, optional=optional, kind='num' if is_num else 'cmd', letters=letters))
    return roles


class _Stop(Exception):
    pass


def ed_parser(src):
    """patches_from_ed_script; a reader written as one loop with a mode variable is read as the nested loop it abbreviates"""
    from ..core import Func
    f = src.func(SITE)
    node, inl = normalize.inline_helpers(f)
    if inl:
        # the reading of one command may live in a helper that returns (first, last, ...): put in place, results as single assignments
        node = normalize.split_tuple_assign(node)
        f = Func(f.module, node, f.qual, f.cls)
    alt = normalize.mode_variable_to_nested_loop(f.node)
    return f if alt is None else Func(f.module, alt, f.qual, f.cls)


def text_block_loops(fnode):
    """loops `for c in <stream>: ... <list>.append(c)` of a function"""
    out = []
    for lp in [n for n in walk_no_nested(fnode) if isinstance(n, ast.For) and isinstance(n.target, ast.Name)]:
        apps = [c for c in walk_no_nested(lp) if isinstance(c, ast.Call) and isinstance(c.func, ast.Attribute) and c.func.attr == 'append'
                and isinstance(c.func.value, ast.Name) and [norm(a) for a in c.args] == [lp.target.id]]
        if apps:
            out.append((lp, apps[0].func.value.id))
    return out


def next_block_loops(fnode):
    """loops `while True: v = next(<stream>[, default]) ... <list>.append(v)`: (loop, list name, line variable, producer assignment, default or None)"""
    out = []
    for lp in [n for n in walk_no_nested(fnode) if isinstance(n, ast.While) and isinstance(n.test, ast.Constant) and n.test.value is True]:
        prods = [s_ for s_ in lp.body if isinstance(s_, ast.Assign) and len(s_.targets) == 1 and isinstance(s_.targets[0], ast.Name)
                 and isinstance(s_.value, ast.Call) and norm(s_.value.func) == 'next' and 1 <= len(s_.value.args) <= 2]
        if len(prods) != 1:
            continue
        v = prods[0].targets[0].id
        apps = [c for c in walk_no_nested(lp) if isinstance(c, ast.Call) and isinstance(c.func, ast.Attribute) and c.func.attr == 'append'
                and isinstance(c.func.value, ast.Name) and [norm(a) for a in c.args] == [v]]
        if apps:
            out.append((lp, apps[0].func.value.id, v, prods[0], prods[0].value.args[1] if len(prods[0].value.args) == 2 else None))
    return out


def text_block_function(fn):
    """(loop, list name) when fn is a helper `def h(stream, ...)` whose single text-block loop iterates its first parameter and
    which returns the collected list"""
    ps = fn.params()
    lps = text_block_loops(fn.node)
    if len(lps) != 1 or not ps or norm(lps[0][0].iter) != ps[0]:
        return None
    lst = lps[0][1]
    if not any(isinstance(r, ast.Return) and r.value is not None and norm(r.value) == lst for r in ast.walk(fn.node)):
        return None
    return lps[0]


def _takewhile_block(e):
    """(predicate, stream expression) when e is [list(]itertools.takewhile(pred, stream)[)]"""
    while isinstance(e, ast.Call) and norm(e.func) in ('list', 'tuple') and len(e.args) == 1:
        e = e.args[0]
    if isinstance(e, ast.Call) and norm(e.func) in ('itertools.takewhile', 'takewhile') and len(e.args) == 2:
        return e.args[0], e.args[1]
    return None


class TableAnalysis:
    """path enumeration of the command loop body over (command letter, range present) on the affine interpreter: the parsed numbers
    are symbolic integers F (and L), the command letter is the concrete letter of the case; tables keyed by letter codes, flags
    and conditional expressions are evaluated, comparisons of F/L the path facts do not decide fork the path"""

    def __init__(self, f, loop, roles):
        self.f = f
        self.loop = loop
        self.roles = roles
        self.rows = []

    def run(self):
        from .. import affinterp
        body = self.loop.body
        idx = None
        for i, st in enumerate(body):
            if isinstance(st, ast.Assign) and isinstance(st.value, ast.Call) and isinstance(st.value.func, ast.Attribute) \
                    and st.value.func.attr in ('groups', 'group') and isinstance(st.targets[0], ast.Tuple):
                idx = i
                names = [norm(t) for t in st.targets[0].elts]
                if st.value.func.attr == 'group':
                    order = [a_.value for a_ in st.value.args if isinstance(a_, ast.Constant)]
                    if order != list(range(1, len(names) + 1)):
                        raise AnalysisError('%s: the groups are not read in order: %s' % (self.f.site, norm(st.value)))
        if idx is None:
            raise AnalysisError('%s: no `(..) = match.groups()` in the command loop' % self.f.site)
        if len(names) != len(self.roles):
            raise AnalysisError('%s: groups() unpacked into %d names, regex has %d groups' % (self.f.site, len(names), len(self.roles)))
        cmd_role = [r for r in self.roles if r['kind'] == 'cmd']
        if len(cmd_role) != 1:
            raise AnalysisError('expected exactly one command-letter group')
        rest = body[idx + 1:]
        opt = [r for r in self.roles if r['kind'] == 'num' and r['optional']]
        mand = [r for r in self.roles if r['kind'] == 'num' and not r['optional']]
        if len(opt) != 1 or len(mand) != 1:
            raise AnalysisError('expected one mandatory and one optional numeric group')
        ta = self
        mod = self.f.module

        class NumStr:
            def __init__(self, var):
                self.var = var

        class TextBlock:
            def __repr__(self):
                return '<the collected text>'
        TEXT = TextBlock()

        class StreamFlag:
            def __repr__(self):
                return '<how the text block ended>'
        FLAG = StreamFlag()

        def consts(name):
            v = mod.consts.get('', {}).get(name)
            if v is None or isinstance(v, bool):
                return None if v is None else (v,)

            def conv(x):
                if isinstance(x, dict):
                    return {k: conv(y) for k, y in x.items()}
                if isinstance(x, (list, tuple)):
                    return tuple(conv(y) for y in x)
                if isinstance(x, int) and not isinstance(x, bool):
                    return Aff.const(x)
                return x
            return (conv(v),)

        class It(affinterp.Interp):
            def ev(self, e, env, facts):
                if isinstance(e, ast.List) and not e.elts:
                    return [((), facts)]
                if _takewhile_block(e) is not None:
                    return [(TEXT, facts)]
                if isinstance(e, ast.Call) and isinstance(e.func, ast.Name):
                    fn = e.func.id
                    if fn in mod.funcs and text_block_function(mod.funcs[fn]) is not None:
                        return [(TEXT, facts)]       # a helper that collects the text block (its loop is analysed by C18.R3)
                    if fn == 'ord' and len(e.args) == 1:
                        out = []
                        for v, f2 in self.ev(e.args[0], env, facts):
                            if isinstance(v, (str, bytes)) and len(v) == 1:
                                out.append((Aff.const(ord(v)), f2))
                            else:
                                raise AnalysisError('ord() of %r' % (v,))
                        return out
                    if fn == 'int' and len(e.args) == 1:
                        out = []
                        for v, f2 in self.ev(e.args[0], env, facts):
                            if isinstance(v, NumStr):
                                out.append((Aff.var(v.var), f2))
                            elif isinstance(v, Aff):
                                out.append((v, f2))
                            else:
                                raise AnalysisError('int() of %r' % (v,))
                        return out
                return affinterp.Interp.ev(self, e, env, facts)

            def cmp(self, l, op, r, facts, node=None):
                # the command letter compares equal to its str and bytes spelling alike (the code uses ord() for that reason)
                if isinstance(l, str) and isinstance(r, bytes):
                    r = r.decode('latin-1')
                if isinstance(r, tuple) and isinstance(l, str):
                    r = tuple(x.decode('latin-1') if isinstance(x, bytes) else x for x in r)
                if (r is TEXT or l is TEXT) and isinstance(op, (ast.In, ast.NotIn, ast.Eq, ast.NotEq)):
                    return [(True, facts), (False, facts)]       # what the collected text contains is not part of the command table
                if isinstance(l, NumStr) or isinstance(r, NumStr):
                    if isinstance(op, (ast.Is, ast.IsNot)) and (l is None or r is None):
                        return [(isinstance(op, ast.IsNot), facts)]
                    raise AnalysisError('%s: a parsed number is compared as text: %s' % (ta.f.site, norm(node) if node is not None else ''))
                return affinterp.Interp.cmp(self, l, op, r, facts, node)

            def cond(self, t, env, facts):
                if isinstance(t, ast.Name) and isinstance(env.get(t.id), NumStr):
                    return [(True, facts)]           # a participating numeric group is a non-empty string
                return affinterp.Interp.cond(self, t, env, facts)

            def step(self, st, env, facts):
                if isinstance(st, ast.If) and any(isinstance(n_, ast.Name) and env.get(n_.id) is FLAG for n_ in ast.walk(st.test)):
                    # a test on how the text-block loop ended: both outcomes, decided by C18.R3
                    out = []
                    for branch in (st.body, st.orelse):
                        e2 = dict(env)
                        e2['$stream'] = True
                        out += self.run(list(branch), e2, facts)
                    return out
                if isinstance(st, ast.Continue):
                    return [affinterp.Outcome('continue', None, env, facts, st.lineno)]
                if isinstance(st, ast.Expr) and isinstance(st.value, ast.Yield):
                    out = []
                    for v, f2 in self.ev(st.value.value, env, facts):
                        ta.rows.append(dict(key=self.key, kind='yield', value=v, facts=f2, line=st.lineno))
                        out.append(affinterp.Outcome('fall', None, env, f2, None))
                    return out
                if isinstance(st, ast.While):
                    wrap = ast.Module(body=[st], type_ignores=[])
                    nb = next_block_loops(wrap)
                    if len(nb) != 1:
                        raise AnalysisError('%s: while loop outside the table vocabulary: %s' % (ta.f.site, norm(st)[:50]))
                    env = dict(env)
                    lst = nb[0][1]
                    if env.get(lst) != ():
                        raise AnalysisError('%s: text-block list %s is not initialised to []' % (ta.f.site, lst))
                    env[lst] = TEXT
                    for n_ in ast.walk(st):
                        if isinstance(n_, ast.Assign):
                            for t_ in n_.targets:
                                if isinstance(t_, ast.Name) and t_.id not in (lst, nb[0][2]):
                                    env[t_.id] = FLAG
                    # the raise statements of the loop (end of stream) belong to how the stream ends, not to the command
                    for n_ in ast.walk(st):
                        if isinstance(n_, ast.Raise):
                            exc = n_.exc.func if isinstance(n_.exc, ast.Call) else n_.exc
                            ta.rows.append(dict(key=self.key, kind='raise', exc=norm(exc) if exc is not None else '', facts=facts, line=n_.lineno, stream=True))
                    return [affinterp.Outcome('fall', None, env, facts, None)]
                if isinstance(st, ast.For):
                    env = dict(env)
                    tgt = [c for c in ast.walk(st) if isinstance(c, ast.Call) and isinstance(c.func, ast.Attribute) and c.func.attr == 'append']
                    if len(tgt) != 1 or not isinstance(tgt[0].func.value, ast.Name):
                        raise AnalysisError('%s: text-block loop has no single append' % ta.f.site)
                    lst = tgt[0].func.value.id
                    if env.get(lst) != ():
                        raise AnalysisError('%s: text-block list %s is not initialised to []' % (ta.f.site, lst))
                    if norm(tgt[0].args[0]) != norm(st.target):
                        raise AnalysisError('%s: the text-block loop does not collect its own lines' % ta.f.site)
                    env[lst] = TEXT
                    for n_ in ast.walk(st):
                        if isinstance(n_, ast.Assign):
                            for t_ in n_.targets:
                                if isinstance(t_, ast.Name) and t_.id != lst:
                                    env[t_.id] = FLAG
                    return [affinterp.Outcome('fall', None, env, facts, None)]
                outs = affinterp.Interp.step(self, st, env, facts)
                for o in outs:
                    if o.kind == 'raise':
                        ta.rows.append(dict(key=self.key, kind='raise', exc=o.value, facts=o.facts, line=o.line, stream=bool(o.env.get('$stream'))))
                return outs
        self.TEXT = TEXT
        # state carried from one command to the next: a local set to a constant in front of the loop and stored again while a command
        # is handled.  What it holds when a command arrives depends on the commands before it: its initial constant, or any integer.
        pre_ = self.f.node.body[:self.f.node.body.index(self.loop)]
        stored_in_rest = {n_.id for st_ in rest for n_ in ast.walk(st_) if isinstance(n_, ast.Name) and isinstance(n_.ctx, ast.Store)}
        carried = {}
        for st_ in pre_:
            if isinstance(st_, ast.Assign) and len(st_.targets) == 1 and isinstance(st_.targets[0], ast.Name) and isinstance(st_.value, ast.Constant) \
                    and st_.targets[0].id in stored_in_rest and st_.targets[0].id not in names:
                carried[st_.targets[0].id] = st_.value.value
        import itertools as _it
        carried_worlds = [dict(zip(carried, combo)) for combo in _it.product(*[[('init', v_), ('any', None)] for v_ in carried.values()])] or [{}]
        for letter in cmd_role[0]['letters']:
          for cw in carried_worlds:
            for has_range in (False, True):
                env = {}
                for cn_, (kind_, v_) in cw.items():
                    env[cn_] = (Aff.const(v_) if isinstance(v_, int) and not isinstance(v_, bool) else v_) if kind_ == 'init' else Aff.var('carried ' + cn_)
                for nm, role in zip(names, self.roles):
                    if role['kind'] == 'cmd':
                        env[nm] = letter
                    elif role['optional']:
                        env[nm] = NumStr('L') if has_range else None
                    else:
                        env[nm] = NumStr('F')
                if isinstance(self.loop.target, ast.Name):
                    env[self.loop.target.id] = affinterp.Opaque('the command line')       # (kept for messages, not part of the table)
                it = It(self.f.site, consts)
                it.key = (letter, has_range)
                # raise rows are recorded where the raise statement is executed; nested runs report them once
                seen = len(self.rows)
                it.run(rest, env, Facts([Aff.var('F'), Aff.var('L')] if has_range else [Aff.var('F')]))
                uniq, out_rows = set(), []
                for r in self.rows[seen:]:
                    k = (r['kind'], r['line'], repr(r['facts']), repr(r.get('value')))
                    if k not in uniq:
                        uniq.add(k)
                        out_rows.append(r)
                self.rows[seen:] = out_rows
        return self.rows


def expected(key):
    letter, has_range = key
    F, L = Aff.var('F'), Aff.var('L')
    if letter == 'a':
        return None if has_range else (F, F, 'text')
    if letter in ('c', 'd'):
        return (F - 1, L if has_range else F, 'text' if letter == 'c' else 'empty')
    return None


def r2_r4_table(rep, src, roles):
    f = ed_parser(src)
    rep.saw_func(f)
    loops = [s for s in f.node.body if isinstance(s, ast.For)]
    if len(loops) != 1:
        raise AnalysisError('%s: expected one command loop' % f.site)
    ta = TableAnalysis(f, loops[0], roles)
    rows = ta.run()
    rep.analysed['paths'] += len(rows)
    bykey = {}
    for r in rows:
        bykey.setdefault(r['key'], []).append(r)
    for key in sorted(bykey):
        letter, has_range = key
        exp = expected(key)
        label = "command '%s' %s" % (letter, 'with range f,l' if has_range else 'with one address f')
        valid = Facts([Aff.var('F') - (0 if letter == 'a' else 1)] + ([Aff.var('L') - Aff.var('F')] if has_range else []))
        yields = [r for r in bykey[key] if r['kind'] == 'yield']
        raises = [r for r in bykey[key] if r['kind'] == 'raise']
        for r in raises:
            if r['exc'] != 'ValueError':
                rep.fail('C18.R2', f.site, label + ': error type', 'a malformed command raises %s instead of ValueError' % r['exc'],
                         where='%s:%d' % (f.module.relpath, r['line']))
        if exp is None:
            if yields:
                rep.fail('C18.R2', f.site, label, 'the malformed command yields a patch %r instead of raising ValueError' % (yields[0]['value'],),
                         where='%s:%d' % (f.module.relpath, yields[0]['line']))
            else:
                rep.ok('C18.R2', f.site, label, 'always ValueError')
            continue
        # valid commands must not be rejected
        for r in raises:
            if r.get('stream'):
                continue      # raised because of how the text block ended, not because of the command
            both = Facts(r['facts'].items + valid.items)
            if not both.inconsistent():
                rep.fail('C18.R2', f.site, label + ': valid commands accepted',
                         'a valid command is rejected with %s under %r' % (r['exc'], r['facts']), where='%s:%d' % (f.module.relpath, r['line']))
        if not yields:
            rep.fail('C18.R2', f.site, label, 'no path yields a patch for this command', where=f.where)
            continue
        for r in yields:
            v = r['value']
            okshape = isinstance(v, tuple) and len(v) == 3 and isinstance(v[0], Aff) and isinstance(v[1], Aff)
            if not okshape:
                rep.fail('C18.R2', f.site, label, 'yield of %r is not a (first, last, lines) triple of integers' % (v,),
                         where='%s:%d' % (f.module.relpath, r['line']))
                continue
            a, b, third = v
            third_kind = 'empty' if third == () else 'text' if third is ta.TEXT else 'other'
            if (a, b) == (exp[0], exp[1]) and third_kind == exp[2]:
                rep.ok('C18.R2', f.site, label, 'yields (%r, %r, %s) under %r' % (a, b, third_kind, r['facts']))
            else:
                rep.fail('C18.R2', f.site, label, 'yields (%r, %r, %s) where ed semantics requires (%r, %r, %s)'
                         % (a, b, third_kind, exp[0], exp[1], exp[2]), detail={'facts': repr(r['facts'])},
                         where='%s:%d' % (f.module.relpath, r['line']))
            # R4: 0 <= a <= b under the path facts
            lower = r['facts'].entails(a)
            order = r['facts'].entails(b - a)
            invalid = [c for c in valid.items if not r['facts'].entails(c)]
            if invalid and lower and order:
                rep.fail('C18.R4', f.site, label + ': slice bounds',
                         'a command that violates %s (an invalid ed address) yields a patch on the path with %r instead of ValueError'
                         % (' / '.join('%r ≥ 0' % c for c in invalid), r['facts']), where='%s:%d' % (f.module.relpath, r['line']))
            elif lower and order:
                rep.ok('C18.R4', f.site, label + ': slice bounds', '0 ≤ %r ≤ %r follows from %r' % (a, b, r['facts']))
            else:
                what = []
                if not lower:
                    what.append('first index %r can be negative' % a)
                if not order:
                    what.append('last index %r can be smaller than the first %r' % (b, a))
                rep.fail('C18.R4', f.site, label + ': slice bounds',
                         '%s on the path with %r: an invalid command yields a slice instead of ValueError' % (' and '.join(what), r['facts']),
                         where='%s:%d' % (f.module.relpath, r['line']))
    if len(bykey) < 6:
        raise AnalysisError('%s: only %d command/range combinations analysed' % (f.site, len(bykey)))


def _flag_value(test, st):
    """truth of a test that reads only boolean flags with a known value, else None"""
    if isinstance(test, ast.Name):
        return st.get(test.id)
    if isinstance(test, ast.UnaryOp) and isinstance(test.op, ast.Not):
        v = _flag_value(test.operand, st)
        return None if v is None else not v
    if isinstance(test, ast.Compare) and len(test.ops) == 1 and isinstance(test.ops[0], (ast.Is, ast.IsNot, ast.Eq, ast.NotEq)) \
            and isinstance(test.comparators[0], ast.Constant) and isinstance(test.comparators[0].value, bool):
        v = _flag_value(test.left, st)
        if v is None:
            return None
        r = v == test.comparators[0].value
        return r if isinstance(test.ops[0], (ast.Is, ast.Eq)) else not r
    if isinstance(test, ast.BoolOp):
        vs = [_flag_value(v, st) for v in test.values]
        if isinstance(test.op, ast.And):
            return False if any(v is False for v in vs) else True if all(v is True for v in vs) else None
        return True if any(v is True for v in vs) else False if all(v is False for v in vs) else None
    return None


def _line_test(test, var, value, const_set):
    """truth of a membership / equality test of the line variable when the line is the constant `value`"""
    if isinstance(test, ast.UnaryOp) and isinstance(test.op, ast.Not):
        v = _line_test(test.operand, var, value, const_set)
        return None if v is None else not v
    if isinstance(test, ast.Name) and test.id == var:
        return bool(value)
    if isinstance(test, ast.Compare) and len(test.ops) == 1 and norm(test.left) == var and isinstance(test.ops[0], (ast.In, ast.NotIn, ast.Eq, ast.NotEq)):
        vals = const_set(test.comparators[0])
        if vals is None:
            return None
        r = value in vals
        return r if isinstance(test.ops[0], (ast.In, ast.Eq)) else not r
    return None


def failing_exit_reaches(g, inner, t, success_nodes, goal_ids, exhaust=None):
    """path search over the CFG that tracks (a) how the text-block loop was left -- through the branch of the "." line or any
    other way (stream exhausted, another break) -- and (b) the values of local boolean flags assigned constants, so that
    `terminated = True ... if not terminated: raise` is followed like the for/else form.  Returns a goal node reachable
    after an unsuccessful end of the loop, or None."""
    it_ids = [p for p, _ in g.pred[t.id] if getattr(inner, 'iter', None) is not None and g.nodes[p].ast is inner.iter]
    inside = {id(n_) for n_ in ast.walk(inner)}
    seen = set()
    stack = [(g.entry.id, None, frozenset())]
    while stack:
        key = stack.pop()
        if key in seen:
            continue
        seen.add(key)
        n, tag, st = key
        node = g.nodes[n]
        if n in goal_ids and tag == 'fail':
            return node
        d = dict(st)
        if exhaust is not None and node.kind == 'stmt' and node.ast is exhaust[1]:
            # the producer: either a line arrives, or the stream is exhausted and next() hands back its default
            if exhaust[2] != ('raises',):
                d2 = dict(d)
                d2['$line'] = exhaust[2]
                d2['$exhausted'] = True
                for dst, lab in g.succ[n]:
                    stack.append((dst, tag, frozenset(d2.items())))
            d.pop('$line', None)
            d.pop('$exhausted', None)
            for dst, lab in g.succ[n]:
                stack.append((dst, tag, frozenset(d.items())))
            continue
        if node.kind == 'stmt' and isinstance(node.ast, (ast.Assign, ast.AugAssign, ast.AnnAssign)):
            tg = node.ast.targets if isinstance(node.ast, ast.Assign) else [node.ast.target]
            for x in tg:
                for nm in [y.id for y in ast.walk(x) if isinstance(y, ast.Name)]:
                    v = node.ast.value if isinstance(node.ast, ast.Assign) and len(tg) == 1 and isinstance(x, ast.Name) else None
                    if isinstance(v, ast.Constant) and isinstance(v.value, bool):
                        d[nm] = v.value
                    else:
                        d.pop(nm, None)
        if node.kind in ('break', 'return') and node.ast is not None and id(node.ast) in inside and tag is None:
            tag = 'ok' if id(node.ast) in success_nodes and not d.get('$exhausted') else 'fail'
        for dst, lab in g.succ[n]:
            t2 = tag
            if n == t.id and lab == 'exhausted':
                t2 = 'fail'
            if dst == t.id and n in it_ids:
                t2 = None
            if node.kind == 'test' and lab in (True, False):
                v = _flag_value(node.ast, d)
                if v is None and exhaust is not None and '$line' in d:
                    v = _line_test(node.ast, exhaust[0], d['$line'], exhaust[3])
                if v is not None and v != lab:
                    continue
            if exhaust is not None and d.get('$exhausted') and dst == t.id and n != t.id and node.kind != 'stmt':
                pass
            stack.append((dst, t2, frozenset(d.items())))
    return None


def r3_terminator(rep, src):
    """the loop that collects the text of an a/c command -- in patches_from_ed_script itself or in a helper it calls -- ends
    successfully only at the "." line; when the stream is exhausted (or yields the empty string) no patch is produced"""
    f = ed_parser(src)
    cands = []
    for lp, lst in text_block_loops(f.node):
        # the text-block loop is nested in the command loop
        if any(isinstance(a_, ast.For) for a_ in ancestors_of(lp, f.node)):
            cands.append((f, lp, lst, 'inline'))
    for c in ast.walk(f.node):
        if isinstance(c, ast.Call) and isinstance(c.func, ast.Name) and c.func.id in f.module.funcs:
            h = f.module.funcs[c.func.id]
            tb = text_block_function(h)
            if tb is not None:
                rep.saw_func(h)
                cands.append((h, tb[0], tb[1], 'helper'))
    nexts = {}
    for lp, lst, v_, prod, default in next_block_loops(f.node):
        if any(isinstance(a_, ast.For) for a_ in ancestors_of(lp, f.node)):
            cands.append((f, lp, lst, 'inline'))
            nexts[id(lp)] = (v_, prod, default)
    if not cands:
        # itertools.takewhile on the command stream stops at the "." line and at the end of the input alike, and the caller cannot
        # tell which: an unterminated block is accepted
        outer_iters = {norm(n_.iter) for n_ in ast.walk(f.node) if isinstance(n_, ast.For)}
        for n_ in ast.walk(f.node):
            tw = _takewhile_block(n_) if isinstance(n_, ast.Call) else None
            if tw is not None and norm(tw[1]) in outer_iters:
                rep.fail('C18.R3', f.site, 'text block must end with "."', 'the text of an a/c command is collected with takewhile() on the command stream: it ends at the "." '
                         'line and at the end of the input alike, so a script that stops inside a text block yields a patch instead of ValueError',
                         where='%s:%d' % (f.module.relpath, n_.lineno))
                return
    if len(cands) != 1:
        raise AnalysisError('%s: expected one text-block loop (found %d)' % (f.site, len(cands)))
    fn, inner, lst, how = cands[0]
    g = cfg.CFG(fn.node)
    t = g.node_of[inner]
    if how == 'inline':
        outer = [a_ for a_ in ancestors_of(inner, fn.node) if isinstance(a_, ast.For)][-1]
        avoid = [g.node_of[outer].id, t.id]
        goals = [n for n in g.stmts() if n.kind == 'stmt' and isinstance(n.ast, ast.Expr) and isinstance(n.ast.value, ast.Yield) and n.lineno > inner.lineno]
    else:
        avoid = [t.id]
        goals = [n for n in g.nodes if n.kind == 'return' and n.ast is not None and n.ast.value is not None and norm(n.ast.value) == lst]
    if not goals:
        raise AnalysisError('%s: the collected text is never handed on' % fn.site)
    nx = nexts.get(id(inner))
    lv = nx[0] if nx is not None else inner.target.id
    consts = fn.module.consts.get('', {})

    def const_set(e):
        if isinstance(e, (ast.Tuple, ast.List, ast.Set)):
            try:
                return set(ast.literal_eval(e))
            except ValueError:
                return None
        if isinstance(e, ast.Constant):
            return {e.value}
        if isinstance(e, ast.Name) and isinstance(consts.get(e.id), (tuple, list, frozenset, str, bytes)):
            v = consts[e.id]
            return set(v) if isinstance(v, (tuple, list, frozenset)) else {v}
        return None

    def dot_test(test):
        """+1: the test holds for the "." line (In/Eq), -1: it fails for it (NotIn/NotEq), 0: not a terminator test"""
        tt = test.test
        if not (isinstance(tt, ast.Compare) and len(tt.ops) == 1 and norm(tt.left) == lv and isinstance(tt.ops[0], (ast.In, ast.Eq, ast.NotIn, ast.NotEq))):
            return 0, None
        vals = const_set(tt.comparators[0])
        if vals is None or not any(isinstance(v, (str, bytes)) and v.strip() in ('.', b'.') for v in vals):
            return 0, None
        return (1 if isinstance(tt.ops[0], (ast.In, ast.Eq)) else -1), vals
    # how each way out of the loop is classified: leaving from the branch taken for the "." line is the successful end
    success_nodes = set()
    for test in [n for n in walk_no_nested(inner) if isinstance(n, ast.If)]:
        pol, _ = dot_test(test)
        branch = test.body if pol > 0 else test.orelse if pol < 0 else []
        for st_ in branch:
            for n_ in ast.walk(st_):
                if isinstance(n_, (ast.Break, ast.Return)):
                    success_nodes.add(id(n_))
    exhaust = None
    if nx is not None:
        if nx[2] is None:
            dv = ('raises',)          # next() without a default: StopIteration ends the generator with an error, never with a patch
        else:
            dvs = const_set(nx[2])
            if dvs is None or len(dvs) != 1:
                raise AnalysisError('%s: the default of next() is not a constant' % fn.site)
            dv = next(iter(dvs))
        exhaust = (nx[0], nx[1], dv, const_set)
    bad = failing_exit_reaches(g, inner, t, success_nodes, {y.id for y in goals}, exhaust)
    if bad is not None:
        rep.fail('C18.R3', fn.site, 'text block must end with "."',
                 'when the input ends inside the text of an a/c command (or the loop is left other than at the "." line) control reaches `%s`: '
                 'an unterminated block produces a patch instead of ValueError' % norm(bad.ast)[:60], where='%s:%d' % (fn.module.relpath, inner.lineno))
    else:
        rep.ok('C18.R3', fn.site, 'text block must end with "."', 'no way out of the loop other than the "." branch reaches the %s (boolean flags followed)'
               % ('yield' if how == 'inline' else 'return of the text'))
    # the terminator: the test that leaves the loop successfully compares the line with exactly the "." line (str and bytes)
    okterm = False
    why = 'no test of the line against the "." terminator leaves the loop'
    for test in [n for n in walk_no_nested(inner) if isinstance(n, ast.If)]:
        pol, vals = dot_test(test)
        if pol == 0:
            continue
        branch = test.body if pol > 0 else test.orelse
        leaves_ok = any(isinstance(b_, ast.Break) for b_ in branch) if how == 'inline' else \
            any(isinstance(b_, ast.Return) and b_.value is not None and norm(b_.value) == lst for b_ in branch)
        if not leaves_ok:
            why = 'the "." test does not end the block'
            continue
        if vals <= {'.\n', '.', b'.\n', b'.'} and {'.\n', b'.\n'} <= vals:
            okterm = True
        else:
            why = 'the block is ended by %r, not by exactly the "." line' % sorted(map(repr, vals))
    for c in ast.walk(inner):
        # a relaxed comparison (strip / startswith) would end the block at lines that merely look like the terminator
        if isinstance(c, ast.Call) and isinstance(c.func, ast.Attribute) and c.func.attr in ('strip', 'rstrip', 'lstrip', 'startswith') and norm(c.func.value) == lv:
            okterm = False
            why = 'the line is compared after %s(): text lines such as ". " or ".\\r\\n" end the block early' % c.func.attr
    if okterm:
        rep.ok('C18.R3', fn.site, 'terminator literal', "'.' line for str and bytes", nontrivial=False)
    else:
        rep.fail('C18.R3', fn.site, 'terminator literal', 'the text block is not ended by exactly the "." line (str and bytes): ' + why, where=fn.where)


def ancestors_of(node, root):
    """chain of ancestors of node inside root (outermost last)"""
    par = {}
    for p_ in ast.walk(root):
        for c_ in ast.iter_child_nodes(p_):
            par[id(c_)] = p_
    out = []
    cur = node
    while id(cur) in par:
        cur = par[id(cur)]
        out.append(cur)
    return out


def r5_application(rep, src, scripts_hold=False):
    f = src.func('debian_support:patch_lines')
    rep.saw_func(f)
    from ..core import Func, set_parents
    f_node, _inl = normalize.inline_helpers(f)        # the replacement of one range may sit in a private helper
    set_parents(f_node)
    f = Func(f.module, f_node, f.qual, f.cls)
    params = f.params()
    # the list the commands are applied to: the caller's list itself, or a copy of it that replaces the caller's content at the end
    caller_list = params[0]
    work = caller_list
    for st in f.node.body:
        if isinstance(st, ast.Assign) and len(st.targets) == 1 and isinstance(st.targets[0], ast.Name) \
                and norm(st.value) in ('list(%s)' % caller_list, '%s[:]' % caller_list, '%s.copy()' % caller_list, 'copy.copy(%s)' % caller_list):
            work = st.targets[0].id
    params = [work] + list(params[1:])
    loops = [s for s in f.node.body if isinstance(s, ast.For)]
    if len(loops) > 1:
        # several passes over the script: the one that changes the lines is judged (a pass that only inspects the commands decides
        # nothing about the list as it is when a command is applied)
        loops = [s for s in loops if any(isinstance(t_, ast.Subscript) and norm(t_.value) == params[0] and isinstance(t_.ctx, ast.Store) for t_ in ast.walk(s))
                 or any(isinstance(c_, ast.Call) and isinstance(c_.func, ast.Attribute) and norm(c_.func.value) == params[0] for c_ in ast.walk(s))]
    if len(loops) != 1:
        raise AnalysisError('%s: expected one loop that changes the lines' % f.site)
    lp = loops[0]
    if work != caller_list:
        back = [st for st in f.node.body[f.node.body.index(lp) + 1:] if isinstance(st, ast.Assign) and norm(st) in ('%s[:] = %s' % (caller_list, work),)]
        if back:
            rep.ok('C18.R5', f.site, 'the patched copy replaces the content of the list', norm(back[0]), nontrivial=False)
        else:
            rep.fail('C18.R5', f.site, 'the patched copy replaces the content of the list', 'the commands are applied to the copy `%s`, which is never written back into `%s` '
                     '(the function updates the list in place)' % (work, caller_list), where=f.where)
    # a refused script leaves the list as it was: no raise is reachable once the caller's list has been changed (a range check inside
    # the loop that changes the list in place raises after the earlier commands have been applied)
    g_ = cfg.CFG(f.node)
    changers = [n_ for n_ in g_.nodes if n_.ast is not None and n_.kind == 'stmt' and (
        (isinstance(n_.ast, (ast.Assign, ast.AugAssign, ast.Delete)) and any(
            isinstance(t_, ast.Subscript) and norm(t_.value) == caller_list and isinstance(t_.ctx, (ast.Store, ast.Del)) for t_ in ast.walk(n_.ast)))
        or (isinstance(n_.ast, ast.Expr) and isinstance(n_.ast.value, ast.Call) and isinstance(n_.ast.value.func, ast.Attribute)
            and norm(n_.ast.value.func.value) == caller_list and n_.ast.value.func.attr in ('append', 'extend', 'insert', 'pop', 'remove', 'clear', 'sort', 'reverse')))]
    raises = [n_ for n_ in g_.nodes if n_.ast is not None and isinstance(n_.ast, ast.Raise)]
    if not changers:
        raise AnalysisError('%s: no statement changes the list `%s`' % (f.site, caller_list))
    late = [(c_, r_) for c_ in changers for r_ in raises if g_.exists_path(c_.id, r_.id)]
    if late:
        c_, r_ = late[0]
        rep.fail('C18.R5', f.site, 'a refused script leaves the list unchanged', 'the raise at line %d is reachable after `%s` (line %d) has changed the caller\'s list: for a script whose '
                 'later command is refused (an address beyond the end: "3a / y / . / 9d" on three lines) ValueError is raised with the earlier commands already applied'
                 % (r_.lineno, norm(c_.ast)[:40], c_.lineno), where='%s:%d' % (f.module.relpath, r_.lineno))
    else:
        rep.ok('C18.R5', f.site, 'a refused script leaves the list unchanged', '%d raise statement(s), none reachable after the first change of `%s`' % (len(raises), caller_list))
    why = 'the patches are not applied one by one in script order'
    # what the loop iterates over: the parameter itself, or the parameter materialised (list(p) / tuple(p), directly or through a local)
    pre = f.node.body[:f.node.body.index(lp)]
    mat = {}
    for st in pre:
        if isinstance(st, ast.Assign) and len(st.targets) == 1 and isinstance(st.targets[0], ast.Name) and isinstance(st.value, ast.Call) \
                and norm(st.value.func) in ('list', 'tuple') and [norm(a_) for a_ in st.value.args] == [params[1]]:
            mat[st.targets[0].id] = True
    it_ = lp.iter
    direct = isinstance(it_, ast.Name) and it_.id == params[1] and params[1] not in mat
    materialised = (isinstance(it_, ast.Name) and mat.get(it_.id)) or (isinstance(it_, ast.Call) and norm(it_.func) in ('list', 'tuple')
                                                                         and [norm(a_) for a_ in it_.args] == [params[1]])
    ok = (direct or materialised) and not lp.orelse
    if ok:
        if materialised:
            rep.ok('C18.R5', f.site, 'the script is read completely before the first line is changed', 'the loop runs over list(%s)' % params[1])
        else:
            rep.fail('C18.R5', f.site, 'the script is read completely before the first line is changed', 'the loop that changes `%s` in place pulls the patches one by one from `%s`: '
                     'with the lazy parser a malformed command or an unterminated text block that is not the first command raises ValueError after the earlier commands have '
                     'already been applied -- the caller keeps a half-patched list' % (params[0], params[1]), where=f.where)
    if ok:
        # element k of the current patch triple, followed through unpacking / indexing of the loop variable
        env = {}

        def bind(target, value):
            if isinstance(target, ast.Name):
                env[target.id] = value
            elif isinstance(target, (ast.Tuple, ast.List)) and value == ('patch',) and len(target.elts) == 3:
                for k, t_ in enumerate(target.elts):
                    bind(t_, ('elem', k))
            else:
                raise AnalysisError('%s: binding outside the modelled forms: %s' % (f.site, norm(target)))

        def val(e):
            if isinstance(e, ast.Name):
                return env.get(e.id, ('other', e.id))
            if isinstance(e, ast.Subscript) and val(e.value) == ('patch',) and isinstance(e.slice, ast.Constant) and e.slice.value in (0, 1, 2):
                return ('elem', e.slice.value)
            if isinstance(e, ast.Call) and isinstance(e.func, ast.Name) and e.func.id == 'slice' and len(e.args) == 2 and not e.keywords:
                return ('slice', val(e.args[0]), val(e.args[1]))
            if isinstance(e, ast.Slice) and e.step is None and e.lower is not None and e.upper is not None:
                return ('slice', val(e.lower), val(e.upper))
            return ('other', norm(e))
        bind(lp.target, ('patch',))
        stores = []
        guards = []
        for st in lp.body:
            if isinstance(st, ast.Expr) and isinstance(st.value, ast.Constant):
                continue
            if isinstance(st, ast.If) and not st.orelse and len(st.body) == 1 and isinstance(st.body[0], ast.Raise) and not stores:
                # a range check in front of the store
                guards.append((st.test, norm(st.body[0].exc.func) if isinstance(st.body[0].exc, ast.Call) else norm(st.body[0].exc) if st.body[0].exc is not None else ''))
                continue
            if isinstance(st, ast.Assign) and len(st.targets) == 1 and isinstance(st.targets[0], (ast.Name, ast.Tuple, ast.List)):
                bind(st.targets[0], val(st.value))
            elif isinstance(st, ast.Assign) and len(st.targets) == 1 and isinstance(st.targets[0], ast.Subscript):
                stores.append((val(st.targets[0].value), val(st.targets[0].slice), val(st.value)))
            else:
                stores.append(('other', norm(st)))
        want = (('other', params[0]), ('slice', ('elem', 0), ('elem', 1)), ('elem', 2))
        ok = stores == [want]
        why = 'the slice assignment does not use (first, last, lines) in the positions the producer yields: %r' % (stores,)
    if ok:
        rep.ok('C18.R5', f.site, 'application', 'for each patch p in order: lines[p[0]:p[1]] = p[2]')
        # the addressed range lies inside the list: a slice assignment beyond the end is silently clamped by Python, so a command whose
        # number was corrupted to point past the last line would be "applied" (as an append, a truncation or not at all) instead of refused
        # the guards in front of the store, interpreted on affine values (first = F, last = L, len(lines) = N with 0 <= F <= L): they raise
        # ValueError exactly when L > N -- not for fewer ranges (clamping) and not for more (a valid command refused)
        from .. import affinterp as _AI
        F_, L_, N_ = Aff.var('first'), Aff.var('last'), Aff.var('len')
        names = {}
        for nm_, v_ in env.items():
            if v_ == ('elem', 0):
                names[nm_] = F_
            elif v_ == ('elem', 1):
                names[nm_] = L_
        lp_var = lp.target.id if isinstance(lp.target, ast.Name) else None

        def hook(it_, call, env_, facts_):
            if norm(call.func) == 'len' and len(call.args) == 1 and norm(call.args[0]) == params[0]:
                return [(N_, facts_)]
            return None
        it_ = _AI.Interp(f.site, call_hook=hook)
        env0 = dict(names)
        if lp_var:
            env0[lp_var] = (F_, L_, _AI.Opaque('text'))
        guard_stmts = [st for st in lp.body if isinstance(st, ast.If) and not st.orelse and len(st.body) == 1 and isinstance(st.body[0], ast.Raise)]
        binds = [st for st in lp.body if isinstance(st, ast.Assign) and len(st.targets) == 1 and isinstance(st.targets[0], (ast.Name, ast.Tuple, ast.List))]
        verdict = None
        try:
            outs = it_.run(binds + guard_stmts, env0, Facts([F_, L_ - F_, N_]))
        except AnalysisError as e_:
            outs = None
            verdict = 'the range check is outside the affine vocabulary (%s)' % e_
        if outs is not None:
            for o in outs:
                if o.kind == 'raise':
                    if 'ValueError' not in str(o.value):
                        verdict = verdict or 'the range check raises %s, not ValueError' % o.value
                    elif not o.facts.entails(L_ - N_ - 1):
                        verdict = verdict or 'a command whose range lies inside the list is refused (ValueError under %r): a valid script is rejected' % o.facts
                elif not o.facts.entails(N_ - L_):
                    verdict = verdict or ('the slice assignment is reached with the range end possibly beyond len(%s) (%r): a command with an address beyond the last line ("20d", "2,9d", '
                                          '"91a" on a three-line file) is clamped by the slice and produces a result instead of ValueError' % (params[0], o.facts))
        if verdict is None:
            rep.ok('C18.R5', f.site, 'the addressed range lies inside the list', 'ValueError exactly when last > len(%s)' % params[0])
        else:
            rep.fail('C18.R5', f.site, 'the addressed range lies inside the list', verdict, where=f.where)
    else:
        rep.fail('C18.R5', f.site, 'application', why, where=f.where)
    # the regex is chosen by the type of the line (helpers inlined): the value matched against a bytes line is the regex whose
    # pattern is bytes
    g = ed_parser(src)
    gnode, _ = normalize.inline_helpers(g, depth=2)
    mod = g.module

    def regex_kind(e):
        if isinstance(e, ast.Name):
            try:
                r = src.regex(mod.name, e.id)
            except (AnalysisError, KeyError):
                return None
            return 'bytes' if isinstance(r['pattern'], bytes) else 'str'
        return None

    def isinstance_kind(t):
        """('bytes'|'str', polarity) for isinstance(x, bytes|str) and its negation"""
        pol = True
        while isinstance(t, ast.UnaryOp) and isinstance(t.op, ast.Not):
            t, pol = t.operand, not pol
        if isinstance(t, ast.Call) and norm(t.func) == 'isinstance' and len(t.args) == 2 and norm(t.args[1]) in ('bytes', 'str'):
            return norm(t.args[1]), pol
        return None
    sels = []
    for n in ast.walk(gnode):
        if isinstance(n, ast.IfExp) and isinstance_kind(n.test):
            sels.append((isinstance_kind(n.test), regex_kind(n.body), regex_kind(n.orelse), norm(n)))
        if isinstance(n, ast.If) and isinstance_kind(n.test) and n.orelse:
            va = [s.value for s in n.body if isinstance(s, ast.Assign)]
            vb = [s.value for s in n.orelse if isinstance(s, ast.Assign)]
            if len(va) == 1 and len(vb) == 1 and regex_kind(va[0]) and regex_kind(vb[0]):
                sels.append((isinstance_kind(n.test), regex_kind(va[0]), regex_kind(vb[0]), norm(n.test)))
    good = []
    for (kind, pol), ka, kb, txt in sels:
        if ka is None or kb is None:
            continue
        other = 'str' if kind == 'bytes' else 'bytes'
        exp = (kind, other) if pol else (other, kind)
        if (ka, kb) == exp:
            good.append(txt)
        else:
            good = []
            break
    if good:
        rep.ok('C18.R5', g.site, 'regex selection by input type', good[0][:80], nontrivial=False)
    elif scripts_hold:
        # (the pattern is chosen some other way: the interpreted scripts include bytes and str scripts, and they are read as written)
        rep.info.append('C18.R5 %s: no `isinstance(line, bytes)` selection between the two command patterns found; decided on the interpreted str and bytes scripts' % g.site)
    else:
        rep.fail('C18.R5', g.site, 'regex selection by input type', 'bytes lines are not matched with the bytes regex (or vice versa)', where=g.where)
    # no line in command position is skipped: every path from the top of the command loop either reaches the parsed command or raises
    from .. import paths
    cloops = [s_ for s_ in gnode.body if isinstance(s_, ast.For)]
    if len(cloops) == 1:
        cbody = cloops[0].body
        cut = next((i for i, s_ in enumerate(cbody) if isinstance(s_, ast.Assign) and isinstance(s_.value, ast.Call) and isinstance(s_.value.func, ast.Attribute)
                    and s_.value.func.attr in ('groups', 'group', 'groupdict')), None)
        if cut is None:
            raise AnalysisError('%s: the command loop does not read the groups of a match' % g.site)
        pre_paths = paths.Enumerator(paths.Folder(paths.module_consts(g.module, ''))).run(cbody[:cut], [paths.Path()])
        skipped = [p_ for p_ in pre_paths if p_.outcome is not None and p_.outcome[0] in ('continue', 'break', 'return')]
        if skipped:
            rep.fail('C18.R5', g.site, 'no script line is skipped', 'on the path [%s] a line in command position is passed over without a patch and without ValueError: '
                     'a command damaged into such a line is silently dropped and the remaining script is applied' % skipped[0].describe()[:120],
                     where='%s:%d' % (g.module.relpath, skipped[0].outcome[2].lineno))
        else:
            rep.ok('C18.R5', g.site, 'no script line is skipped', '%d path(s) to the parsed command, the others raise' % len([p_ for p_ in pre_paths if p_.outcome is None]))
    # the no-match guard raises ValueError
    mvars = {s.targets[0].id for s in ast.walk(gnode) if isinstance(s, ast.Assign) and isinstance(s.targets[0], ast.Name) and isinstance(s.value, ast.Call)
             and isinstance(s.value.func, ast.Attribute) and s.value.func.attr in ('match', 'fullmatch')}

    def raises_value_error(stmts):
        return any(isinstance(s, ast.Raise) and 'ValueError' in norm(s) for s in stmts)
    nm = []
    for n in walk_no_nested(gnode):
        if not isinstance(n, ast.If):
            continue
        t = norm(n.test)
        for mv in mvars:
            if t in ('%s is None' % mv, 'not %s' % mv) and raises_value_error(n.body):
                nm.append(n)
            if t in ('%s is not None' % mv, mv) and raises_value_error(n.orelse):
                nm.append(n)
    if nm:
        rep.ok('C18.R5', g.site, 'unparsable command line', 'raises ValueError', nontrivial=False)
    elif scripts_hold:
        rep.info.append('C18.R5 %s: no `if <match> is None: raise ValueError` guard found in the reader itself; decided on the interpreted malformed scripts' % g.site)
    else:
        rep.fail('C18.R5', g.site, 'unparsable command line', 'a line that is not a command does not raise ValueError', where=g.where)


def r6_scripts_by_interpretation(rep, src):
    """patches_from_ed_script interpreted (sa.heap, decided text, CPython's regex engine for the command pattern) on a table of scripts:
    every command form (a / c / d, single address and range), text blocks that end at '.' with and without line end, text that
    looks like a terminator ('..'), an empty block, several commands on one shared stream, str and bytes -- and every way a script
    can be malformed (unknown command, reversed range, range with `a`, line 0 for c / d, a block that runs into the end of the
    stream or into the empty element that marks it).  Decides the same clauses as C18.R2 / R3 on these scripts, however the
    reader is written (nested loops over one iterator, next() with a sentinel, takewhile with a predicate that remembers where it
    stopped).  -> number of scripts whose outcome is as the statement says"""
    from .. import heap as H
    mod = src.mod('debian_support')
    f = src.func(SITE)
    rep.saw_func(f)
    E = 'ValueError'
    table = [
        (['1a\n', 'x\n', '.\n'], [(1, 1, ['x\n'])]), (['0a\n', 'x\n', 'y\n', '.\n'], [(0, 0, ['x\n', 'y\n'])]),
        (['2c\n', 'x\n', '.\n'], [(1, 2, ['x\n'])]), (['2,4c\n', 'x\n', '.\n'], [(1, 4, ['x\n'])]), (['3d\n'], [(2, 3, [])]), (['3,5d\n'], [(2, 5, [])]),
        (['1c\n', '.\n'], [(0, 1, [])]), (['1a\n', '..\n', '.\n'], [(1, 1, ['..\n'])]), (['1a\n', 'x\n', '.'], [(1, 1, ['x\n'])]), (['1a', 'x', '.'], [(1, 1, ['x'])]),
        (['5a\n', 'x\n', '.\n', '2,3d\n', '1c\n', 'y\n', 'z\n', '.\n'], [(5, 5, ['x\n']), (1, 3, []), (0, 1, ['y\n', 'z\n'])]),
        ([b'1a\n', b'x\n', b'.\n', b'2d\n'], [(1, 1, [b'x\n']), (1, 2, [])]), ([], []),
        (['1a\n', '3d\n', '.\n'], [(1, 1, ['3d\n'])]),
        (['1a\n', 'x\n'], E), (['1a\n', 'x\n', ''], E), (['1c\n'], E), ([b'1a\n', b'x\n', b''], E), (['1a\n'], E),
        (['1x\n'], E), (['a\n'], E), (['0d\n'], E), (['0c\n', 'x\n', '.\n'], E), (['3,2d\n'], E), (['1,2a\n', 'x\n', '.\n'], E), (['1 d\n'], E), (['-1d\n'], E),
        (['1d\n', 'x\n'], E), (['٣d\n'], E),
    ]
    good = 0
    for script, want in table:
        heap = H.Heap(mod)
        heap.native_regex = True
        it = H.Interp(heap)
        try:
            r = it.call(H.Closure(f.node, {}, None, None), [heap.new_list(list(script))])
            got = []
            for p_ in it.seq(r):
                a_, b_, c_ = (p_ if isinstance(p_, tuple) else tuple(it.seq(p_)))
                got.append((a_, b_, [x_.concrete() if hasattr(x_, 'concrete') else x_ for x_ in it.seq(c_)]))
        except H.Raised as x:
            got = x.exc.split('.')[-1]
        rule = 'C18.R3' if (want == E and script and script[0][-2:-1] in ('a', 'c', b'a', b'c') and len(script) > 0 and not any(s_ in ('.', '.\n', b'.', b'.\n') for s_ in script)) \
            or (want != E and any(s_ in ('.', '.\n', b'.', b'.\n') for s_ in script)) else 'C18.R2'
        what = 'script %r' % (script,)
        if got == want:
            good += 1
            rep.ok(rule, f.site, what, 'ValueError' if want == E else 'patches %r' % (want,), nontrivial=False)
        elif want == E:
            rep.fail(rule, f.site, what, 'this script is malformed and must be refused with ValueError; it %s' % (
                'raises %s' % got if isinstance(got, str) else 'gives the patches %r' % (got,)), where=f.where)
        else:
            rep.fail(rule, f.site, what, 'ed reads this script as the patches %r; the reader %s' % (want, 'raises %s' % got if isinstance(got, str) else 'gives %r' % (got,)), where=f.where)
    return good


def check(src, rep, tier):
    rep.explanation = ('C18: (R1) DFA of the command regex on all text equals [0-9]+(,[0-9]+)?[acd]\\n?, bytes twin derived from the '
                       'same text; (R2) every path of the command loop is enumerated per command letter × range form with first/last as '
                       'affine forms over the parsed numbers: yields must equal the ed table, malformed forms must raise ValueError, valid '
                       'forms must not be rejected; (R4) 0 ≤ first ≤ last is proved from the path guards by difference-bound entailment; '
                       '(R3) the exhaustion edge of the text loop cannot reach the yield; (R5) patch_lines applies triples in order.')
    rep.not_decided = ['that the patches of a real diff transform old into new (content of the script)', 'diff -e interoperability']
    rep.need('C18.R1', 2)
    rep.need('C18.R2', 6)
    rep.need('C18.R4', 0)
    rep.need('C18.R3', 2)
    rep.need('C18.R5', 5)
    roles = rep.guard('C18.R1', r1_command_language, src)
    interpreted = rep.guard('C18.R2', r6_scripts_by_interpretation, src)
    # the shape-based readings of the command loop (the table of affine forms per command, C18.R2 / R4) and of the text-block loop
    # (C18.R3) speak about ALL numbers and ALL texts; they apply to the loop shapes listed in their vocabulary.  A reader written
    # otherwise is decided on the script table above only, and the evidence says so.
    for rule_, fn_, args_ in (('C18.R2', r2_r4_table, (src, roles)), ('C18.R3', r3_terminator, (src,))):
        if rule_ == 'C18.R2' and roles is None:
            continue
        try:
            fn_(rep, *args_)
        except AnalysisError as e_:
            if interpreted is None:
                rep.error(rule_, str(e_))
            else:
                rep.info.append('%s: the shape-based reading does not apply (%s); decided on the %d interpreted scripts only' % (rule_, str(e_)[:160], interpreted))
    rep.guard('C18.R5', r5_application, src, interpreted is not None and not any(v_.get('rule', '').startswith('C18.R') and v_.get('rule') in ('C18.R2', 'C18.R3') for v_ in rep.violations))
    # refusals are ValueError: the messages of the refusals can be built
    from . import common
    rep.guard('C18.R5', common.check_error_construction, src, 'C18.R5', 'debian_support', ('patches_from_ed_script', 'patch_lines'), 0)
    from . import common as _common_flags
    rep.guard('C18.R5', _common_flags.check_re_positional_flags, src, 'C18.R5', 'debian_support', 'a script or index text with more separators than that is cut short')

"""C04 -- well-formed changelogs round-trip byte-for-byte through Changelog."""
import ast

from .. import rx, strlang, normalize
from ..core import AnalysisError, norm, walk_no_nested
from ..strlang import Obj, ListOf, Slot, Lit, Cat, Star, BoolUnknown
from .changelogmodel import Model

META = {
    'design_ref': 'DESIGN.md §5 C04',
    'technique': 'writer template of ChangeBlock._format extracted by abstract interpretation and cut into lines; marked-language capture '
                 'agreement of the header line with topline, of each key=value item with keyvalue / value_re, of the trailer with endline; '
                 'abstract transition system of parse_changelog (state × line language) used to show that every line class of a well-formed '
                 'block takes a warning-free branch that stores the line where _format reads it back; storage/emit order rules for every content-dependent layout of the block writer; line-primitive rule (a text is cut into lines at newlines only); line-primitive rule extended: the text that is cut into lines is not rewritten on its way to the cut; whole well-formed texts through the interpreted constructor and str() (no warning, byte-for-byte, blocks in file order); versions of the Policy grammar can be shown (the interpreted family of C14); headings with many key=value items; no regex flag at the position of maxsplit / count; a test the transition model cannot decide makes the routing rule undecided, not a finding',
    'level_text': 'Static decision for all texts of the deb-changelog(5) grammar as stated in the property: every header/trailer the writer '
                  'can emit is matched with groups on the written slots (so parsed attributes equal what was written and re-format is '
                  'identical), change/blank lines are routed warning-free to the change list, header/trailer lines to their branches, EOF '
                  'after a trailer is clean; emission order equals storage order.  Values are not executed.',
    'level_note': 'trusted: CPython re parser, automata engine, template extractor; slot grammars (oracle) are written in the rule',
}

M = 'changelog'
# oracle: deb-changelog(5)
PKG = r'[a-z0-9][-+0-9a-z.]+'
VER = r'[0-9A-Za-z.+~:\-]+'
DISTS = r'[-+0-9A-Za-z.]+(?: [-+0-9A-Za-z.]+)*'      # UNRELEASED, Bookworm-Backports: distribution names are not restricted to lower case
URG = r'[a-z]+'
URGC = r'(?: [^,\n]*[^\s,])?'
KEY = r'(?!urgency)[-0-9a-z]+'      # not used as regex (no look-around support): see KEY_SAFE
KEY_SAFE = r'[a-tv-z][-0-9a-z]*|u[-0-9a-qs-z][-0-9a-z]*|u'     # keys other than those starting with "ur" (⊂ keys ≠ urgency)
VAL = r'[^\s,](?:[^,\n]*[^\s,])?'
NAME = r'[^\s<>](?:[^<>\n]*[^\s<>])?'
EMAIL = r'[^\s<>]+'
DATE = r'[A-Z][a-z]{2}, [ 0-9]?[0-9] [A-Z][a-z]{2} [0-9]{4} [0-9]{2}:[0-9]{2}:[0-9]{2} [-+][0-9]{4}'
CHANGE = r'  [^\n]*'
BLANK = r'[ \t]*'


def extract_block_template(src, rep, all_terms=False):
    f = src.func(M + ':ChangeBlock._format')
    rep.saw_func(f)
    S = ('str',)
    shape = ('rec', {'package': ('opt', S), '_raw_version': ('opt', S), 'distributions': ('opt', S), 'urgency': ('opt', S),
                     'urgency_comment': S, 'other_pairs': ('dict', S, S), 'changes()': ('list', S), '_no_trailer': ('bool',),
                     'author': ('opt', S), 'date': ('opt', S), '_trailer_separator': S, '_trailing': ('list', S)})
    # boolean flags of the block (set to True / False by the constructor, switched by the parser): free in the template, one world each
    init_ = f.module.funcs.get('ChangeBlock.__init__')
    for st_ in (ast.walk(init_.node) if init_ is not None else ()):
        if isinstance(st_, ast.Assign) and len(st_.targets) == 1 and isinstance(st_.targets[0], ast.Attribute) and norm(st_.targets[0].value) == 'self' \
                and isinstance(st_.value, ast.Constant) and isinstance(st_.value.value, bool) and st_.targets[0].attr not in shape[1]:
            shape[1][st_.targets[0].attr] = ('bool',)
    params = f.params()
    # quantifiers over a local literal table (`all(item[0] is None for item in rows)`) are the conjunction over its rows
    body = normalize.fold_literal_subscripts(normalize.expand_quantifiers(f.node, table_nodes=normalize.local_table_nodes(f.node))).body
    acc = src.func(M + ':ChangeBlock.changes')
    rets = [r_ for r_ in ast.walk(acc.node) if isinstance(r_, ast.Return)]
    if len(rets) == 1 and rets[0].value is not None and norm(rets[0].value) == 'self._changes':
        # the accessor returns the stored list itself: a direct read of the attribute is the same list
        class Alias(ast.NodeTransformer):
            def visit_Attribute(self, n):
                if norm(n) == 'self._changes' and isinstance(n.ctx, ast.Load):
                    return ast.copy_location(ast.Call(func=ast.Attribute(value=ast.Name(id='self', ctx=ast.Load()), attr='changes', ctx=ast.Load()), args=[], keywords=[]), n)
                return self.generic_visit(n)
        from ..core import clone as _clone
        body = [ast.fix_missing_locations(Alias().visit(_clone(st))) for st in body]

    def cond_hook(it, test, env):
        # a test on one element of a stored list taken by constant index (`lst[-1]`): free in the world where the list is not empty
        subs = [n for n in ast.walk(test) if isinstance(n, ast.Subscript) and isinstance(n.slice, (ast.Constant, ast.UnaryOp))]
        if len(subs) != 1 or isinstance(test, (ast.BoolOp,)) or (isinstance(test, ast.UnaryOp) and isinstance(test.op, ast.Not)):
            return NotImplemented
        try:
            lst = it.resolve(it.ev(subs[0].value, env))
        except strlang.NotTemplate:
            return NotImplemented
        if not isinstance(lst, strlang.ListOf) or lst.src in ('local', 'literal', 'acc'):
            return NotImplemented
        others = [n for n in ast.walk(test) if isinstance(n, ast.Name) and isinstance(n.ctx, ast.Load) and n.id in env and n.id != 'self']
        if others:
            return NotImplemented
        if not it.decide(('nonempty', lst.src), '%s non-empty' % lst.src):
            raise strlang.Raised('IndexError')
        return it.decide(('pred', '%s[%s]' % (lst.src, norm(subs[0].slice)), norm(test)), norm(test))

    helpers = strlang.class_helpers(f.module, 'ChangeBlock', skip=('_format', 'changes', '__str__', '__bytes__'))

    def run(dec):
        it = strlang.Interp(dec, cls='ChangeBlock', cond_hook=cond_hook, methods=helpers)
        env = {'self': Obj('self', shape)}
        for p in params[1:]:
            env[p] = BoolUnknown(p)
        r = it.run(body, env)
        if r is None or r[0] != 'return':
            raise AnalysisError('%s: no return' % f.site)
        return r[1], it
    res, raised = strlang.worlds(run)
    if all_terms == 'worlds':
        return f, [(dec, t) for dec, t, it in res], raised
    good = [(dec, t) for dec, t, it in res
            if dec.get(('bool', 'self._no_trailer')) is False and dec.get(('present', 'self.author')) and dec.get(('present', 'self.date'))]
    if not good:
        raise AnalysisError('%s: no world with a complete trailer' % f.site)
    terms = {}
    for _, t in good:
        terms.setdefault(strlang.show(t), t)
    if all_terms:
        # several layouts of the complete block (the layout depends on the stored content): shortest first
        return f, sorted(terms.values(), key=lambda t: len(strlang.show(t))), raised
    if len(terms) != 1:
        raise AnalysisError('%s: the complete block has %d different templates' % (f.site, len(terms)))
    return f, next(iter(terms.values())), raised


def cut_lines(term):
    """split a Cat term at newline literals -> list of line terms (each without the final newline);
    a Star whose item ends in a newline becomes ('star', item-line-term)"""
    items = term.items if isinstance(term, Cat) else [term]
    lines, cur = [], []
    for x in items:
        if isinstance(x, Lit):
            parts = x.v.split('\n')
            for i, p in enumerate(parts):
                if p:
                    cur.append(Lit(p))
                if i < len(parts) - 1:
                    lines.append(('line', strlang.cat(*cur) if cur else Lit('')))
                    cur = []
        elif isinstance(x, Star):
            # the repeated item must be exactly one complete line
            it = x.item.items if isinstance(x.item, Cat) else [x.item]
            if isinstance(it[-1], Lit) and it[-1].v.endswith('\n') and '\n' not in it[-1].v[:-1] and not cur \
                    and not any(isinstance(y, Lit) and '\n' in y.v for y in it[:-1]):
                body = list(it[:-1]) + ([Lit(it[-1].v[:-1])] if it[-1].v[:-1] else [])
                lines.append(('star', strlang.cat(*body) if body else Lit('')))
            else:
                cur.append(x)
        else:
            cur.append(x)
    if cur:
        lines.append(('rest', strlang.cat(*cur)))
    return lines


def L(alpha, p, flags=0):
    return rx.regex_lang(p, flags, 'fullmatch', alpha=alpha)


def r1_header(rep, src, f, header, alpha):
    """header line term vs topline + item regexes"""
    top = src.regex(M, 'topline')
    kv = src.regex(M, 'keyvalue')
    vr = src.regex(M, 'value_re')
    for n in ('topline', 'keyvalue', 'value_re'):
        rep.saw_regex('changelog:' + n)
    items = header.items if isinstance(header, Cat) else [header]
    # locate the ';' that ends the part matched by topline
    semi = None
    for i, x in enumerate(items):
        if isinstance(x, Lit) and ';' in x.v:
            semi = i
            break
    if semi is None:
        rep.fail('C04.R1', f.site, 'header has the ";" separator', 'the header line is written without ";"', where=f.where)
        return
    pre, post = items[semi].v.split(';', 1)
    headpart = list(items[:semi]) + ([Lit(pre)] if pre else []) + [Lit(';')]
    tail = ([Lit(post)] if post else []) + list(items[semi + 1:])
    slots = {'self.package': L(alpha, PKG), 'self._raw_version': L(alpha, VER), 'self.distributions': L(alpha, DISTS),
             'self.urgency': L(alpha, URG), 'self.urgency_comment': L(alpha, URGC), 'self.other_pairs[].0': L(alpha, KEY_SAFE),
             'self.other_pairs[].1': L(alpha, VAL)}

    def slot(p):
        if p not in slots:
            raise AnalysisError('%s: unexpected slot %s in the header' % (f.site, p))
        return slots[p]
    # group 3 of topline includes the blank before the distributions: tag " " + distributions together
    hp = []
    for i, x in enumerate(headpart):
        if isinstance(x, Slot) and x.path == 'self.distributions' and hp and isinstance(hp[-1], Lit) and hp[-1].v.endswith(' '):
            prev = hp.pop()
            if prev.v[:-1]:
                hp.append(Lit(prev.v[:-1]))
            hp.append(strlang.Tagged(Cat([Lit(' '), x]), 'g3'))
        else:
            hp.append(x)
    hterm = strlang.cat(*hp) if not any(isinstance(x, strlang.Tagged) for x in hp) else Cat(hp)
    groups = ['g1', 'g2', 'g3']
    tags = {'self.package': 'g1', 'self._raw_version': 'g2'}
    Tm, Te = strlang.template_langs(hterm, alpha, slot, tags, groups)
    w1, w2 = rx.agreement(top['pattern'], top['flags'], 'match', Tm, Te, groups, {'g1': 1, 'g2': 2, 'g3': 3}, alpha)
    shown = strlang.show(hterm)
    if w1 is not None:
        rep.fail('C04.R1', f.site, 'header is matched by topline', 'the writer can emit the header start %r which topline does not match '
                 '(strict parsing of its own output fails)' % w1, detail={'witness': w1, 'template': shown}, where=f.where)
    else:
        rep.ok('C04.R1', f.site, 'header is matched by topline', '%s ⊆ L_match(topline)' % shown)
    if w2 is not None:
        rep.fail('C04.R1', f.site, 'topline groups = package, version, " "+distributions', 'a parse of topline splits the written header differently: %r' % w2,
                 detail={'witness': w2}, where=f.where)
    else:
        rep.ok('C04.R1', f.site, 'topline groups = package, version, " "+distributions', 'every parse puts groups 1-3 on the written slots')
    # the writer emits exactly the documented header grammar (byte-for-byte round trip needs the canonical separators)
    full_e = strlang.TBuilder(alpha, [], slot, {}).lang(header)
    ref = L(alpha, r'(?:%s) \((?:%s)\) (?:%s); urgency=(?:%s)(?:%s)(?:, (?:%s)=(?:%s))*' % (PKG, VER, DISTS, URG, URGC, KEY_SAFE, VAL))
    w = full_e.equiv_witness(ref)
    if w is not None:
        rep.fail('C04.R1', f.site, 'header = deb-changelog(5) grammar', 'the writer %s the header %r; the documented form is '
                 '"package (version) distributions; urgency=value[ comment][, key=value]*" (a parsed well-formed header would not be reproduced byte-for-byte)'
                 % ('can emit' if w[0] == 'left-only' else 'cannot emit', w[1]), detail={'witness': w[1]}, where=f.where)
    else:
        rep.ok('C04.R1', f.site, 'header = deb-changelog(5) grammar', 'template language equals the reference grammar')
    # nothing before the terminating ';' contains ';'
    semis = rx.regex_lang(r'(?s:.*);(?s:.*);', 0, 'fullmatch', alpha=alpha)
    w = Te.common_witness(semis)
    if w is not None:
        rep.fail('C04.R1', f.site, 'first ";" ends the distributions', 'the text before the key=value list can contain ";" (%r): split(";", 1) cuts at the wrong place' % w, where=f.where)
    else:
        rep.ok('C04.R1', f.site, 'first ";" ends the distributions', 'no ";" inside package/version/distributions')
    # ---- items after ';' : first item (urgency) and the repeated extra items
    fixed = [x for x in tail if not isinstance(x, Star)]
    stars = [x for x in tail if isinstance(x, Star)]
    if len(stars) != 1:
        raise AnalysisError('%s: expected one repeated key=value part in the header, found %d' % (f.site, len(stars)))
    urg_item = strlang.cat(*fixed)
    extra = stars[0].item
    ei = extra.items if isinstance(extra, Cat) else [extra]
    if not (isinstance(ei[0], Lit) and ei[0].v.count(',') == 1 and ei[0].v.strip(' ').startswith(',')):
        rep.fail('C04.R1', f.site, 'extra key=value items are comma separated', 'items are joined with %r; the reader splits on ","' % (ei[0],), where=f.where)
        return
    rep.ok('C04.R1', f.site, 'extra key=value items are comma separated', 'separator %r' % ei[0].v, nontrivial=False)
    extra_item = strlang.cat(Lit(ei[0].v.split(',', 1)[1]), *ei[1:])
    # no ',' inside an item
    comma = rx.regex_lang(r'(?s:.*),(?s:.*)', 0, 'fullmatch', alpha=alpha)
    for nm, t in (('urgency item', urg_item), ('extra item', extra_item)):
        te = strlang.TBuilder(alpha, [], slot, {}).lang(t)
        w = te.common_witness(comma)
        if w is not None:
            rep.fail('C04.R1', f.site, '%s contains no ","' % nm, 'an item can contain a comma (%r) and is split apart by the reader' % w, where=f.where)
        else:
            rep.ok('C04.R1', f.site, '%s contains no ","' % nm, 'ok')
    # reader: pair.strip() then keyvalue; strip = remove blanks at both ends of the item
    for nm, t, g1slot, g2 in (('urgency item', urg_item, None, None), ('extra item', extra_item, 'self.other_pairs[].0', 'self.other_pairs[].1')):
        tm0 = strlang.TBuilder(alpha, [], slot, {}).lang(t)
        stripped_e = rx.strip_lang(tm0, ' \t')
        if g1slot is not None:
            groups = ['k', 'v']
            tg = {g1slot: 'k', g2: 'v'}
            Tm, _ = strlang.template_langs(t, alpha, slot, tg, groups)
            Tm = rx.strip_lang(Tm, ' \t')
            w1, w2 = rx.agreement(kv['pattern'], kv['flags'], 'match', Tm, stripped_e, groups, {'k': 1, 'v': 2}, alpha)
        else:
            # "urgency=" U C : group 1 must be the literal key, group 2 = U C
            its = t.items if isinstance(t, Cat) else [t]
            lit0 = its[0] if isinstance(its[0], Lit) else Lit('')
            keytxt = lit0.v.strip(' ')
            if not keytxt.endswith('=') or keytxt[:-1].lower() != 'urgency':
                rep.fail('C04.R1', f.site, 'urgency item', 'the first item is written as %r, the reader looks for the key "urgency"' % lit0.v, where=f.where)
                continue
            t2 = Cat([Lit(lit0.v[:lit0.v.index('=')]), Lit('='), strlang.Tagged(strlang.cat(*its[1:]), 'v')])
            groups = ['v']
            Tm = rx.strip_lang(strlang.TBuilder(alpha, [('open', 'v'), ('close', 'v')], slot, {}).lang(t2), ' \t')
            w1, w2 = rx.agreement(kv['pattern'], kv['flags'], 'match', Tm, stripped_e, groups, {'v': 2}, alpha)
        if w1 is not None:
            rep.fail('C04.R1', f.site, '%s is matched by keyvalue' % nm, 'written item %r is not matched by keyvalue: strict parsing warns/raises "Invalid key-value pair"' % w1,
                     detail={'witness': w1}, where=f.where)
        elif w2 is not None:
            rep.fail('C04.R1', f.site, '%s is matched by keyvalue' % nm, 'keyvalue splits the written item differently: %r' % w2, detail={'witness': w2}, where=f.where)
        else:
            rep.ok('C04.R1', f.site, '%s is matched by keyvalue' % nm, 'key/value groups on the written slots')
    # value_re on  U C
    uc = Cat([Slot('self.urgency'), Slot('self.urgency_comment')])
    groups = ['u', 'c']
    Tm, Te = strlang.template_langs(uc, alpha, slot, {'self.urgency': 'u', 'self.urgency_comment': 'c'}, groups)
    w1, w2 = rx.agreement(vr['pattern'], vr['flags'], 'match', Tm, Te, groups, {'u': 1, 'c': 2}, alpha)
    if w1 is not None:
        rep.fail('C04.R1', f.site, 'urgency value/comment split by value_re', 'written urgency %r is not matched by value_re ("Badly formatted urgency value")' % w1, where=f.where)
    elif w2 is not None:
        rep.fail('C04.R1', f.site, 'urgency value/comment split by value_re', 'value_re does not give back urgency and comment as written (comment keeps its leading blank): %r' % w2,
                 detail={'witness': w2}, where=f.where)
    else:
        rep.ok('C04.R1', f.site, 'urgency value/comment split by value_re', 'group 1 = urgency, group 2 = comment (with its leading blank)')


def _parse_val(e):
    """canonical form of a value expressed over the inputs: regex group reads, strips, %-formats"""
    if isinstance(e, ast.Call) and isinstance(e.func, ast.Attribute):
        m = e.func
        if m.attr == 'group' and len(e.args) == 1 and isinstance(e.args[0], ast.Constant) and isinstance(m.value, ast.Call) \
                and isinstance(m.value.func, ast.Attribute) and m.value.func.attr == 'match' and len(m.value.args) == 1:
            return ('g', norm(m.value.func.value), _parse_val(m.value.args[0]), e.args[0].value)
        if m.attr in ('strip', 'lstrip', 'rstrip', 'lower') and not e.args:
            return (m.attr, _parse_val(m.value))
    if isinstance(e, ast.Subscript) and isinstance(e.slice, ast.Constant) and isinstance(e.slice.value, int) and isinstance(e.value, ast.Call) \
            and isinstance(e.value.func, ast.Attribute) and e.value.func.attr == 'groups' and not e.value.args:
        mm = e.value.func.value
        if isinstance(mm, ast.Call) and isinstance(mm.func, ast.Attribute) and mm.func.attr == 'match' and len(mm.args) == 1:
            return ('g', norm(mm.func.value), _parse_val(mm.args[0]), e.slice.value + 1)
    if isinstance(e, ast.BinOp) and isinstance(e.op, ast.Mod) and isinstance(e.left, ast.Constant) and isinstance(e.right, ast.Tuple):
        return ('fmt', e.left.value, tuple(_parse_val(x) for x in e.right.elts))
    return ('x', norm(e))


def r0_writer_order(rep, src):
    """the writers walk the stored collections (extra key=value pairs, change lines, blocks) in stored order: an iteration through
    sorted() / reversed() / set() writes them in another order than they were read"""
    for site in (M + ':ChangeBlock._format', M + ':Changelog._format'):
        f = src.func(site)
        rep.saw_func(f)
        n = 0
        for node in ast.walk(f.node):
            its = []
            if isinstance(node, ast.For):
                its = [node.iter]
            elif isinstance(node, (ast.ListComp, ast.GeneratorExp, ast.SetComp, ast.DictComp)):
                its = [g.iter for g in node.generators]
            elif isinstance(node, ast.Call) and isinstance(node.func, ast.Attribute) and node.func.attr == 'join' and node.args:
                its = [node.args[0]]
            for it in its:
                if not any(isinstance(x, ast.Attribute) and norm(x.value) == 'self' for x in ast.walk(it)):
                    continue
                n += 1
                wrappers = [norm(c.func) for c in ast.walk(it) if isinstance(c, ast.Call) and norm(c.func) in ('sorted', 'reversed', 'set', 'frozenset')]
                what = 'order of ' + norm(it)[:50]
                if wrappers:
                    rep.fail('C04.R1', f.site, what, 'the stored items are written through %s(): in another order than they were read, so str() does not reproduce a '
                             'text whose items are not already in that order' % wrappers[0], where='%s:%d' % (f.module.relpath, it.lineno))
                else:
                    rep.ok('C04.R1', f.site, what, 'stored order', nontrivial=False)
        if n == 0:
            raise AnalysisError('%s: no iteration over stored items found' % f.site)


def r1b_reader_wiring(rep, src):
    """the reader stores the groups where the writer reads them -- decided on the paths of the line loop with the locals
    substituted away: every store into the current block is expressed over regex groups of the line"""
    from .. import paths
    model = Model(src, rep)
    fp = model.f

    def lh(en, st, path):
        if isinstance(st, ast.For):
            it = paths.subst(st.iter, path.env)
            p0 = paths.Path()
            p0.env = {k: v for k, v in path.env.items() if k not in paths._assigned(st)}
            ps_ = en.run(st.body, [p0])
            path.events.append(('inner', it, ps_, st, dict(path.env)))
            for n in paths._assigned(st):
                path.env[n] = paths._opaque('assigned in a loop', st)
            return [path]
        return None
    en = paths.Enumerator(paths.Folder(paths.module_consts(model.mod, '')), lh, max_paths=40000)
    ps = en.run(model.loop.body, [paths.Path()])
    rep.analysed['paths'] += len(ps)
    got = {}
    inners = []
    for p_ in ps:
        for ev in p_.events:
            if ev[0] == 'store' and ev[1].startswith('current_block.'):
                got.setdefault(ev[1].split('.', 1)[1], {})[norm(ev[2])] = (_parse_val(ev[2]), ev[2], p_, ev[3])
            if ev[0] == 'inner':
                inners.append((ev, p_))

    def grp(regex, n, line=None):
        return lambda v: v[0] == 'g' and v[1] == regex and v[3] == n and model.linevar in repr(v[2])
    want = {'package': (grp('topline', 1), 'topline group 1'), '_raw_version': (grp('topline', 2), 'topline group 2'),
            'distributions': (lambda v: v[0] == 'lstrip' and grp('topline', 3)(v[1]), 'topline group 3, left-stripped'),
            'date': (grp('endline', 4), 'endline group 4'), '_trailer_separator': (grp('endline', 3), 'endline group 3'),
            'author': (lambda v: v[0] == 'fmt' and v[1] == '%s <%s>' and len(v[2]) == 2 and grp('endline', 1)(v[2][0]) and grp('endline', 2)(v[2][1]),
                       "'%s <%s>' % (endline groups 1, 2)")}
    for k, (pred, desc) in want.items():
        vals = got.get(k, {})
        if vals and all(pred(v[0]) for v in vals.values()):
            rep.ok('C04.R1', fp.site, 'current_block.%s' % k, desc, nontrivial=False)
        else:
            rep.fail('C04.R1', fp.site, 'current_block.%s' % k, 'the block attribute %s is filled from %s instead of %s' % (k, sorted(vals) or ['nothing'], desc), where=fp.where)
    # the key=value items of the header
    hdr = [(ev, p_) for ev, p_ in inners if any(e2[0] == 'store' for q in ev[2] for e2 in q.events)]
    shapes = {id(ev[3]) for ev, _ in hdr}
    if len(shapes) != 1:
        raise AnalysisError('%s: expected one loop over the key=value items of the header, found %d' % (fp.site, len(shapes)))
    ev, outer = hdr[0]
    it, inner_paths, loopst, env_at = ev[1], ev[2], ev[3], ev[4]
    inner_paths = [q for e_, _ in hdr for q in e_[2]]
    why = None
    # items = <line>.split(';', 1)[1].split(',')   (partition(';')[2] is the same cut: the header regex guarantees the ';')
    def cut_of(it):
        if isinstance(it, ast.Call) and isinstance(it.func, ast.Attribute) and it.func.attr == 'split' and [norm(a_) for a_ in it.args] == ["','"]:
            y = it.func.value
            if isinstance(y, ast.Subscript) and isinstance(y.slice, ast.Constant) and isinstance(y.value, ast.Call) and isinstance(y.value.func, ast.Attribute):
                c_ = y.value
                if model.linevar not in norm(c_.func.value):
                    return False
                if c_.func.attr == 'split' and [norm(a_) for a_ in c_.args] == ["';'", '1'] and y.slice.value == 1:
                    return True
                if c_.func.attr == 'partition' and [norm(a_) for a_ in c_.args] == ["';'"] and y.slice.value == 2:
                    return True
        return False
    lv = norm(loopst.target)
    stripped_by_iter = set()
    for it in {norm(e_[1]): e_[1] for e_, _ in hdr}.values():
        # the items may be stripped while iterating: map(str.strip, items) / (x.strip() for x in items)
        pre = False
        if isinstance(it, ast.Call) and norm(it.func) == 'map' and len(it.args) == 2 and norm(it.args[0]) == 'str.strip':
            it, pre = it.args[1], True
        elif isinstance(it, (ast.GeneratorExp, ast.ListComp)) and len(it.generators) == 1 and not it.generators[0].ifs \
                and isinstance(it.generators[0].target, ast.Name) and norm(it.elt) == '%s.strip()' % it.generators[0].target.id:
            it, pre = it.generators[0].iter, True
        stripped_by_iter.add(pre)
        if not cut_of(it):
            why = 'the items are taken from %s, not from the text after the first ";" split at ","' % norm(it)[:80]
    if len(stripped_by_iter) != 1:
        raise AnalysisError('%s: the item loop is entered in different ways' % fp.site)
    P = ('x', lv) if stripped_by_iter.pop() else ('strip', ('x', lv))
    K, V = ('g', 'keyvalue', P, 1), ('g', 'keyvalue', P, 2)
    n_urg = n_other = 0
    dict_other = dict_keys = None
    for q in inner_paths:
        urgent = None
        for t_, pol in q.conds:
            if isinstance(t_, ast.Compare) and len(t_.ops) == 1 and isinstance(t_.ops[0], (ast.Eq, ast.NotEq)) \
                    and isinstance(t_.comparators[0], ast.Constant) and t_.comparators[0].value == 'urgency':
                if _parse_val(t_.left) == ('lower', K):
                    urgent = pol if isinstance(t_.ops[0], ast.Eq) else not pol
                else:
                    why = why or 'the urgency item is recognised by %s, not by the lower-cased key' % norm(t_)[:60]
        for e2 in q.events:
            if e2[0] != 'store':
                continue
            tgt = e2[3].targets[0] if isinstance(e2[3], ast.Assign) else None
            val = _parse_val(e2[2])
            if e2[1] == 'current_block.urgency':
                n_urg += 1
                if urgent is not True:
                    why = why or 'current_block.urgency is stored for an item that is not the urgency item'
                if val != ('g', 'value_re', V, 1):
                    why = why or 'the urgency is %s, not group 1 of value_re on the item value' % norm(e2[2])[:70]
            elif e2[1] == 'current_block.urgency_comment':
                if urgent is not True or val != ('g', 'value_re', V, 2):
                    why = why or 'the urgency comment is not group 2 of value_re on the urgency value'
            elif isinstance(tgt, ast.Subscript) and isinstance(tgt.value, ast.Name):
                key = _parse_val(paths.subst(tgt.slice, {k_: v_ for k_, v_ in q.env.items()}))
                if key == K:
                    n_other += 1
                    dict_other = tgt.value.id
                    if urgent is not False or val != V:
                        why = why or 'the item %s[key] = %s is not stored for exactly the non-urgency items with the item value' % (tgt.value.id, norm(e2[2])[:40])
                elif key == ('lower', K):
                    dict_keys = tgt.value.id
    if not n_urg or not n_other:
        why = why or 'the items are not stored (urgency stores: %d, other_pairs stores: %d)' % (n_urg, n_other)
    if why is None:
        rep.ok('C04.R1', fp.site, 'item loop', "text after ';' → split(',') → strip → keyvalue; urgency via value_re, others into %s[key]" % dict_other)
    else:
        rep.fail('C04.R1', fp.site, 'item loop', 'the key=value items are not cut as split(";",1)[1].split(",") / strip / keyvalue with other_pairs[key] = value: ' + why, where=fp.where)
    uc = got.get('urgency_comment')
    if 'urgency_comment' in {e2[1].split('.', 1)[1] for q in inner_paths for e2 in q.events if e2[0] == 'store' and e2[1].startswith('current_block.')} and why is None:
        rep.ok('C04.R1', fp.site, 'current_block.urgency_comment', 'value_re group 2', nontrivial=False)
    else:
        rep.fail('C04.R1', fp.site, 'current_block.urgency_comment', 'the urgency comment is not taken from group 2 of value_re', where=fp.where)
    _ = uc
    # per-block containers are fresh for each header: bound to an empty dict on the header path itself
    for role, name in (('other_pairs', dict_other), ('all_keys', dict_keys)):
        v0 = env_at.get(name) if name else None
        fresh = isinstance(v0, ast.Dict) and not v0.keys
        if role == 'other_pairs' and fresh:
            st_ = got.get('other_pairs', {})
            fresh = bool(st_) and all(isinstance(v[3], ast.Assign) and norm(v[3].value) == name for v in st_.values())
        if fresh:
            rep.ok('C04.R1', fp.site, '%s is created per header' % role, '%s = {} on the header path' % name, nontrivial=False)
        else:
            rep.fail('C04.R1', fp.site, '%s is created per header' % role, 'the dictionary %s is created once and shared by all blocks: every block shows the '
                     'key=value pairs of all headers' % (name or role), where=fp.where)


def _anc(n):
    n = getattr(n, '_parent', None)
    while n is not None:
        yield n
        n = getattr(n, '_parent', None)


def r2_trailer(rep, src, f, trailer, alpha):
    end = src.regex(M, 'endline')
    rep.saw_regex('changelog:endline')
    # default separator from ChangeBlock.__init__
    init = src.func(M + ':ChangeBlock.__init__')
    sep = None
    for n in ast.walk(init.node):
        if isinstance(n, ast.Assign) and norm(n.targets[0]) == 'self._trailer_separator' and isinstance(n.value, ast.Constant):
            sep = n.value.value
    if sep is None:
        raise AnalysisError('%s: default trailer separator not found' % init.site)
    author = Cat([Slot('name'), Lit(' <'), Slot('email'), Lit('>')])
    slots = {'self.author': author, 'name': L(alpha, NAME), 'email': L(alpha, EMAIL), 'self._trailer_separator': L(alpha, rx.literal(sep)),
             'self.date': L(alpha, DATE)}

    def slot(p):
        if p not in slots:
            raise AnalysisError('%s: unexpected slot %s in the trailer' % (f.site, p))
        return slots[p]
    groups = ['g1', 'g2', 'g3', 'g4']
    tags = {'name': 'g1', 'email': 'g2', 'self._trailer_separator': 'g3', 'self.date': 'g4'}
    Tm, Te = strlang.template_langs(trailer, alpha, slot, tags, groups)
    w1, w2 = rx.agreement(end['pattern'], end['flags'], 'match', Tm, Te, groups, {'g1': 1, 'g2': 2, 'g3': 3, 'g4': 4}, alpha)
    shown = strlang.show(trailer)
    if w1 is not None:
        rep.fail('C04.R2', f.site, 'trailer is matched by endline', 'the writer can emit the trailer %r which endline does not match' % w1,
                 detail={'witness': w1, 'template': shown}, where=f.where)
    else:
        rep.ok('C04.R2', f.site, 'trailer is matched by endline', '%s ⊆ L_match(endline)' % shown)
    if w2 is not None:
        rep.fail('C04.R2', f.site, 'endline groups = name, email, separator, date', 'a parse of endline splits the written trailer differently: %r' % w2,
                 detail={'witness': w2}, where=f.where)
    else:
        rep.ok('C04.R2', f.site, 'endline groups = name, email, separator, date', 'every parse puts groups 1-4 on the written slots')
    ref = L(alpha, r' -- (?:%s) <(?:%s)>  (?:%s)' % (NAME, EMAIL, DATE))
    w = Te.equiv_witness(ref)
    if w is not None:
        rep.fail('C04.R2', f.site, 'trailer = deb-changelog(5) grammar', 'the writer %s the trailer %r; the documented form is " -- name <email>  date"'
                 % ('can emit' if w[0] == 'left-only' else 'cannot emit', w[1]), detail={'witness': w[1]}, where=f.where)
    else:
        rep.ok('C04.R2', f.site, 'trailer = deb-changelog(5) grammar', 'template language equals the reference grammar')
    if sep == '  ':
        rep.ok('C04.R2', init.site, 'default separator is two blanks', 'no "Badly formatted trailer" for a formatted block', nontrivial=False)
    else:
        rep.fail('C04.R2', init.site, 'default separator is two blanks', 'the default trailer separator is %r; the parser warns unless it is two blanks' % sep, where=init.where)
    return Te


def r3_routing(rep, src, model, header_e, trailer_e, alpha):
    """every line class of a well-formed block takes a warning-free transition that stores it where _format reads it back"""
    states, trans = model.explore()
    change = L(alpha, CHANGE)
    blank = L(alpha, BLANK)
    heading_states = [k for k in states if k[0] in ('first_heading', 'next_heading_or_eof')]
    body_states = [k for k in states if k[0] in ('start_of_change_data', 'more_changes_or_trailer')]
    f = model.f

    def check(keys, cls_name, lang, want_store, want_next, want_block=False):
        for k in keys:
            hits = [t for t in trans if t['src'] == k and not t['L'].intersect(lang).is_empty()]
            what = '%s in state %s%s' % (cls_name, k[0], '' if k[2] else ' (no block yet)')
            if not hits:
                rep.fail('C04.R3', f.site, what, 'no transition handles this line', where=f.where)
                continue
            bad = None
            for t in hits:
                warns = [e for e in t['effects'] if e[0] in ('warn', 'rawwarn', 'raise')]
                stores = [e[1] for e in t['effects'] if e[0] == 'store']
                appended = any(e[0] == 'block-appended' for e in t['effects'])
                wit = t['L'].intersect(lang).witness()
                if t['outcome'] == 'return' and any(True for _ in [0]):
                    # the max_blocks early return: not part of the unrestricted parse
                    if 'max_blocks' in norm(f.node):
                        continue
                undecided = [c_ for c_ in t.get('forks', ()) if 'max_blocks' not in c_]
                if (warns or (want_store is not None and stores != [want_store])) and undecided:
                    raise AnalysisError('%s: whether the line %r takes the branch that %s depends on `%s`, which the transition model does not decide' % (
                        f.site, wit, 'reports "%s"' % warns[0][1] if warns else 'stores it in %s' % (stores or 'nothing'), undecided[-1]))
                if warns:
                    bad = 'the line %r takes a branch that reports "%s"' % (wit, warns[0][1])
                elif want_store is not None and stores != [want_store]:
                    bad = 'the line %r is stored in %s instead of %s' % (wit, stores or 'nothing', want_store)
                elif want_next is not None and t['dst'][0] not in want_next:
                    bad = 'the line %r moves the parser to state %s instead of %s' % (wit, t['dst'][0], '/'.join(want_next))
                elif want_block and not appended:
                    bad = 'the trailer %r does not close the block' % wit
                if bad:
                    break
            if bad:
                rep.fail('C04.R3', f.site, what, bad, where=f.where)
            else:
                rep.ok('C04.R3', f.site, what, '%d transition(s), warning-free, stored in %s, next state %s'
                       % (len(hits), want_store, '/'.join(sorted({t['dst'][0] for t in hits if t['outcome'] != 'return'}))))
    check([k for k in heading_states if k[0] == 'first_heading'], 'blank line', blank, 'initial', ('first_heading',))
    check([k for k in heading_states if k[0] == 'next_heading_or_eof'], 'blank line', blank, 'trailing', ('next_heading_or_eof',))
    check(heading_states, 'header line', header_e, None, ('start_of_change_data',))
    check(body_states, 'change line', change, 'changes', ('more_changes_or_trailer',))
    check(body_states, 'blank line', blank, 'changes', ('start_of_change_data', 'more_changes_or_trailer'))
    check([k for k in body_states], 'trailer line', trailer_e, None, ('next_heading_or_eof',), want_block=True)
    # EOF right after a complete block is clean
    for k in states:
        if k[0] == 'next_heading_or_eof':
            effs = model.eof(k)
            if any(e for e in effs):
                rep.fail('C04.R3', f.site, 'end of input after a trailer', 'the end of a well-formed changelog is reported/handled as an error: %r' % (effs[0][:1],), where=f.where)
            else:
                rep.ok('C04.R3', f.site, 'end of input after a trailer', 'no effect')


def r4_layout(rep, lines, f, label=''):
    kinds = [k for k, _ in lines]
    shown = [strlang.show(t) for _, t in lines]
    # header, changes*, trailer, trailing*
    ok = len(lines) == 4 and kinds == ['line', 'star', 'line', 'star'] and 'self.changes()[]' in shown[1] and 'self._trailing[]' in shown[3]
    if ok:
        rep.ok('C04.R4', f.site, 'block = header, change lines, trailer, trailing lines' + label, ' / '.join(shown))
    else:
        rep.fail('C04.R4', f.site, 'block = header, change lines, trailer, trailing lines' + label, 'the block is emitted as %s: lines that are not stored lines (or stored lines '
                 'that are not written) make the parsed-back block differ' % ' / '.join('%s:%s' % x for x in zip(kinds, shown)), where=f.where)
    return ok, kinds, shown


def r4_order(rep, src, lines, f):
    ok, kinds, shown = r4_layout(rep, lines, f)
    if ok and shown[1] == '{self.changes()[]}' and shown[3] == '{self._trailing[]}':
        rep.ok('C04.R4', f.site, 'stored lines are emitted verbatim', 'line + "\\n"', nontrivial=False)
    else:
        rep.fail('C04.R4', f.site, 'stored lines are emitted verbatim', 'change/trailing lines are decorated when written: %s / %s' % (shown[1] if len(shown) > 1 else '?', shown[3] if len(shown) > 3 else '?'), where=f.where)
    need = ['self.package', 'self._raw_version', 'self.distributions', 'self.urgency', 'self.urgency_comment', 'self.other_pairs[].0',
            'self.other_pairs[].1', 'self.changes()[]', 'self.author', 'self._trailer_separator', 'self.date', 'self._trailing[]']
    have = set()
    for _, t in lines:
        have |= set(strlang.slots_of(t))
    missing = [x for x in need if x not in have]
    if missing:
        rep.fail('C04.R4', f.site, 'every parsed attribute is written back', 'the formatted block omits %s: what the parser stored there is lost on output'
                 % ', '.join(missing), where=f.where)
    else:
        rep.ok('C04.R4', f.site, 'every parsed attribute is written back', '%d slots' % len(need))
    cf = src.func(M + ':Changelog._format')
    rep.saw_func(cf)
    S = ('str',)
    shape = ('rec', {'initial_blank_lines': ('list', S), '_blocks': ('list', ('rec', {'_format()': S}))})

    def call_hook(it, c, env):
        # block._format(...) on an item of self._blocks: the block's own text
        if isinstance(c.func, ast.Attribute) and c.func.attr == '_format':
            recv = it.ev(c.func.value, env)
            if isinstance(recv, Obj) and recv.path.endswith('_blocks[]'):
                return strlang.Slot(recv.path + '._format()')
        return NotImplemented

    def run(dec):
        it = strlang.Interp(dec, cls='Changelog', call_hook=call_hook)
        env = {'self': Obj('self', shape)}
        for p_ in cf.params()[1:]:
            env[p_] = BoolUnknown(p_)
        r = it.run(cf.node.body, env)
        if r is None or r[0] != 'return':
            raise AnalysisError('%s: no return' % cf.site)
        return r[1], it
    res, raised = strlang.worlds(run)
    shown2 = sorted({strlang.show(t) for _d, t, _i in res})
    ok2 = not raised and shown2 == ["({self.initial_blank_lines[]} '\\n')* ({self._blocks[]._format()})*"]
    if ok2:
        rep.ok('C04.R4', cf.site, 'document = initial lines, then blocks in list order', shown2[0])
    else:
        rep.fail('C04.R4', cf.site, 'document = initial lines, then blocks in list order', 'Changelog._format does not emit the initial lines followed by the blocks in order: %s' % ' | '.join(shown2)[:160], where=cf.where)
    for meth, attr in (('add_trailing_line', '_trailing'), ('changes', '_changes')):
        g = src.func(M + ':ChangeBlock.' + meth)
        tt = norm(g.node)
        if (meth == 'add_trailing_line' and 'self._trailing.append(%s)' % g.params()[1] in tt) or (meth == 'changes' and 'return self._changes' in tt):
            rep.ok('C04.R4', g.site, 'storage accessor', attr, nontrivial=False)
        else:
            rep.fail('C04.R4', g.site, 'storage accessor', '%s does not use self.%s' % (meth, attr), where=g.where)



def r7_texts(rep, src, tier):
    """the statement on whole texts, by interpretation of the constructor and of str()"""
    # the parser files the blocks in file order, each with its own lines: the constructor and str() interpreted on well-formed texts of
    # one to three blocks (different packages, versions, distributions, urgencies, numbers of change lines, authors and dates)
    from .changelogmodel import interpret_text
    fp = src.func(M + ':Changelog.parse_changelog')

    def wf_block(i, nchanges, extra=''):
        head = 'pkg%d (%d.0-%d) dist%d; urgency=%s%s' % (i, i, i, i, ('low', 'medium', 'high')[i % 3], extra)
        body = ['', '  * change %d.%d' % (i, 1)] + ['    continued %d.%d' % (i, k_) for k_ in range(2, nchanges + 1)] + ['']
        trailer = ' -- Author %d <a%d@example.org>  Thu, 0%d Jan 2004 00:00:0%d +0000' % (i, i, i, i)
        comment_, _c, pairs_ = extra.partition(',')
        other_ = dict(p_.strip().split('=', 1) for p_ in pairs_.split(',') if p_.strip())
        return [head] + body + [trailer], dict(package='pkg%d' % i, _raw_version='%d.0-%d' % (i, i), distributions='dist%d' % i, urgency=('low', 'medium', 'high')[i % 3],
                                                 urgency_comment=comment_, other_pairs=other_,
                                                 _changes=body, author='Author %d <a%d@example.org>' % (i, i), date='Thu, 0%d Jan 2004 00:00:0%d +0000' % (i, i))
    bad_ = None
    docs = [[(1, 1, '')], [(1, 2, ''), (2, 1, '')], [(3, 1, ''), (1, 3, ''), (2, 2, '')], [(2, 1, ', binary-only=yes'), (1, 1, '')], [(1, 0, ''), (2, 1, '')],
            [(1, 1, ' (HIGH for users of x)'), (2, 1, '')], [(2, 2, ', binary-only=yes, closes=123')], [(3, 1, ' (see NEWS), binary-only=yes'), (2, 1, ''), (1, 1, '')],
            # (more items than any small number: a cut that stops early leaves the rest in the last value)
            [(1, 1, ', binary-only=yes, closes=123, x-team=qa, x-origin=vendor, x-more=1'), (2, 1, ', a=b, c=d, e=f, g=h')],
            # (keys are case-insensitive and are kept as written; a key with capitals after another item, and right after the urgency)
            [(1, 1, ', Binary-Only=yes'), (2, 1, ', closes=123, XS-Upload-Hint=delayed-5')], [(3, 1, ', XS-Team-Upload=yes, closes=7')],
            # (the commentary of the urgency may hold a semicolon: the items start after the FIRST one of the heading)
            [(1, 1, ' (fixes data loss; please upgrade)'), (2, 1, ' (a; b), binary-only=yes')]]
    for doc in docs:
        lines, want = [], []
        for j, (i, nch, extra) in enumerate(doc):
            bl_, w_ = wf_block(i, nch, extra)
            lines += ([''] if j else []) + bl_
            want.append(w_)
        text = '\n'.join(lines) + '\n'
        r_ = interpret_text(src, text, True, False)
        if r_['raised'] is not None or r_['warned']:
            bad_ = bad_ or 'strict parsing of the well-formed text %r %s' % (text, 'raises %s' % r_['raised'] if r_['raised'] else 'warns %r' % r_['warned'][0])
        elif r_['format_raised'] is not None or r_['text'] != text:
            bad_ = bad_ or 'str() of the well-formed text %r %s' % (text, 'raises %s' % r_['format_raised'] if r_['format_raised'] else 'gives %r' % (r_['text'],))
        else:
            got_ = [{k_: b_[k_] for k_ in want[0]} for b_ in r_['blocks']]
            if got_ != want:
                k_ = next((i_ for i_ in range(min(len(got_), len(want))) if got_[i_] != want[i_]), min(len(got_), len(want)))
                bad_ = bad_ or 'the well-formed text %r is read as %d block(s)%s; written: %d' % (
                    text, len(got_), (', block %d shows %r where %r was written' % (
                        k_ + 1, {a_: got_[k_][a_] for a_ in want[k_] if got_[k_][a_] != want[k_][a_]}, {a_: want[k_][a_] for a_ in want[k_] if got_[k_][a_] != want[k_][a_]}))
                    if k_ < min(len(got_), len(want)) else '', len(want))
    if bad_ is None:
        rep.ok('C04.R7', fp.site, 'blocks in file order, each with what was written (interpreted texts)', '%d well-formed texts of one to three blocks' % len(docs))
    else:
        rep.fail('C04.R7', fp.site, 'blocks in file order, each with what was written (interpreted texts)', bad_, where=fp.where)


def check(src, rep, tier):
    rep.explanation = ('C04: the template of ChangeBlock._format (complete block) is extracted and cut at its newline literals into header line, '
                       'repeated change line, trailer line, repeated trailing line.  Header: capture agreement with topline for package/version/'
                       '" "+distributions, no ";" before the separator, items free of ",", each item (after strip) agrees with keyvalue, the '
                       'urgency value+comment agrees with value_re.  Trailer: agreement with endline for name/email/separator/date, default '
                       'separator two blanks.  Routing: in the abstract transition system of parse_changelog every well-formed line class '
                       'takes only warning-free transitions that store the line in the list _format emits it from; EOF after a trailer is clean.')
    rep.not_decided = ['Version objects of versions outside the interpreted family (C14 decides the language)', 'encodings other than str / UTF-8 bytes']
    rep.need('C04.R1', 18)
    rep.need('C04.R2', 3)
    rep.need('C04.R3', 10)
    rep.need('C04.R4', 6)
    alpha = rx.alphabet('str')

    def templ(rep):
        f, terms, raised = extract_block_template(src, rep, all_terms=True)
        return f, [cut_lines(term) for term in terms]
    rep.guard('C04.R1', r0_writer_order, src)
    from . import common
    rep.need('C04.R5', 1)
    rep.guard('C04.R5', common.check_line_primitive, src, 'C04.R5', [M + ':Changelog.parse_changelog'],
              'a change line that contains such a character is cut in two when the changelog is given as one text')
    # "the parsed blocks expose exactly the ... version ... written": the block hands the captured text to the Version class, which
    # must take every version of the Policy grammar and show it as written (the premise comes from C14's interpreted family)
    from . import C14
    rep.need('C04.R6', 2)
    rep.guard('C04.R6', C14.r4_family, src, tier, 'C04.R6', ('rej', 'comp'))
    rep.need('C04.R7', 1)
    n_v, n_e = len(rep.violations), len(rep.errors)
    rep.guard('C04.R7', r7_texts, src, tier)
    texts_hold = len(rep.violations) == n_v and len(rep.errors) == n_e
    # the template-level readings below are exact for ALL well-formed texts when the writer is in their vocabulary; when it is not, the
    # interpreted texts (C04.R7, C04.R6) decide
    soft = common.SoftErrors(rep, lambda: texts_hold, 'the interpreted well-formed texts (C04.R7), which hold')
    out = soft.guard('C04.R4', templ)
    if out is None:
        if texts_hold:
            for r_ in ('C04.R1', 'C04.R2', 'C04.R3', 'C04.R4'):
                rep.min_instances[r_] = 0
        return
    f, layouts = out
    lines = layouts[0]
    rep.guard('C04.R4', lambda r: r4_order(r, src, lines, f))
    for k_, extra in enumerate(layouts[1:]):
        # the writer has further layouts for a complete block, chosen by the stored content: each must have the same line structure
        rep.guard('C04.R4', lambda r, extra=extra, k_=k_: r4_layout(r, extra, f, ' (content-dependent layout %d)' % (k_ + 2)))
    if len(lines) >= 3 and lines[0][0] == 'line':
        rep.guard('C04.R1', lambda r: r1_header(r, src, f, lines[0][1], alpha))
    # (how the reader is written: a second opinion behind the interpreted texts, which include headings with many key=value items)
    common.SoftAll(rep, lambda: texts_hold, 'the interpreted well-formed texts (C04.R7), which are read as written').guard('C04.R1', r1b_reader_wiring, src)
    trailer = [t for k, t in lines if k == 'line'][1:2]
    te = None
    if trailer:
        te = rep.guard('C04.R2', lambda r: r2_trailer(r, src, f, trailer[0], alpha))

    def routing(r):
        model = Model(src, r)
        slots = {'self.package': L(alpha, PKG), 'self._raw_version': L(alpha, VER), 'self.distributions': L(alpha, DISTS),
                 'self.urgency': L(alpha, URG), 'self.urgency_comment': L(alpha, URGC), 'self.other_pairs[].0': L(alpha, KEY_SAFE),
                 'self.other_pairs[].1': L(alpha, VAL)}
        header_e = strlang.TBuilder(alpha, [], lambda p: slots[p], {}).lang(lines[0][1])
        r3_routing(r, src, model, header_e, te, alpha)
    if te is not None:
        soft.guard('C04.R3', routing)
    from . import common as _common_flags
    rep.guard('C04.R1', _common_flags.check_re_positional_flags, src, 'C04.R1', 'changelog', 'a heading with more key=value items than that exposes the rest as part of the last value')

"""C20 -- the debtags database keeps its two indexes mutually inverse."""
import ast

from ..core import AnalysisError, norm, walk_no_nested

META = {
    'design_ref': 'DESIGN.md §3 C20',
    'technique': 'abstract interpretation of every DB-constructing method over a relation algebra (R, inverse, key-restriction) with '
                 'dict/set ownership tags (same dict, shallow copy, fresh sets): paired-assignment obligation rdb = inverse(db) and an '
                 'ownership rule for set objects that insert() mutates in place; kind (refinement-type) inference PKG/TAG/CHAR/Set/Dict for '
                 'the stores; loop-shape rules for reverse(), insert() and the reader; index-role table for the query methods',
    'level_text': 'Static decision for every derivation method: assuming the receiver\'s indexes are inverse, the returned collection\'s '
                  'indexes are syntactically inverse relation expressions; no returned collection shares a set that a later insert() on it '
                  'or on its parent mutates in place unless both dictionaries are shared; all stores type-check under '
                  'db: Dict[PKG, Set[TAG]], rdb: Dict[TAG, Set[PKG]]; insert/reverse/reader add each (package, tag) pair to both sides.',
    'level_note': 'trusted: the abstract interpreter vocabulary (unknown statements are ANALYSIS-ERROR); pickle round trip and re-insertion '
                  'of an existing package are outside the property\'s domain',
}

M = 'debtags'


# ---- relation expressions ----------------------------------------------------------------------

def inv(x):
    if x[0] == 'inv':
        return x[1]
    if x == ('empty',):
        return x
    return ('inv', x)


def show(x):
    if x[0] == 'R':
        return 'R'
    if x[0] == 'inv':
        return 'inverse(%s)' % show(x[1])
    if x[0] == 'sub':
        return 'restrict(%s, %s)' % (show(x[1]), x[2])
    if x[0] == 'new':
        return 'N%s' % x[1]
    return x[0]


class RelVal:
    """a dict value: relation expression + identity of the dict object + family of its value sets"""

    def __init__(self, rel, dict_id, sets):
        self.rel, self.dict_id, self.sets = rel, dict_id, sets

    def __repr__(self):
        return '<%s dict=%s sets=%s>' % (show(self.rel), self.dict_id, self.sets)


class DBObj:
    def __init__(self, db, rdb, built_by_insert=False):
        self.db, self.rdb, self.built_by_insert = db, rdb, built_by_insert


class Interp:
    def __init__(self, src, rep):
        self.src = src
        self.rep = rep
        self.mod = src.mod(M)
        self.n = 0
        self.depth = 0

    def fresh(self, p):
        self.n += 1
        return '%s%d' % (p, self.n)

    def new_db(self):
        return DBObj(RelVal(('empty',), self.fresh('d'), 'fresh:' + self.fresh('s')), RelVal(('empty',), self.fresh('d'), 'fresh:' + self.fresh('s')))

    def call_method(self, obj, mname, node):
        f = self.mod.funcs.get('DB.' + mname)
        if f is None:
            raise AnalysisError('DB.%s not found' % mname)
        self.depth += 1
        if self.depth > 4:
            raise AnalysisError('call depth exceeded at DB.%s' % mname)
        try:
            return self.run_method(f, obj)
        finally:
            self.depth -= 1

    def run_method(self, f, selfobj):
        """returns the DBObj the method returns (or None)"""
        env = {'self': selfobj}
        for st in f.node.body:
            r = self.exec(st, env, f)
            if r is not None:
                return r[1]
        return None

    def ev(self, e, env, f):
        if isinstance(e, ast.Name):
            if e.id in env:
                return env[e.id]
            return ('opaque', e.id)
        if isinstance(e, ast.Attribute) and isinstance(e.value, ast.Name) and isinstance(env.get(e.value.id), DBObj) and e.attr in ('db', 'rdb'):
            return getattr(env[e.value.id], e.attr)
        if isinstance(e, ast.Dict) and not e.keys:
            return RelVal(('empty',), self.fresh('d'), 'fresh:' + self.fresh('s'))
        if isinstance(e, ast.Call):
            fn = e.func
            if isinstance(fn, ast.Name) and fn.id == 'DB' and not e.args:
                return self.new_db()
            if isinstance(fn, ast.Name) and fn.id == 'reverse' and len(e.args) == 1:
                x = self.ev(e.args[0], env, f)
                if isinstance(x, RelVal):
                    return RelVal(inv(x.rel), self.fresh('d'), 'fresh:' + self.fresh('s'))
            if isinstance(fn, ast.Name) and fn.id == 'read_tag_database_both_ways':
                base = ('new', self.fresh(''))
                return ('pair', RelVal(base, self.fresh('d'), 'fresh:' + self.fresh('s')), RelVal(inv(base), self.fresh('d'), 'fresh:' + self.fresh('s')))
            if isinstance(fn, ast.Attribute) and fn.attr == 'copy' and not e.args:
                x = self.ev(fn.value, env, f)
                if isinstance(x, RelVal):
                    return RelVal(x.rel, self.fresh('d'), x.sets)          # shallow: same set objects
                if isinstance(x, DBObj):
                    return self.call_method(x, 'copy', e)
            if isinstance(fn, ast.Attribute):
                x = self.ev(fn.value, env, f)
                if isinstance(x, DBObj) and ('DB.' + fn.attr) in self.mod.funcs:
                    r = self.call_method(x, fn.attr, e)
                    if r is not None:
                        return r
        if isinstance(e, ast.DictComp) and len(e.generators) == 1:
            g = e.generators[0]
            # {k: v.copy() for k, v in X.items()}  /  {k: set(v) ...}  /  {k: v for ...}
            it = g.iter
            if isinstance(it, ast.Call) and isinstance(it.func, ast.Attribute) and it.func.attr == 'items' and isinstance(g.target, ast.Tuple) \
                    and len(g.target.elts) == 2 and not g.ifs:
                x = self.ev(it.func.value, env, f)
                k, v = [norm(t) for t in g.target.elts]
                if isinstance(x, RelVal) and norm(e.key) == k:
                    if norm(e.value) in ('%s.copy()' % v, 'set(%s)' % v):
                        return RelVal(x.rel, self.fresh('d'), 'fresh:' + self.fresh('s'))
                    if norm(e.value) == v:
                        return RelVal(x.rel, self.fresh('d'), x.sets)
        return ('opaque', norm(e)[:40])

    def exec(self, st, env, f):
        if isinstance(st, ast.Expr) and isinstance(st.value, ast.Constant):
            return None
        if isinstance(st, ast.Return):
            v = self.ev(st.value, env, f) if st.value is not None else None
            return ('return', v if isinstance(v, DBObj) else None)
        if isinstance(st, ast.Assign) and len(st.targets) == 1:
            t = st.targets[0]
            v = self.ev(st.value, env, f)
            if isinstance(t, ast.Name):
                env[t.id] = v
                return None
            if isinstance(t, ast.Attribute) and isinstance(t.value, ast.Name) and isinstance(env.get(t.value.id), DBObj) and t.attr in ('db', 'rdb'):
                if not isinstance(v, RelVal):
                    raise AnalysisError('%s: %s is assigned a value outside the relation algebra: %s' % (f.site, norm(t), norm(st.value)[:50]))
                setattr(env[t.value.id], t.attr, v)
                return None
            if isinstance(t, ast.Tuple) and isinstance(v, tuple) and v and v[0] == 'pair' and len(t.elts) == 2:
                for tt, vv in zip(t.elts, v[1:]):
                    if isinstance(tt, ast.Attribute) and isinstance(env.get(norm(tt.value)), DBObj):
                        setattr(env[norm(tt.value)], tt.attr, vv)
                    elif isinstance(tt, ast.Name):
                        env[tt.id] = vv
                return None
            return None
        if isinstance(st, ast.For):
            return self.exec_for(st, env, f)
        if isinstance(st, (ast.AnnAssign,)):
            if isinstance(st.target, ast.Name) and st.value is not None:
                env[st.target.id] = self.ev(st.value, env, f)
            return None
        if isinstance(st, ast.Expr):
            return None
        raise AnalysisError('%s: statement outside the relation-algebra vocabulary: %s' % (f.site, norm(st)[:60]))

    def exec_for(self, st, env, f):
        """recognised loop idioms:
             for k in <keys>: [if k in S:] D[k] = S[k] | S[k].copy()         -> D = restrict(S)
             for ...: X.insert(pkg, tags)                                    -> X built by insert"""
        stores = [n for n in walk_no_nested(st) if isinstance(n, ast.Assign) and isinstance(n.targets[0], ast.Subscript)
                  and isinstance(n.targets[0].value, ast.Name)]
        inserts = [c for c in ast.walk(st) if isinstance(c, ast.Call) and isinstance(c.func, ast.Attribute) and c.func.attr == 'insert'
                   and isinstance(c.func.value, ast.Name) and isinstance(env.get(c.func.value.id), DBObj)]
        if inserts:
            env[inserts[0].func.value.id].built_by_insert = True
            return None
        if len(stores) == 1:
            s = stores[0]
            dname = s.targets[0].value.id
            key = norm(s.targets[0].slice)
            v = s.value
            copied = False
            if isinstance(v, ast.Call) and isinstance(v.func, ast.Attribute) and v.func.attr == 'copy' and not v.args:
                v = v.func.value
                copied = True
            elif isinstance(v, ast.Call) and norm(v.func) == 'set' and len(v.args) == 1:
                v = v.args[0]
                copied = True
            if isinstance(v, ast.Subscript) and norm(v.slice) == key:
                srcv = self.ev(v.value, env, f)
                cur = env.get(dname)
                if isinstance(srcv, RelVal) and isinstance(cur, RelVal) and cur.rel == ('empty',):
                    env[dname] = RelVal(('sub', srcv.rel, 'L%d' % st.lineno), cur.dict_id, ('fresh:' + self.fresh('s')) if copied else srcv.sets)
                    return None
        if not stores:
            return None
        raise AnalysisError('%s: loop at line %d is not a recognised dictionary-building idiom' % (f.site, st.lineno))


def base_self(it):
    return DBObj(RelVal(('R',), 'D_db', 'S_db'), RelVal(('inv', ('R',)), 'D_rdb', 'S_rdb'))


def r1_r5_derivations(rep, src):
    it = Interp(src, rep)
    m = src.mod(M)
    n = 0
    for q, f in sorted(m.funcs.items()):
        if not q.startswith('DB.') or '.' in q[3:] or '#' in q:
            continue
        # methods that construct and return a collection
        if not any(isinstance(r, ast.Return) and r.value is not None for r in ast.walk(f.node)):
            continue
        makes = any(isinstance(c, ast.Call) and norm(c.func) == 'DB' for c in ast.walk(f.node)) or \
            any(isinstance(r, ast.Return) and isinstance(r.value, ast.Call) and isinstance(r.value.func, ast.Attribute)
                and ('DB.' + r.value.func.attr) in m.funcs and norm(r.value.func.value).startswith('self') for r in ast.walk(f.node))
        if not makes:
            continue
        rep.saw_func(f)
        selfobj = base_self(it)
        it.depth = 0
        try:
            res = it.run_method(f, selfobj)
        except AnalysisError as e:
            rep.error('C20.R1', str(e))
            continue
        if res is None:
            continue
        n += 1
        where = f.where
        if res.built_by_insert:
            rep.ok('C20.R1', f.site, 'result indexes are inverse', 'built from an empty collection by insert() only (see C20.R3)')
            rep.ok('C20.R5', f.site, 'no shared mutable sets', 'fresh collection')
            continue
        want = inv(res.db.rel)
        if res.rdb.rel == want:
            rep.ok('C20.R1', f.site, 'result indexes are inverse', 'db = %s, rdb = %s' % (show(res.db.rel), show(res.rdb.rel)))
        else:
            rep.fail('C20.R1', f.site, 'result indexes are inverse', 'the returned collection has db = %s but rdb = %s (expected %s): the two '
                     'indexes describe different relations' % (show(res.db.rel), show(res.rdb.rel), show(want)), where=where)
        # ownership: insert() mutates rdb-role sets in place (on the result and on the receiver)
        same_dicts = {res.db.dict_id, res.rdb.dict_id} == {'D_db', 'D_rdb'}
        problems = []
        if not same_dicts:
            if res.db.sets == 'S_rdb' or res.rdb.sets == 'S_rdb':
                problems.append('it shares the receiver\'s tag→packages sets, which a later insert() on the receiver extends in place')
            if res.rdb.sets in ('S_db', 'S_rdb'):
                problems.append('its tag→packages index uses set objects of the receiver, which a later insert() on the result extends in place')
        doc = ast.get_docstring(f.node) or ''
        if problems:
            rep.fail('C20.R5', f.site, 'no shared mutable sets',
                     'the returned collection is a separate object but %s: after such an insert the other collection lists a package under a tag '
                     'without listing the tag for the package%s' % ('; '.join(problems), ' (the docstring promises a copy)' if 'copy' in doc.lower() and 'sharing' not in doc.lower() else ''),
                     where=where)
        else:
            rep.ok('C20.R5', f.site, 'no shared mutable sets', 'same dictionaries as the receiver' if same_dicts else
                   'db sets: %s, rdb sets: %s' % (res.db.sets.split(':')[0], res.rdb.sets.split(':')[0]))
    if n < 12:
        raise AnalysisError('only %d collection-returning methods analysed (12 confirmed on the pinned tree)' % n)
    # DB.read
    f = src.func(M + ':DB.read')
    t = norm(f.node)
    if 'self.db, self.rdb = read_tag_database_both_ways(' in t:
        rep.ok('C20.R1', f.site, 'read fills both indexes from one pass', 'self.db, self.rdb = read_tag_database_both_ways(...)', nontrivial=False)
    else:
        rep.fail('C20.R1', f.site, 'read fills both indexes from one pass', 'read() does not assign (db, rdb) from read_tag_database_both_ways in this order', where=f.where)


# ---- kinds -----------------------------------------------------------------------------------------

def kind_show(k):
    if isinstance(k, tuple):
        return '%s[%s]' % (k[0], ', '.join(kind_show(x) for x in k[1:]))
    return k


def r2_kinds(rep, src):
    """stores into self.db / self.rdb (and the local indexes of the module functions) type-check under
       db: Dict[PKG, Set[TAG]]   rdb: Dict[TAG, Set[PKG]]"""
    f = src.func(M + ':DB.insert')
    rep.saw_func(f)
    ps = f.params()
    env = {ps[1]: 'PKG', ps[2]: ('Set', 'TAG')}
    decl = {'self.db': ('Dict', 'PKG', ('Set', 'TAG')), 'self.rdb': ('Dict', 'TAG', ('Set', 'PKG'))}

    def kind(e, env):
        if isinstance(e, ast.Name):
            return env.get(e.id, 'UNKNOWN')
        if isinstance(e, ast.Call):
            fn = norm(e.func)
            if isinstance(e.func, ast.Attribute) and e.func.attr == 'copy' and not e.args:
                return kind(e.func.value, env)
            if fn in ('set', 'frozenset'):
                if not e.args:
                    return ('Set', 'BOTTOM')
                a = kind(e.args[0], env)
                if a in ('PKG', 'TAG', 'STR'):
                    return ('Set', 'CHAR')          # iterating a string yields its characters
                if isinstance(a, tuple) and a[0] in ('Set', 'List', 'Tuple'):
                    return ('Set', a[1])
                return ('Set', 'UNKNOWN')
        if isinstance(e, ast.Set):
            ks = {kind(x, env) for x in e.elts}
            return ('Set', ks.pop()) if len(ks) == 1 else ('Set', 'UNKNOWN')
        if isinstance(e, (ast.Tuple, ast.List)) and e.elts:
            ks = {kind(x, env) for x in e.elts}
            return ('Tuple' if isinstance(e, ast.Tuple) else 'List', ks.pop()) if len(ks) == 1 else ('Tuple', 'UNKNOWN')
        if isinstance(e, ast.Subscript) and norm(e.value) in decl:
            return decl[norm(e.value)][2]
        return 'UNKNOWN'

    def compatible(got, want):
        if got == want:
            return True
        if isinstance(got, tuple) and isinstance(want, tuple) and got[0] == want[0]:
            return got[1] in ('BOTTOM',) or got[1] == want[1]
        return False
    n = 0

    def walk(stmts, env):
        nonlocal n
        for st in stmts:
            if isinstance(st, ast.For) and isinstance(st.target, ast.Name):
                k = kind(st.iter, env)
                env2 = dict(env)
                env2[st.target.id] = k[1] if isinstance(k, tuple) and k[0] == 'Set' else 'UNKNOWN'
                walk(st.body, env2)
            elif isinstance(st, ast.If):
                walk(st.body, env)
                walk(st.orelse, env)
            elif isinstance(st, ast.Assign) and isinstance(st.targets[0], ast.Subscript) and norm(st.targets[0].value) in decl:
                d = decl[norm(st.targets[0].value)]
                kk, vk = kind(st.targets[0].slice, env), kind(st.value, env)
                n += 1
                what = norm(st)
                if kk != d[1]:
                    rep.fail('C20.R2', f.site, what, 'key of kind %s stored in %s: %s' % (kind_show(kk), norm(st.targets[0].value), kind_show(d)), where='%s:%d' % (f.module.relpath, st.lineno))
                elif not compatible(vk, d[2]):
                    rep.fail('C20.R2', f.site, what, '`%s` has kind %s where %s requires %s%s' % (norm(st.value), kind_show(vk), norm(st.targets[0].value), kind_show(d[2]),
                             ': set() of a string is the set of its characters, so a new tag lists the letters of the package name instead of the package'
                             if vk == ('Set', 'CHAR') else ''), where='%s:%d' % (f.module.relpath, st.lineno))
                else:
                    rep.ok('C20.R2', f.site, what, '%s : %s' % (norm(st.value), kind_show(vk)))
            elif isinstance(st, ast.Expr) and isinstance(st.value, ast.Call) and isinstance(st.value.func, ast.Attribute) \
                    and st.value.func.attr in ('add', 'update', 'discard') and isinstance(st.value.func.value, ast.Subscript) \
                    and norm(st.value.func.value.value) in decl:
                d = decl[norm(st.value.func.value.value)]
                kk = kind(st.value.func.value.slice, env)
                ak = kind(st.value.args[0], env)
                n += 1
                what = norm(st)
                want = d[2][1] if st.value.func.attr == 'add' else d[2]
                if kk != d[1] or not (ak == want or compatible(ak, want)):
                    rep.fail('C20.R2', f.site, what, 'adds a %s under a %s key of %s: %s' % (kind_show(ak), kind_show(kk), norm(st.value.func.value.value), kind_show(d)),
                             where='%s:%d' % (f.module.relpath, st.lineno))
                else:
                    rep.ok('C20.R2', f.site, what, 'adds %s under %s' % (kind_show(ak), kind_show(kk)))
    walk(f.node.body, env)
    if n < 3:
        raise AnalysisError('%s: only %d stores analysed' % (f.site, n))


def r3_pairs_added_to_both(rep, src):
    # insert: every tag of `tags` gets pkg on every path of the loop body
    f = src.func(M + ':DB.insert')
    ps = f.params()
    pkg, tags = ps[1], ps[2]
    loops = [s for s in f.node.body if isinstance(s, ast.For)]
    ok = False
    if len(loops) == 1 and norm(loops[0].iter) == tags and isinstance(loops[0].target, ast.Name):
        tv = loops[0].target.id
        b = loops[0].body
        if len(b) == 1 and isinstance(b[0], ast.If) and norm(b[0].test) in ('%s in self.rdb' % tv, '%s not in self.rdb' % tv):
            has, new = (b[0].body, b[0].orelse) if norm(b[0].test).find(' not in ') < 0 else (b[0].orelse, b[0].body)
            ok = any(norm(s) == 'self.rdb[%s].add(%s)' % (tv, pkg) for s in has) and \
                any(isinstance(s, ast.Assign) and norm(s.targets[0]) == 'self.rdb[%s]' % tv for s in new)
        elif any(norm(s).startswith('self.rdb.setdefault(%s' % tv) and norm(s).endswith('.add(%s)' % pkg) for s in b):
            ok = True
    first = [s for s in f.node.body if isinstance(s, ast.Assign) and norm(s.targets[0]) == 'self.db[%s]' % pkg]
    if ok and first and norm(first[0].value) in ('%s.copy()' % tags, 'set(%s)' % tags):
        rep.ok('C20.R3', f.site, 'insert adds every pair to both indexes', 'db[pkg] = tags.copy(); for tag in tags: rdb[tag] gets pkg on both branches')
    else:
        rep.fail('C20.R3', f.site, 'insert adds every pair to both indexes', 'insert() does not record each (package, tag) pair in both indexes', where=f.where)
    # reverse(): res[tag] gets pkg for every (pkg, tag)
    g = src.func(M + ':reverse')
    rep.saw_func(g)
    t = norm(g.node)
    outer = [s for s in g.node.body if isinstance(s, ast.For)]
    ok = False
    if len(outer) == 1 and isinstance(outer[0].target, ast.Tuple) and norm(outer[0].iter) == '%s.items()' % g.params()[0]:
        k, vs = [norm(x) for x in outer[0].target.elts]
        inner = [s for s in outer[0].body if isinstance(s, ast.For)]
        if len(inner) == 1 and norm(inner[0].iter) == vs and len(outer[0].body) == 1:
            e = norm(inner[0].target)
            body = inner[0].body
            adds = [s for s in body if norm(s) == 'res[%s].add(%s)' % (e, k)]
            inits = [s for s in body if isinstance(s, ast.If) and norm(s.test) == '%s not in res' % e and norm(s.body[0]) == 'res[%s] = set()' % e and not s.orelse]
            ok = len(adds) == 1 and len(inits) == 1 and body.index(inits[0]) < body.index(adds[0]) and len(body) == 2
    if ok and 'return res' in t:
        rep.ok('C20.R3', g.site, 'reverse() computes the inverse relation', 'for k, vs in db.items(): for v in vs: res[v].add(k)')
    else:
        rep.fail('C20.R3', g.site, 'reverse() computes the inverse relation', 'reverse() does not add each key under each of its values', where=g.where)
    # reader: the tag set stored for the packages and the tag set iterated for the reverse index are the same object
    h = src.func(M + ':read_tag_database_both_ways')
    rep.saw_func(h)
    loop = [s for s in h.node.body if isinstance(s, ast.For)]
    ok = False
    why = 'reader loop not recognised'
    if len(loop) == 1 and isinstance(loop[0].target, ast.Tuple):
        pk, tg = [norm(x) for x in loop[0].target.elts]
        inner = [s for s in loop[0].body if isinstance(s, ast.For)]
        dbl = [l for l in inner if any(isinstance(s, ast.Assign) and norm(s.targets[0]).startswith('db[') for s in l.body)]
        rdl = [l for l in inner if l not in dbl]
        if len(dbl) == 1 and len(rdl) == 1:
            stored = [s for s in dbl[0].body if isinstance(s, ast.Assign)][0]
            sv = stored.value
            sname = norm(sv.func.value) if isinstance(sv, ast.Call) and isinstance(sv.func, ast.Attribute) and sv.func.attr == 'copy' else norm(sv)
            iterated = norm(rdl[0].iter)
            pk_iter = norm(dbl[0].iter)
            adds = [s for s in ast.walk(rdl[0]) if isinstance(s, (ast.AugAssign, ast.Assign))]
            pk_used = all(pk in norm(s.value) for s in adds)
            if sname != iterated:
                why = 'the tag set stored for the packages (%s) is not the tag set whose tags are indexed (%s): with a tag filter the two indexes differ' % (sname, iterated)
            elif pk_iter != pk or not pk_used:
                why = 'the packages stored and the packages indexed differ'
            else:
                ok = True
    if ok:
        rep.ok('C20.R3', h.site, 'reader fills both indexes from the same sets', 'db[pkg] = T.copy() for pkg in P; dbr[tag] ∪= P for tag in T')
    else:
        rep.fail('C20.R3', h.site, 'reader fills both indexes from the same sets', why, where=h.where)


def r4_queries(rep, src):
    table = {'tags_of_package': 'db', 'has_package': 'db', 'package_count': 'db', 'iter_packages': 'db', 'iter_packages_tags': 'db',
             'packages_of_tag': 'rdb', 'has_tag': 'rdb', 'card': 'rdb', 'tag_count': 'rdb', 'iter_tags': 'rdb', 'iter_tags_packages': 'rdb'}
    for mname, idx in table.items():
        f = src.func(M + ':DB.' + mname)
        used = {n.attr for n in ast.walk(f.node) if isinstance(n, ast.Attribute) and norm(n.value) == 'self' and n.attr in ('db', 'rdb')}
        if used == {idx}:
            rep.ok('C20.R4', f.site, 'reads self.' + idx, 'ok', nontrivial=False)
        else:
            rep.fail('C20.R4', f.site, 'reads self.' + idx, '%s consults %s instead of self.%s' % (mname, sorted('self.' + u for u in used) or 'nothing', idx), where=f.where)
    f = src.func(M + ':DB.card')
    if 'len(self.rdb[%s])' % f.params()[1] in norm(f.node):
        rep.ok('C20.R4', f.site, 'cardinality = size of the package set', 'len(self.rdb[tag])', nontrivial=False)
    else:
        rep.fail('C20.R4', f.site, 'cardinality = size of the package set', 'card() is not the size of the tag\'s package set', where=f.where)


def check(src, rep, tier):
    rep.explanation = ('C20: every DB method that returns a collection is interpreted over a relation algebra: the receiver is (R, inverse(R)); '
                       'dictionary-building loops become key restrictions, reverse() becomes inverse, dict.copy() a shallow copy; at the return '
                       'the obligation rdb = inverse(db) is compared syntactically after normalisation (R1) and the ownership tags decide '
                       'whether a set that insert() extends in place is shared between two collections that do not share both dictionaries '
                       '(R5).  Kinds PKG/TAG/CHAR/Set/Dict are inferred for the stores of insert() (R2).  Loop-shape rules show that insert(), '
                       'reverse() and the reader add every (package, tag) pair to both sides from the same sets (R3).  Query methods read '
                       'the index of their role (R4).')
    rep.not_decided = ['re-insertion of an existing package', 'pickle round trip', 'equality with a reference relation for arbitrary histories']
    rep.need('C20.R1', 12)
    rep.need('C20.R2', 3)
    rep.need('C20.R3', 3)
    rep.need('C20.R4', 11)
    rep.need('C20.R5', 12)
    rep.guard('C20.R1', r1_r5_derivations, src)
    rep.guard('C20.R2', r2_kinds, src)
    rep.guard('C20.R3', r3_pairs_added_to_both, src)
    rep.guard('C20.R4', r4_queries, src)

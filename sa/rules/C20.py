"""C20 -- the debtags database keeps its two indexes mutually inverse."""
import ast

from ..core import AnalysisError, norm, walk_no_nested

META = {
    'design_ref': 'DESIGN.md §5 C20',
    'technique': 'abstract interpretation (sa.heap) of every collection-returning method, reverse(), insert() histories, the reader, read() into a non-empty collection and the queries (present and absent names, on read-built and derived collections, with a frame condition on both indexes) on a generic finite relation with a reference relation as oracle (content, rdb = inverse(db), identity of set objects for ownership); in addition interpretation over a relation algebra (R, inverse, restriction) which decides the paired-assignment obligation for all relations where the method is in its vocabulary; ownership of every set object of the receiver; re-insert histories; pairwise distinct set objects in what a reader builds; identity of the index dictionaries of every derived collection, also under filters that keep everything; inserts interpreted while a reverse() view shares the dictionaries (every live collection object keeps inverse indexes); a method that returns a collection it got from another method of the class is judged on the interpreted result; views of collections whose tag index is empty (a view shares both index dictionaries or none); queries over several names and the pair iterators interpreted twice on the generic relation: the answer of the reference relation, and both indexes -- every set in them -- as they were before; read / reverse / read / reverse: a view taken after a second read shows the collection as it is',
    'level_text': 'Static decision for every derivation method: assuming the receiver\'s indexes are inverse, the returned collection\'s '
                  'indexes are syntactically inverse relation expressions; no returned collection shares a set that a later insert() on it '
                  'or on its parent mutates in place unless both dictionaries are shared; all stores type-check under '
                  'db: Dict[PKG, Set[TAG]], rdb: Dict[TAG, Set[PKG]]; insert/reverse/reader add each (package, tag) pair to both sides.',
    'level_note': 'trusted: the abstract interpreter vocabulary (unknown statements are ANALYSIS-ERROR); pickle round trip and re-insertion '
                  'of an existing package are outside the property\'s domain',
}

M = 'debtags'


# ---- relation expressions ----------------------------------------------------------------------

def inv(x):
    if x[0] == 'inv':
        return x[1]
    if x == ('empty',):
        return x
    return ('inv', x)


def show(x):
    if x[0] == 'R':
        return 'R'
    if x[0] == 'inv':
        return 'inverse(%s)' % show(x[1])
    if x[0] == 'sub':
        return 'restrict(%s, %s)' % (show(x[1]), x[2])
    if x[0] == 'new':
        return 'N%s' % x[1]
    return x[0]


class RelVal:
    """a dict value: relation expression + identity of the dict object + family of its value sets"""

    def __init__(self, rel, dict_id, sets):
        self.rel, self.dict_id, self.sets = rel, dict_id, sets

    def __repr__(self):
        return '<%s dict=%s sets=%s>' % (show(self.rel), self.dict_id, self.sets)


class DBObj:
    def __init__(self, db, rdb, built_by_insert=False):
        self.db, self.rdb, self.built_by_insert = db, rdb, built_by_insert


class Interp:
    def __init__(self, src, rep):
        self.src = src
        self.rep = rep
        self.mod = src.mod(M)
        self.n = 0
        self.depth = 0

    def fresh(self, p):
        self.n += 1
        return '%s%d' % (p, self.n)

    def new_db(self):
        return DBObj(RelVal(('empty',), self.fresh('d'), 'fresh:' + self.fresh('s')), RelVal(('empty',), self.fresh('d'), 'fresh:' + self.fresh('s')))

    def call_method(self, obj, mname, node):
        f = self.mod.funcs.get('DB.' + mname)
        if f is None:
            raise AnalysisError('DB.%s not found' % mname)
        self.depth += 1
        if self.depth > 4:
            raise AnalysisError('call depth exceeded at DB.%s' % mname)
        try:
            return self.run_method(f, obj)
        finally:
            self.depth -= 1

    def run_method(self, f, selfobj):
        """returns the DBObj the method returns (or None)"""
        env = {'self': selfobj}
        for st in f.node.body:
            r = self.exec(st, env, f)
            if r is not None:
                return r[1]
        return None

    def ev(self, e, env, f):
        if isinstance(e, ast.Name):
            if e.id in env:
                return env[e.id]
            return ('opaque', e.id)
        if isinstance(e, ast.Attribute) and isinstance(e.value, ast.Name) and isinstance(env.get(e.value.id), DBObj) and e.attr in ('db', 'rdb'):
            return getattr(env[e.value.id], e.attr)
        if isinstance(e, ast.Dict) and not e.keys:
            return RelVal(('empty',), self.fresh('d'), 'fresh:' + self.fresh('s'))
        if isinstance(e, ast.Call):
            fn = e.func
            if isinstance(fn, ast.Name) and fn.id == 'DB' and not e.args:
                return self.new_db()
            if isinstance(fn, ast.Name) and fn.id == 'reverse' and len(e.args) == 1:
                x = self.ev(e.args[0], env, f)
                if isinstance(x, RelVal):
                    return RelVal(inv(x.rel), self.fresh('d'), 'fresh:' + self.fresh('s'))
            if isinstance(fn, ast.Name) and fn.id == 'read_tag_database_both_ways':
                base = ('new', self.fresh(''))
                return ('pair', RelVal(base, self.fresh('d'), 'fresh:' + self.fresh('s')), RelVal(inv(base), self.fresh('d'), 'fresh:' + self.fresh('s')))
            if isinstance(fn, ast.Attribute) and fn.attr == 'copy' and not e.args:
                x = self.ev(fn.value, env, f)
                if isinstance(x, RelVal):
                    return RelVal(x.rel, self.fresh('d'), x.sets)          # shallow: same set objects
                if isinstance(x, DBObj):
                    return self.call_method(x, 'copy', e)
            if isinstance(fn, ast.Attribute):
                x = self.ev(fn.value, env, f)
                if isinstance(x, DBObj) and ('DB.' + fn.attr) in self.mod.funcs:
                    r = self.call_method(x, fn.attr, e)
                    if r is not None:
                        return r
        if isinstance(e, ast.DictComp) and len(e.generators) == 1:
            g = e.generators[0]
            # {k: v.copy() for k, v in X.items()}  /  {k: set(v) ...}  /  {k: v for ...}
            it = g.iter
            if isinstance(it, ast.Call) and isinstance(it.func, ast.Attribute) and it.func.attr == 'items' and isinstance(g.target, ast.Tuple) \
                    and len(g.target.elts) == 2 and not g.ifs:
                x = self.ev(it.func.value, env, f)
                k, v = [norm(t) for t in g.target.elts]
                if isinstance(x, RelVal) and norm(e.key) == k:
                    if norm(e.value) in ('%s.copy()' % v, 'set(%s)' % v):
                        return RelVal(x.rel, self.fresh('d'), 'fresh:' + self.fresh('s'))
                    if norm(e.value) == v:
                        return RelVal(x.rel, self.fresh('d'), x.sets)
        return ('opaque', norm(e)[:40])

    def exec(self, st, env, f):
        if isinstance(st, ast.Expr) and isinstance(st.value, ast.Constant):
            return None
        if isinstance(st, ast.Return):
            v = self.ev(st.value, env, f) if st.value is not None else None
            return ('return', v if isinstance(v, DBObj) else None)
        if isinstance(st, ast.Assign) and len(st.targets) == 1:
            t = st.targets[0]
            v = self.ev(st.value, env, f)
            if isinstance(t, ast.Name):
                env[t.id] = v
                return None
            if isinstance(t, ast.Attribute) and isinstance(t.value, ast.Name) and isinstance(env.get(t.value.id), DBObj) and t.attr in ('db', 'rdb'):
                if not isinstance(v, RelVal):
                    raise AnalysisError('%s: %s is assigned a value outside the relation algebra: %s' % (f.site, norm(t), norm(st.value)[:50]))
                setattr(env[t.value.id], t.attr, v)
                return None
            if isinstance(t, ast.Tuple) and isinstance(v, tuple) and v and v[0] == 'pair' and len(t.elts) == 2:
                for tt, vv in zip(t.elts, v[1:]):
                    if isinstance(tt, ast.Attribute) and isinstance(env.get(norm(tt.value)), DBObj):
                        setattr(env[norm(tt.value)], tt.attr, vv)
                    elif isinstance(tt, ast.Name):
                        env[tt.id] = vv
                return None
            return None
        if isinstance(st, ast.For):
            return self.exec_for(st, env, f)
        if isinstance(st, (ast.AnnAssign,)):
            if isinstance(st.target, ast.Name) and st.value is not None:
                env[st.target.id] = self.ev(st.value, env, f)
            return None
        if isinstance(st, ast.Expr):
            return None
        raise AnalysisError('%s: statement outside the relation-algebra vocabulary: %s' % (f.site, norm(st)[:60]))

    def exec_for(self, st, env, f):
        """recognised loop idioms:
             for k in <keys>: [if k in S:] D[k] = S[k] | S[k].copy()         -> D = restrict(S)
             for ...: X.insert(pkg, tags)                                    -> X built by insert"""
        stores = [n for n in walk_no_nested(st) if isinstance(n, ast.Assign) and isinstance(n.targets[0], ast.Subscript)
                  and isinstance(n.targets[0].value, ast.Name)]
        inserts = [c for c in ast.walk(st) if isinstance(c, ast.Call) and isinstance(c.func, ast.Attribute) and c.func.attr == 'insert'
                   and isinstance(c.func.value, ast.Name) and isinstance(env.get(c.func.value.id), DBObj)]
        if inserts:
            env[inserts[0].func.value.id].built_by_insert = True
            return None
        if len(stores) == 1:
            s = stores[0]
            dname = s.targets[0].value.id
            key = norm(s.targets[0].slice)
            v = s.value
            copied = False
            if isinstance(v, ast.Call) and isinstance(v.func, ast.Attribute) and v.func.attr == 'copy' and not v.args:
                v = v.func.value
                copied = True
            elif isinstance(v, ast.Call) and norm(v.func) == 'set' and len(v.args) == 1:
                v = v.args[0]
                copied = True
            if isinstance(v, ast.Subscript) and norm(v.slice) == key:
                srcv = self.ev(v.value, env, f)
                cur = env.get(dname)
                if isinstance(srcv, RelVal) and isinstance(cur, RelVal) and cur.rel == ('empty',):
                    env[dname] = RelVal(('sub', srcv.rel, 'L%d' % st.lineno), cur.dict_id, ('fresh:' + self.fresh('s')) if copied else srcv.sets)
                    return None
        if not stores:
            return None
        raise AnalysisError('%s: loop at line %d is not a recognised dictionary-building idiom' % (f.site, st.lineno))


def base_self(it):
    return DBObj(RelVal(('R',), 'D_db', 'S_db'), RelVal(('inv', ('R',)), 'D_rdb', 'S_rdb'))


GEN = {'pkg-one': {'role::a', 'role::b'}, 'pkg-two': {'role::b'}, 'pkg-three': {'role::b', 'use::c'}, 'pkg-none': set(), 'pkg-five': {'use::d', 'plain'}}     # 'plain': a tag without facet separator
KEEP_P = {'pkg-one', 'pkg-three', 'pkg-none'}
KEEP_T = {'role::a', 'use::c', 'role::zzz'}


def _inverse(db):
    out = {}
    for k, vs in db.items():
        for v in vs:
            out.setdefault(v, set()).add(k)
    return out


def _world(src, db=None):
    from .. import heap as H
    heap = H.Heap(src.mod(M))
    heap.symbolic_strings = True
    heap.native_regex = True
    heap.hooks['function_deprecated_by'] = lambda it, a, k: a[0]
    me = heap.alloc('DB', {}, name='@db')
    d, r = heap.new_dict('@db.db'), heap.new_dict('@db.rdb')
    rel = GEN if db is None else db
    for k, vs in rel.items():
        heap.objs[d.name]['entries'].append((k, set(vs)))
    for k, vs in _inverse(rel).items():
        heap.objs[r.name]['entries'].append((k, set(vs)))
    heap.objs[me.name]['db'] = d
    heap.objs[me.name]['rdb'] = r
    return heap, H.Interp(heap), me


def _plain(heap, dref):
    """heap dict of sets -> python dict (key -> frozenset), plus the set objects"""
    from .. import heap as H
    if not (isinstance(dref, H.Ref) and heap.objs[dref.name]['__class__'] == 'dict'):
        return None, []
    out, objs = {}, []
    for k, v in heap.objs[dref.name]['entries']:
        out[k] = frozenset(v) if isinstance(v, (set, frozenset)) else v
        objs.append(v)
    return out, objs


def r6_generic_relation(rep, src, tier='quick'):
    global GEN
    base = GEN
    rels = [('', base)]
    if tier == 'thorough':
        rels += [(' [empty collection]', {}), (' [single pair]', {'pkg-one': {'role::a'}}),
                 (' [one tag shared by all]', {'pkg-one': {'use::c'}, 'pkg-two': {'use::c'}, 'pkg-three': {'use::c'}}),
                 (' [only untagged packages]', {'pkg-one': set(), 'pkg-none': set()}),
                 (' [dense]', {p_: {'role::a', 'role::b', 'use::c', 'use::d'} for p_ in ('pkg-one', 'pkg-two', 'pkg-three', 'pkg-five')})]
    try:
        for label, rel in rels:
            GEN = rel
            _r6(rep, src, label, label == '')
    finally:
        GEN = base


def _r6(rep, src, label, full):
    """every collection-returning method of DB, the module functions and insert() interpreted on a generic finite relation
    (packages with several / shared / no tags, multi-character names, filters that keep some, drop all users of a tag, and name
    absent keys).  Checked against a reference computed here: the content of the result, `rdb = inverse(db)` (no tag without
    packages), and -- for the methods documented as copying -- that no set object of the result is one of the receiver's."""
    from .. import heap as H
    m = src.mod(M)

    def arg_for(pname):
        if pname in ('package_filter', 'filter_data'):
            return ('hook', 'PF')
        if pname == 'tag_filter':
            return ('hook', 'TF')
        if pname == 'package_iter':
            return [p_ for p_ in ('pkg-one', 'pkg-three', 'pkg-none') if p_ in GEN] + ['pkg-absent']      # a name the collection does not hold is skipped
        if pname == 'package_tag_filter':
            return ('hook', 'PTF')
        return None
    spec = {
        'copy': lambda: dict(GEN), 'reverse': lambda: _inverse(GEN), 'reverse_copy': lambda: _inverse(GEN),
        'choose_packages': lambda: {p: GEN[p] for p in GEN if p in KEEP_P}, 'choose_packages_copy': lambda: {p: GEN[p] for p in GEN if p in KEEP_P},
        'filter_packages': lambda: {p: GEN[p] for p in GEN if p in KEEP_P}, 'filter_packages_copy': lambda: {p: GEN[p] for p in GEN if p in KEEP_P},
        'filter_packages_tags': lambda: {p: GEN[p] for p in GEN if p in KEEP_P and GEN[p]}, 'filter_packages_tags_copy': lambda: {p: GEN[p] for p in GEN if p in KEEP_P and GEN[p]},
        'filter_tags': lambda: _inverse({t: ps for t, ps in _inverse(GEN).items() if t in KEEP_T}),
        'filter_tags_copy': lambda: _inverse({t: ps for t, ps in _inverse(GEN).items() if t in KEEP_T}),
        'facet_collection': lambda: {p: {t.split(':')[0] for t in ts} for p, ts in GEN.items()},
    }
    n = 0
    for q, f in sorted(m.funcs.items()):
        if not q.startswith('DB.') or '.' in q[3:] or '#' in q or q[3:].startswith('_'):
            continue
        def rooted_at_self(e):
            # self.a(...)  /  self.a(...).b(...)  /  self.x.a(...)
            while isinstance(e, (ast.Call, ast.Attribute)):
                e = e.func if isinstance(e, ast.Call) else e.value
            return isinstance(e, ast.Name) and e.id == 'self'
        strict = any(isinstance(c, ast.Call) and (norm(c.func) in ('DB', 'self.__class__', 'type(self)') or (
            isinstance(c.func, ast.Attribute) and norm(c.func.value) in ('DB', 'self.__class__', 'type(self)', 'cls') and ('DB.' + c.func.attr) in m.funcs))
                     for c in ast.walk(f.node)) or \
            any(isinstance(r_, ast.Return) and isinstance(r_.value, ast.Call) and isinstance(r_.value.func, ast.Attribute)
                and rooted_at_self(r_.value.func.value) and ('DB.' + r_.value.func.attr) in m.funcs for r_ in ast.walk(f.node))
        # ... or a method that calls another method of the collection and returns a name (res = self.filter_tags(f); ...; return res):
        # whether it hands out a collection is seen from the interpreted result
        wide = any(isinstance(c, ast.Call) and isinstance(c.func, ast.Attribute) and rooted_at_self(c.func.value) and ('DB.' + c.func.attr) in m.funcs
                   for c in ast.walk(f.node)) and any(isinstance(r_, ast.Return) and isinstance(r_.value, ast.Name) for r_ in ast.walk(f.node))
        if not strict and not wide:
            continue
        mname = q[3:]
        args = [arg_for(p_) for p_ in f.params()[1:]]
        if any(a_ is None for a_ in args):
            if not strict:
                continue
            raise AnalysisError('%s: no generic argument for the parameters %s' % (f.site, f.params()[1:]))
        rep.saw_func(f)
        heap, it, me = _world(src)
        heap.hooks['PF'] = lambda it_, a, k: a[0] in KEEP_P
        heap.hooks['TF'] = lambda it_, a, k: a[0] in KEEP_T
        heap.hooks['PTF'] = lambda it_, a, k: a[0][0] in KEEP_P and bool(a[0][1])
        args = [heap.new_list(a_) if isinstance(a_, list) else a_ for a_ in args]
        _, own_sets = _plain(heap, heap.objs[me.name]['db'])
        _, own_rsets = _plain(heap, heap.objs[me.name]['rdb'])
        try:
            res = it.call(H.Closure(f.node, {}, me, f.cls), args)
        except H.Raised as x:
            rep.fail('C20.R1', f.site, 'result indexes are inverse', 'raises %s (line %d) on the generic relation' % (x.exc, x.lineno), where=f.where)
            continue
        except AnalysisError as e_:
            rep.error('C20.R1', '%s: %s' % (f.site, e_))
            continue
        if not (isinstance(res, H.Ref) and heap.objs[res.name]['__class__'] == 'DB'):
            continue
        n += 1
        db, dsets = _plain(heap, heap.objs[res.name].get('db'))
        rdb, rsets = _plain(heap, heap.objs[res.name].get('rdb'))
        what = 'result indexes are inverse' + label
        if db is None or rdb is None:
            rep.fail('C20.R1', f.site, what, 'the returned collection has no db/rdb dictionaries', where=f.where)
            continue
        inv_ = {k: frozenset(v) for k, v in _inverse(db).items()}
        pairs_r = {(t, p_) for t, ps_ in rdb.items() for p_ in ps_}
        pairs_d = {(t, p_) for p_, ts_ in db.items() for t in ts_}
        letters = [t for t, p_ in pairs_r - pairs_d if len(p_) == 1]
        via_insert = any(isinstance(c, ast.Call) and isinstance(c.func, ast.Attribute) and c.func.attr == 'insert' for c in ast.walk(f.node))
        empties = [t for t, ps_ in rdb.items() if not ps_]
        exploded = all(set(p_) <= set(rdb.get(t, ())) for t, p_ in pairs_d - pairs_r)
        if via_insert and letters and exploded:
            # the collection is built through insert(): its new-tag entries show the character-set defect of insert()
            ins_ = src.func(M + ':DB.insert')
            rep.fail('C20.R2', ins_.site, 'a new tag lists the package itself',
                     'the collection built by %s through insert() lists %s under the tag %r instead of the packages: set() of a string is the set of its characters'
                     % (mname, sorted(rdb[letters[0]])[:6], letters[0]), where=ins_.where)
        elif pairs_r != pairs_d or (empties and mname not in ('reverse', 'reverse_copy', 'copy')):
            diff = sorted(pairs_r ^ pairs_d)[:3] or empties[:3]
            rep.fail('C20.R1', f.site, what, 'on the generic relation the returned collection has db = %s but rdb = %s: the two indexes describe different relations (differing at %s)'
                     % ({k: sorted(v) for k, v in db.items()}, {k: sorted(v) for k, v in rdb.items()}, diff[:3]), where=f.where)
        else:
            rep.ok('C20.R1', f.site, what, 'rdb = inverse(db) on the generic relation (%d packages, %d tags in the result)' % (len(db), len(rdb)))
        if mname in spec:
            want = {k: frozenset(v) for k, v in spec[mname]().items()}
            if db != want:
                rep.fail('C20.R1', f.site, 'result content' + label, '%s returns the packages/tags %s; documented result: %s' % (mname, {k: sorted(v) for k, v in db.items()}, {k: sorted(v) for k, v in want.items()}), where=f.where)
            else:
                rep.ok('C20.R1', f.site, 'result content' + label, 'as documented')
        # ownership of the set objects
        shared_r = [s_ for s_ in rsets if any(s_ is o for o in own_sets + own_rsets)]
        shared_d = [s_ for s_ in dsets if any(s_ is o for o in own_rsets + own_sets)]
        same_dicts = {heap.objs[res.name]['db'].name, heap.objs[res.name]['rdb'].name} == {'@db.db', '@db.rdb'}
        doc = (ast.get_docstring(f.node) or '').lower()
        if (shared_r or shared_d) and not same_dicts:
            rep.fail('C20.R5', f.site, 'no shared mutable sets',      # (the same finding on every relation: no label in the key)
                     'the returned collection is a separate object but its %s index uses set objects of the receiver, which a later insert() on either collection%s '
                     'extends in place: afterwards one collection lists a package under a tag without listing the tag for the package%s'
                     % ('tag→packages' if shared_r else 'package→tags', '' if shared_r else ' through its reverse() view',
                        ' (the docstring promises a copy)' if 'copy' in doc and 'sharing' not in doc else ''), where=f.where)
        else:
            rep.ok('C20.R5', f.site, 'no shared mutable sets' + label, 'same dictionaries as the receiver' if same_dicts else 'no set object that insert() mutates is shared')
        # an index *dictionary* of the receiver in a result that is not the receiver's own pair of dictionaries (a view): an insert into
        # either collection then changes one index of the other and not its inverse -- also when the filter keeps everything
        runs = [('', res)]
        if any(isinstance(a_, tuple) and a_ and a_[0] == 'hook' for a_ in args):
            heap2, it2, me2 = _world(src)
            for hk_ in ('PF', 'TF', 'PTF'):
                heap2.hooks[hk_] = lambda it_, a, k: True
            try:
                runs.append((' (a filter that keeps everything)', (heap2, it2.call(H.Closure(f.node, {}, me2, f.cls), [heap2.new_list(a_) if isinstance(a_, list) else a_ for a_ in
                                                                                                            [arg_for(p_) for p_ in f.params()[1:]]]))))
            except (H.Raised, AnalysisError):
                pass
        for lab2, r2 in runs:
            hp_, rr_ = (heap, r2) if lab2 == '' else r2
            if not (isinstance(rr_, H.Ref) and hp_.objs[rr_.name]['__class__'] == 'DB'):
                continue
            names_ = [hp_.objs[rr_.name][k_].name for k_ in ('db', 'rdb') if isinstance(hp_.objs[rr_.name].get(k_), H.Ref)]
            of_receiver = [n_ for n_ in names_ if n_ in ('@db.db', '@db.rdb')]
            what_d = 'index dictionaries are the result\'s own or the receiver\'s pair' + lab2
            if len(of_receiver) == 1 or (len(of_receiver) == 2 and len(set(names_)) == 1):
                rep.fail('C20.R5', f.site, 'no index dictionary shared with the receiver' + lab2,
                         'the returned collection has a dictionary of its own for one index and the receiver\'s %s for the other: insert() on either collection changes that index of '
                         'both, and the index that is not shared no longer matches it' % of_receiver[0], where=f.where)
            else:
                rep.ok('C20.R5', f.site, what_d, 'none' if not of_receiver else 'both (a view)', nontrivial=False)
    if n < 12:
        raise AnalysisError('only %d collection-returning methods interpreted (12 confirmed on the pinned tree)' % n)
    if not full:
        return
    # module-level reverse()
    g = src.func(M + ':reverse')
    rep.saw_func(g)
    heap, it, me = _world(src)
    try:
        r_ = it.call(H.Closure(g.node, {}, None, None), [heap.objs[me.name]['db']])
        got, _s = _plain(heap, r_)
        want = {k: frozenset(v) for k, v in _inverse(GEN).items()}
        if got == want:
            rep.ok('C20.R3', g.site, 'reverse() computes the inverse relation', 'on the generic relation')
        else:
            rep.fail('C20.R3', g.site, 'reverse() computes the inverse relation', 'reverse() gives %s instead of %s' % (got, want), where=g.where)
    except H.Raised as x:
        rep.fail('C20.R3', g.site, 'reverse() computes the inverse relation', 'raises %s' % x.exc, where=g.where)
    # insert(): histories on an empty and on a filled collection
    ins = src.func(M + ':DB.insert')
    rep.saw_func(ins)
    for start, label in (({}, 'an empty collection'), (GEN, 'the generic collection')):
        heap, it, me = _world(src, start)
        hist = [('pkg-new', {'role::b', 'x::new'}), ('pkg-other', {'x::new'})]
        ok = True
        try:
            for pkg, tags in hist:
                it.call(H.Closure(ins.node, {}, me, ins.cls), [pkg, set(tags)])
        except H.Raised as x:
            rep.fail('C20.R3', ins.site, 'insert adds every pair to both indexes (%s)' % label, 'raises %s' % x.exc, where=ins.where)
            continue
        db, _a = _plain(heap, heap.objs[me.name]['db'])
        rdb, _b = _plain(heap, heap.objs[me.name]['rdb'])
        want_db = {k: frozenset(v) for k, v in dict(start, **{p_: t_ for p_, t_ in hist}).items()}
        want_rdb = {k: frozenset(v) for k, v in _inverse(want_db).items()}
        if db != want_db:
            rep.fail('C20.R3', ins.site, 'insert adds every pair to both indexes (%s)' % label, 'after inserting %s the package index is %s' % (hist, db), where=ins.where)
        elif rdb == want_rdb:
            rep.ok('C20.R3', ins.site, 'insert adds every pair to both indexes (%s)' % label, 'both indexes hold the new pairs')
        else:
            bad_tags = sorted(t for t in want_rdb if rdb.get(t) != want_rdb[t])
            letters = [t for t in bad_tags if rdb.get(t) is not None and any(len(x) == 1 for x in rdb[t])]
            if letters:
                # the tag→packages entry of a NEW tag holds the characters of the package name
                rep.fail('C20.R2', ins.site, 'a new tag lists the package itself',
                         'after insert(%r, ...) on %s the new tag %r lists %s instead of the package: set() of a string is the set of its characters'
                         % (hist[0][0], label, letters[0], sorted(rdb[letters[0]])[:6]), where=ins.where)
            others = [t for t in bad_tags if t not in letters]
            if others:
                rep.fail('C20.R3', ins.site, 'insert adds every pair to both indexes (%s)' % label,
                         'after the inserts the tag index differs from the inverse of the package index at %s: %s vs %s' % (others[:3], {t: sorted(rdb.get(t, [])) for t in others[:3]},
                                                                                                                         {t: sorted(want_rdb.get(t, [])) for t in others[:3]}), where=ins.where)
            elif letters:
                rep.ok('C20.R3', ins.site, 'insert adds every pair to both indexes (%s)' % label, 'apart from the character-set entry reported under C20.R2', nontrivial=False)
    # insert() of a package the collection already holds replaces its tags: the tags it lost no longer list it (and a tag nobody
    # carries any more is gone), on the collection as read and on a derived one
    for derived in (False, True):
        for pkg, tags in (('pkg-one', {'role::b'}), ('pkg-three', set()), ('pkg-one', {'role::a', 'role::b', 'use::c'})):
            heap, it, me = _world(src)
            target, wlabel, rel = me, 'the generic collection', dict(GEN)
            what = 're-insert replaces the tags of a package (%s ← %s%s)' % (pkg, sorted(tags), ', derived collection' if derived else '')
            try:
                if derived:
                    ch_ = src.func(M + ':DB.filter_packages_copy')
                    heap.hooks['ALL'] = lambda it_, a, k: True
                    target = it.call(H.Closure(ch_.node, {}, me, ch_.cls), [('hook', 'ALL')])
                it.call(H.Closure(ins.node, {}, target, ins.cls), [pkg, set(tags)])
            except H.Raised as x:
                rep.fail('C20.R3', ins.site, what, 'raises %s (line %d)' % (x.exc, x.lineno), where=ins.where)
                continue
            db, _a = _plain(heap, heap.objs[target.name]['db'])
            rdb, _b = _plain(heap, heap.objs[target.name]['rdb'])
            rel[pkg] = set(tags)
            want_db = {k: frozenset(v) for k, v in rel.items()}
            want_rdb = {k: frozenset(v) for k, v in _inverse(rel).items()}
            if db == want_db and rdb == want_rdb:
                rep.ok('C20.R3', ins.site, what, 'both indexes hold exactly the new pairs')
            else:
                stale = sorted(t for t in rdb if rdb[t] != want_rdb.get(t))
                rep.fail('C20.R3', ins.site, what, 'after insert(%r, %s) on a collection that already holds %s with the tags %s the tag index still has %s (the inverse of the '
                         'package index has %s): the package stays listed under tags it no longer carries' % (pkg, sorted(tags), pkg, sorted(GEN[pkg]),
                                                                                                     {t: sorted(rdb[t]) for t in stale[:3]}, {t: sorted(want_rdb.get(t, [])) for t in stale[:3]}),
                         where=ins.where)
    # a reverse() view is alive while one of the two collections is changed: the view shares its dictionaries with the collection, so
    # every live collection object must still have mutually inverse indexes afterwards (an insert that re-binds one of its own
    # dictionaries instead of updating it leaves the other object with one old and one new index)
    rev = src.func(M + ':DB.reverse')
    # (also on a collection whose packages have no tags yet -- its tag index is the EMPTY dictionary, which a view must share like any other)
    TAGLESS = {'pkg-one': set(), 'pkg-two': set()}
    for world, through_view, pkg, tags in ((None, False, 'pkg-one', {'role::b'}), (None, False, 'pkg-new', {'role::b', 'x::new'}), (None, False, 'pkg-three', set()),
                                           (None, True, 'role::b', {'pkg-one'}), (None, True, 'x::new', {'pkg-two', 'pkg-three'}),
                                           (TAGLESS, True, 'role::b', {'pkg-one'}), (TAGLESS, True, 'role::b', {'pkg-one', 'pkg-two'}), (TAGLESS, False, 'pkg-two', set()),
                                           ({}, True, 'role::b', set())):
        if not all(p_ in GEN for p_ in ('pkg-one', 'pkg-two', 'pkg-three')):
            break
        heap, it, me = _world(src, db=world)
        what = 'insert(%s, %s) %s while a reverse() view of the collection is alive%s' % (
            pkg, sorted(tags), 'through the view' if through_view else 'into the collection',
            '' if world is None else ' (a collection of packages without tags)' if world else ' (the empty collection)')
        try:
            view = it.call(H.Closure(rev.node, {}, me, rev.cls), [])
            vo_, mo_ = heap.objs[view.name], heap.objs[me.name]
            if not all(isinstance(o_.get(k_), H.Ref) for o_ in (vo_, mo_) for k_ in ('db', 'rdb')):
                raise AnalysisError('%s: the view has no db / rdb dictionaries' % rev.site)
            halves = [k_ for k_, j_ in (('db', 'rdb'), ('rdb', 'db')) if vo_[k_].name != mo_[j_].name]
            if len(halves) == 1:
                # one index shared, one not: whatever is inserted next reaches only half of the other object
                rep.fail('C20.R3', rev.site, 'reverse() shares both index dictionaries or none%s' % ('' if world is None else ' (packages without tags)' if world else ' (empty collection)'),
                         'the view\'s %s is a dictionary of its own while its other index is the collection\'s: the next insert on either object updates one index of the '
                         'other object and not its inverse (an EMPTY index of the collection is replaced by a new dictionary -- `x or {}` treats the empty dictionary as absent)'
                         % ('package index' if halves[0] == 'db' else 'tag index'), where=rev.where)
                continue
            it.call(H.Closure(ins.node, {}, view if through_view else me, ins.cls), [pkg, set(tags)])
        except H.Raised as x:
            rep.fail('C20.R3', ins.site, what, 'raises %s (line %d)' % (x.exc, x.lineno), where=ins.where)
            continue
        bad = None
        for who, obj in (('the collection', me), ('the view', view)):
            d_, _a = _plain(heap, heap.objs[obj.name]['db'])
            r_, _b = _plain(heap, heap.objs[obj.name]['rdb'])
            pd = {(p_, t_) for p_, ts_ in (d_ or {}).items() for t_ in ts_}
            pr = {(p_, t_) for t_, ps_ in (r_ or {}).items() for p_ in ps_}
            # (the character-set entry of a NEW tag is the known defect reported under C20.R2: pairs whose package is one character)
            exploded = {c_ for x in pd | pr for c_, o_ in ((x[0], x[1]), (x[1], x[0])) if len(o_) == 1}       # names listed with single characters
            diff = {x for x in pd ^ pr if not (x[0] in exploded or x[1] in exploded)}
            if diff and bad is None:
                bad = '%s lists %s in one index only (%s)' % (who, sorted(diff)[:3], 'package index' if sorted(diff)[0] in pd else 'tag index')
        if bad:
            rep.fail('C20.R3', ins.site, what, 'afterwards %s: the two collection objects share their dictionaries, and an index that is re-bound on one side is a different '
                     'dictionary from the one the other side still reads' % bad, where=ins.where)
        else:
            rep.ok('C20.R3', ins.site, what, 'the collection and the view both have mutually inverse indexes')
    # the reader: both indexes from one pass, with and without a tag filter
    h = src.func(M + ':read_tag_database_both_ways')
    rep.saw_func(h)
    lines = ['pkg-one, pkg-two: role::b\n', 'pkg-one: role::a, role::b\n', 'pkg-none\n', 'pkg-three: role::b, use::c\n', '\n', 'pkg-four, pkg-five: use::d, role::zzz\n']
    for with_filter in (False, True):
        heap, it, me = _world(src)
        heap.hooks['TF'] = lambda it_, a, k: a[0] in KEEP_T
        what = 'reader fills both indexes from the same sets%s' % (' (with a tag filter)' if with_filter else '')
        try:
            r_ = it.call(H.Closure(h.node, {}, None, None), [heap.new_list(list(lines)), ('hook', 'TF') if with_filter else None])
        except H.Raised as x:
            rep.fail('C20.R3', h.site, what, 'raises %s (line %d)' % (x.exc, x.lineno), where=h.where)
            continue
        pair = it.seq(r_)
        db, _a = _plain(heap, pair[0])
        rdb, _b = _plain(heap, pair[1])
        ref = {'pkg-one': {'role::a', 'role::b'}, 'pkg-two': {'role::b'}, 'pkg-none': set(), 'pkg-three': {'role::b', 'use::c'},
               'pkg-four': {'use::d', 'role::zzz'}, 'pkg-five': {'use::d', 'role::zzz'}}
        if with_filter:
            ref = {p_: {t for t in ts if t in KEEP_T} for p_, ts in ref.items()}
        want_db = {k: frozenset(v) for k, v in ref.items()}
        want_rdb = {k: frozenset(v) for k, v in _inverse(ref).items()}
        # every entry of either index owns its set: a line that lists several packages (or several tags) must not leave one set
        # object under several keys -- the derived views (reverse()) update such sets in place
        shared = None
        for idx_name, d_ in (('package', pair[0]), ('tag', pair[1])):
            ent_ = heap.objs[d_.name]['entries'] if isinstance(d_, H.Ref) and heap.objs[d_.name]['__class__'] == 'dict' else []
            seen_ = {}
            for k_, v_ in ent_:
                if isinstance(v_, set) and id(v_) in seen_ and shared is None:
                    shared = (idx_name, seen_[id(v_)], k_)
                seen_.setdefault(id(v_), k_)
        what_own = 'every entry the reader creates owns its set%s' % (' (with a tag filter)' if with_filter else '')
        if shared:
            rep.fail('C20.R3', h.site, what_own, 'after reading %r the %s index holds ONE set object under %r and %r: an in-place update of one entry (insert through a reverse() view, '
                     'whose indexes are these dictionaries) changes the other as well, and the two indexes stop being inverse' % (lines[-1], shared[0], shared[1], shared[2]), where=h.where)
        else:
            rep.ok('C20.R3', h.site, what_own, 'all sets distinct objects')
        if db == want_db and rdb == want_rdb:
            rep.ok('C20.R3', h.site, what, '%d packages, %d tags' % (len(db), len(rdb)))
        else:
            rep.fail('C20.R3', h.site, what, 'reading %r gives db = %s and rdb = %s; the indexes must be %s and its inverse %s'
                     % (lines, {k: sorted(v) for k, v in (db or {}).items()}, {k: sorted(v) for k, v in (rdb or {}).items()},
                        {k: sorted(v) for k, v in want_db.items()}, {k: sorted(v) for k, v in want_rdb.items()}), where=h.where)
    # DB.read on a collection that already holds packages (a second read, or read after inserts): whatever it keeps of the old
    # content, the two indexes stay mutually inverse
    rd = src.func(M + ':DB.read')
    rep.saw_func(rd)
    second = ['pkg-new, pkg-one: role::b, use::e\n', 'pkg-lonely\n']
    heap, it, me = _world(src)
    what = 'read() into a non-empty collection keeps the indexes inverse'
    try:
        it.call(H.Closure(rd.node, {}, me, rd.cls), [heap.new_list(list(second)), None])
        db2, _a = _plain(heap, heap.objs[me.name]['db'])
        rdb2, _b = _plain(heap, heap.objs[me.name]['rdb'])
        want2 = {k: frozenset(v) for k, v in _inverse(db2 or {}).items()}
        got2 = {k: v for k, v in (rdb2 or {}).items() if v}
        if db2 is not None and got2 == want2:
            rep.ok('C20.R3', rd.site, what, '%d packages, %d tags after the second read' % (len(db2), len(got2)))
        else:
            diff = sorted(t for t in set(want2) | set(got2) if want2.get(t) != got2.get(t))
            rep.fail('C20.R3', rd.site, what, 'after reading a second file into a collection holding %d packages the tag index differs from the inverse of the package '
                     'index at %s: listed %s, tagged %s' % (len(GEN), diff[:3], {t: sorted(got2.get(t, [])) for t in diff[:3]}, {t: sorted(want2.get(t, [])) for t in diff[:3]}),
                     where=rd.where)
    except H.Raised as x:
        rep.fail('C20.R3', rd.site, what, 'raises %s (line %d)' % (x.exc, x.lineno), where=rd.where)
    # histories over reads and views: a collection that is read AGAIN after a reverse() view was taken answers -- itself and through a
    # view taken afterwards -- with the relation it holds now (a view, a count, an index remembered from before the second read is stale)
    dbinit = src.mod(M).funcs.get('DB.__init__')
    first = ['pkg-one: role::a, role::b\n', 'pkg-two: role::b\n']
    for second, how in ((['pkg-new, pkg-one: use::e\n', 'pkg-lonely\n'], 'read'),):
        heap, it, me = _world(src, {})
        what = 'reverse() after a second read() shows the collection as it is now'
        try:
            if dbinit is not None:
                it.call(H.Closure(dbinit.node, {}, me, dbinit.cls), [])
            it.call(H.Closure(rd.node, {}, me, rd.cls), [heap.new_list(list(first)), None])
            v1 = it.call(H.Closure(rev.node, {}, me, rev.cls), [])
            it.call(H.Closure(rd.node, {}, me, rd.cls), [heap.new_list(list(second)), None])
            v2 = it.call(H.Closure(rev.node, {}, me, rev.cls), [])
            now_db, _a = _plain(heap, heap.objs[me.name]['db'])
            now_rdb, _b = _plain(heap, heap.objs[me.name]['rdb'])
            v_db, _c = _plain(heap, heap.objs[v2.name]['db'])
            v_rdb, _d = _plain(heap, heap.objs[v2.name]['rdb'])
            inv_now = {k: frozenset(v) for k, v in _inverse(now_db or {}).items()}
            if {k: v for k, v in (now_rdb or {}).items() if v} != inv_now:
                rep.fail('C20.R3', rd.site, what, 'after the second read the collection itself has db = %s and rdb = %s' % (now_db, now_rdb), where=rd.where)
            elif v_db != now_rdb or v_rdb != now_db:
                rep.fail('C20.R3', rev.site, what, 'read(A); reverse(); read(B); reverse(): the second view lists the tags %s; the collection now holds the tags %s -- a view (or an index) '
                         'remembered from before the second read is handed out again' % (sorted(v_db or {}), sorted(now_rdb or {})), where=rev.where)
            else:
                rep.ok('C20.R3', rev.site, what, 'read, reverse, read, reverse: the second view is the inverse of the collection as it is now')
            _ = v1
        except H.Raised as x:
            rep.fail('C20.R3', rev.site, what, 'raises %s (line %d)' % (x.exc, x.lineno), where=rev.where)
    # queries answer from the right index
    queries = {'has_package': (['pkg-two'], True), 'has_tag': (['use::c'], True), 'tags_of_package': (['pkg-three'], {'role::b', 'use::c'}),
               'packages_of_tag': (['role::b'], {'pkg-one', 'pkg-two', 'pkg-three'}), 'card': (['role::b'], 3), 'package_count': ([], len(GEN)),
               'tag_count': ([], len(_inverse(GEN))), 'iter_packages': ([], set(GEN)), 'iter_tags': ([], set(_inverse(GEN)))}
    for mname, (args, want) in queries.items():
        qf = src.func(M + ':DB.' + mname)
        rep.saw_func(qf)
        heap, it, me = _world(src)
        try:
            r_ = it.call(H.Closure(qf.node, {}, me, qf.cls), list(args))
        except H.Raised as x:
            r_ = 'raises ' + x.exc
        got = r_
        if isinstance(r_, (set, frozenset)):
            got = set(r_)
        elif isinstance(r_, list) or heap.is_list(r_):
            got = set(it.seq(r_))
        if got == want:
            rep.ok('C20.R4', qf.site, '%s(%s)' % (mname, ', '.join(args)), repr(want)[:60], nontrivial=False)
        else:
            rep.fail('C20.R4', qf.site, '%s(%s)' % (mname, ', '.join(args)), 'answers %r on the generic collection instead of %r' % (got, want), where=qf.where)

    # queries are reads: on the collection as read and on a derived one (its tag index comes from reverse()), asking for present
    # and for absent names answers from the relation and leaves both indexes as they were
    absent = {'has_package': (['pkg-absent'], False), 'has_tag': (['zz::absent'], False), 'tags_of_package': (['pkg-absent'], set()),
              'packages_of_tag': (['zz::absent'], set()), 'card': (['zz::absent'], 0), 'discriminance': (['zz::absent'], 0)}
    chooser = src.func(M + ':DB.choose_packages')
    for derived in (False, True):
        for mname, (args, want) in sorted(absent.items()):
            qf = src.func(M + ':DB.' + mname)
            rep.saw_func(qf)
            heap, it, me = _world(src)
            target = me
            wlabel = 'the collection as read'
            try:
                if derived:
                    target = it.call(H.Closure(chooser.node, {}, me, chooser.cls), [heap.new_list([p_ for p_ in ('pkg-one', 'pkg-three') if p_ in GEN])])
                    wlabel = 'a collection derived by choose_packages'
                before = (_plain(heap, heap.objs[target.name]['db'])[0], _plain(heap, heap.objs[target.name]['rdb'])[0])
                r_ = it.call(H.Closure(qf.node, {}, target, qf.cls), list(args))
                after = (_plain(heap, heap.objs[target.name]['db'])[0], _plain(heap, heap.objs[target.name]['rdb'])[0])
            except H.Raised as x:
                rep.fail('C20.R4', qf.site, 'queries for absent names leave the indexes alone', '%s(%s) on %s raises %s (line %d)' % (mname, args[0], wlabel, x.exc, x.lineno), where=qf.where)
                continue
            got = set(r_) if isinstance(r_, (set, frozenset)) else r_
            if after != before:
                grown = sorted(set(after[1]) - set(before[1])) or sorted(set(after[0]) - set(before[0]))
                rep.fail('C20.R4', qf.site, 'queries for absent names leave the indexes alone',
                         '%s(%r) on %s changes the collection: afterwards the %s index has the entry %r that no pair of the relation accounts for, so has_*/…_count/iter_* '
                         'disagree with the relation' % (mname, args[0], wlabel, 'tag' if set(after[1]) != set(before[1]) else 'package', grown[:2]), where=qf.where)
            elif got != want or isinstance(got, bool) != isinstance(want, bool):
                rep.fail('C20.R4', qf.site, 'queries for absent names leave the indexes alone', '%s(%r) on %s answers %r instead of %r' % (mname, args[0], wlabel, got, want), where=qf.where)
            else:
                rep.ok('C20.R4', qf.site, '%s(%s) on %s' % (mname, args[0], wlabel), 'answers %r, indexes unchanged' % (want,))

    # queries over SEVERAL names, and the pair iterators: the answer is the reference relation's, and asking changes nothing -- neither
    # the dictionaries nor the content of any set in them (a result that is accumulated in place into the first set found IS that
    # set of the index), whichever name comes first; asked twice, the answer is the same
    multi = {'tags_of_packages': ([['pkg-one', 'pkg-three'], ['pkg-three', 'pkg-one'], ['pkg-two', 'pkg-one', 'pkg-absent']], lambda ns: set().union(*[GEN.get(n_, set()) for n_ in ns])),
             'packages_of_tags': ([['role::a', 'use::c'], ['use::c', 'role::b'], ['role::a', 'zz::absent', 'role::b']], lambda ns: set().union(*[_inverse(GEN).get(n_, set()) for n_ in ns])),
             'iter_packages_tags': ([None], lambda _n: {(p_, frozenset(t_)) for p_, t_ in GEN.items()}),
             'iter_tags_packages': ([None], lambda _n: {(t_, frozenset(p_)) for t_, p_ in _inverse(GEN).items()})}
    for mname, (arglists, ref_) in sorted(multi.items()):
        qf = src.mod(M).funcs.get('DB.' + mname)
        if qf is None or not all(p_ in GEN for p_ in ('pkg-one', 'pkg-two', 'pkg-three')):
            continue
        rep.saw_func(qf)
        for names in arglists:
            heap, it, me = _world(src)
            what = '%s(%s) answers from the relation and leaves the collection as it was' % (mname, '' if names is None else names)
            want = ref_(names)
            before = (_plain(heap, heap.objs[me.name]['db'])[0], _plain(heap, heap.objs[me.name]['rdb'])[0])
            try:
                answers = []
                for _twice in (1, 2):
                    r_ = it.call(H.Closure(qf.node, {}, me, qf.cls), [] if names is None else [heap.new_list(list(names))])
                    if isinstance(r_, (set, frozenset)):
                        got = set(r_)
                    else:
                        got = set()
                        for x_ in it.seq(r_):
                            x_ = tuple(it.seq(x_)) if not isinstance(x_, tuple) else x_
                            got.add((x_[0], frozenset(x_[1])) if len(x_) == 2 and isinstance(x_[1], (set, frozenset)) else x_)
                    answers.append(got)
            except H.Raised as x:
                rep.fail('C20.R4', qf.site, what, 'raises %s (line %d)' % (x.exc, x.lineno), where=qf.where)
                continue
            except AnalysisError as e_:
                rep.note('C20.R4: %s is outside the vocabulary of the interpreter (%s)' % (qf.site, str(e_)[:80]))
                continue
            after = (_plain(heap, heap.objs[me.name]['db'])[0], _plain(heap, heap.objs[me.name]['rdb'])[0])
            if after != before:
                idx_ = 0 if after[0] != before[0] else 1
                k_ = sorted(k2 for k2 in set(after[idx_]) | set(before[idx_]) if after[idx_].get(k2) != before[idx_].get(k2))[0]
                rep.fail('C20.R4', qf.site, what, 'the query changes the collection: afterwards the %s index lists %s for %r (it listed %s) while the other index is as before -- the two '
                         'indexes are no longer inverse (the answer was accumulated in place into a set of the index)' % (
                             'package' if idx_ == 0 else 'tag', sorted(after[idx_].get(k_, [])), k_, sorted(before[idx_].get(k_, []))), where=qf.where)
            elif answers[0] != want or answers[1] != want:
                rep.fail('C20.R4', qf.site, what, 'answers %s%s; the relation says %s' % (
                    sorted(answers[0], key=repr)[:8], '' if answers[1] == answers[0] else ' and then %s' % sorted(answers[1], key=repr)[:8], sorted(want, key=repr)[:8]), where=qf.where)
            else:
                rep.ok('C20.R4', qf.site, what, 'as the reference relation, asked twice; indexes unchanged')


def check(src, rep, tier):
    rep.explanation = ('C20: (generic relation) every collection-returning method of DB, reverse(), insert() histories, the reader (with and without a '
                       'tag filter) and the queries are interpreted by the abstract interpreter of sa.heap on a generic finite relation and compared with '
                       'a reference: documented content, rdb = inverse(db) with no empty tag entries, identity of set objects for the ownership rule.  '
                       '(relation algebra) in addition every derivation method is interpreted over relation expressions (R, inverse, restriction) with '
                       'dictionary/set ownership tags, which decides the paired-assignment obligation for all relations; methods outside that vocabulary '
                       'are only covered by the generic relation (noted).')
    rep.not_decided = ['pickle round trip', 'equality with a reference relation for arbitrary histories']
    rep.need('C20.R1', 20)
    rep.need('C20.R3', 4)
    rep.need('C20.R4', 20)
    rep.need('C20.R5', 12)
    rep.guard('C20.R1', r6_generic_relation, src, tier)
    rep.guard('C20.R1', r1_algebra, src)


def r1_algebra(rep, src):
    """the relation-algebra interpretation (for all relations) of the derivation methods, helpers inlined"""
    from .. import normalize
    from ..core import Func, set_parents
    it = Interp(src, rep)
    m = src.mod(M)
    n = 0
    for q, f in sorted(m.funcs.items()):
        if not q.startswith('DB.') or '.' in q[3:] or '#' in q or q[3:].startswith('_'):
            continue
        if not any(isinstance(r, ast.Return) and r.value is not None for r in ast.walk(f.node)):
            continue
        node, _ = normalize.inline_helpers(f)
        set_parents(node)
        g = Func(f.module, node, f.qual, f.cls)
        if not any(isinstance(c, ast.Call) and norm(c.func) == 'DB' for c in ast.walk(node)):
            continue
        selfobj = base_self(it)
        it.depth = 0
        try:
            res = it.run_method(g, selfobj)
        except AnalysisError as e:
            rep.note('C20 relation algebra: %s is outside its vocabulary (%s); decided on the generic relation only' % (f.site, str(e)[:80]))
            continue
        if res is None or res.built_by_insert:
            continue
        n += 1
        want = inv(res.db.rel)
        if res.rdb.rel == want:
            rep.ok('C20.R1', f.site, 'result indexes are inverse for every relation', 'db = %s, rdb = %s' % (show(res.db.rel), show(res.rdb.rel)))
        else:
            rep.fail('C20.R1', f.site, 'result indexes are inverse for every relation', 'the returned collection has db = %s but rdb = %s (expected %s): the two '
                     'indexes describe different relations' % (show(res.db.rel), show(res.rdb.rel), show(want)), where=f.where)
    rep.extra['algebraic_methods'] = n



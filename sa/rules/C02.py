"""C02 -- Deb822 paragraphs survive dump and re-parse, whatever the input form."""
import ast
import re

from .. import rx, strlang, cfg
from .. import paths, normalize
from ..core import AnalysisError, norm, walk_no_nested
from ..strlang import Cat, Lit, Slot, Star
from .deb822model import Model, KEY_RE
from . import common

META = {
    'design_ref': 'DESIGN.md §5 C02',
    'technique': "writer/reader agreement decided on automata: dump template extracted from _dump_format (marker-aware rstrip, strip-loss hazard), instantiated with the property's value grammar, split into reader lines and pushed through the reader's line classes, which are read off the paths of _internal_parser with locals substituted away (marked-language capture agreement for key and first line); _skip_useless_lines as a language-level filter per input type and position (bytes/str twins compared as languages); split_gpg_and_payload and the key side of validate_input decided on paths with locals substituted away (payload normalisation per append path, separator choice and accepted field names as languages); injectivity of the writer under constant substitutions on the value (automaton witness v, v.replace(old,new) both in the domain); who-may-call rule: the paragraph splitter only receives lines that went through the comment / blank-line filter; dataflow rule: the encoding that turns text lines into bytes reaches the decoder; piecewise-encoding rule: every str.encode reached per piece (loop, comprehension, generator, helper) uses a decided signature-free codec; the constructor of the signed-document classes interpreted under the calling conventions for text and bytes lines (line codec = decoding codec; every line reaches the armor splitter); class-level containers are not changed through an instance; the paragraph parser interpreted (sa.heap, CPython regex engine on decided lines) on whole texts in three input forms -- fields without value, values on the following lines, comment and blank lines -- against the fields the text shows (the language-level rules are a second opinion behind it when the loop leaves their vocabulary); no regex flag at the position of maxsplit / count; the constructors of the generic and of the signed-document classes interpreted end to end on one paragraph in five input forms (text, bytes, lines with and without line ends, lines of bytes), plain, clearsigned, behind a comment line, with comment lines between the fields, behind blank lines: the same fields",
    'level_text': 'Static decision for all keys/values of the stated grammar: every dumped line is routed by the reader\'s '
                  'regex cascade to the intended branch, the key and the trimmed first line are captured exactly, continuation '
                  'lines are kept verbatim, no line is taken as separator/PGP/comment; both newline conventions.  Structural '
                  'rules cover normalisation on every path, bytes/str twins and flush logic.  Does not execute the parser.',
    'level_note': 'trusted: CPython re parser / leaf sets, automata engine, template extractor vocabulary; PGP state machine, '
                  'chardet and multi-paragraph iterator sharing are not decided',
}

# oracle: the property's value grammar over the domain alphabet
WS = r'[ \t]*'
FIRST_TRIMMED = r'[^\s]|[^\s][^\n\r]*[^\s]'
CONT = r'[ \t][^\n\r]*[^\s][^\n\r]*'


def value_forms():
    cont = Star(Cat([Lit('\n'), Slot('cont')]))
    cont1 = Cat([Lit('\n'), Slot('cont'), cont])
    return {
        'empty': Lit(''),
        'empty-first-line+continuation': cont1,
        'first-line[+continuation]': Cat([Slot('ws1'), Slot('first'), Slot('ws2'), cont]),
        'blank-first-line[+continuation]': Cat([Slot('wsp'), cont]),
    }


def r1_agreement(rep, src, M):
    substs = []
    worlds, fdump = M.dump_worlds(substitutions=substs)
    alpha = M.alpha
    dom = M.domain('', spaces=True)      # "printable / UTF-8 values": a no-break space between two words is text of the value
    langs = {
        'key': M.pat(KEY_RE), 'ws1': M.pat(WS), 'ws2': M.pat(WS), 'wsp': M.pat(r'[ \t]+'),
        'first': M.pat(FIRST_TRIMMED).intersect(dom), 'cont': M.pat(CONT).intersect(dom),
    }
    forms = value_forms()
    site = fdump.site
    # a substitution applied to the stored text on its way out: harmless when no value of the domain contains the replaced text;
    # otherwise the value v and the value v.replace(old, new) -- both in the domain -- are written as the same text, so whatever the
    # reader does, one of the two does not come back (the writer must be injective on the domain)
    for term, old_, new_, preds, line_ in substs:
        what = 'line %d: %s.replace(%r, %r) keeps different values apart' % (line_, strlang.show(term), old_, new_)
        if strlang.slots_of(term) != ['value'] or not isinstance(term, (strlang.Slot, strlang.Refine)):
            raise AnalysisError('%s: line %d: substitution on %s, not on the stored value' % (site, line_, strlang.show(term)))
        whole = None
        for fterm in forms.values():
            fl_ = strlang.TBuilder(alpha, [], lambda p: langs[p], {}).lang(fterm)
            whole = fl_ if whole is None else whole.union(fl_)
        hit = M.refine(whole, preds).intersect(M.pat('(?s:.*)' + re.escape(old_) + '(?s:.*)'))
        v = hit.witness()
        if v is None:
            rep.ok('C02.R1', site, what, 'no value of the domain contains %r: the call is the identity there' % old_)
            continue
        v2 = v.replace(old_, new_)
        if v2 != v and whole.accepts(v2):
            rep.fail('C02.R1', site, what, 'the writer is not injective: the field values %r and %r are both valid and are both written as %r, so one of them is not '
                     'read back' % (v, v2, v2), detail={'witness': v}, where=fdump.where)
        else:
            raise AnalysisError('%s: line %d: the effect of the substitution on the value %r is outside what this rule decides' % (site, line_, v))
    feasible = 0
    for fname, fterm in forms.items():
        fl = strlang.TBuilder(alpha, [], lambda p: langs[p], {}).lang(fterm)
        hit = []
        for term, preds in worlds:
            inside = M.refine(fl, preds)
            if inside.is_empty():
                continue
            if fl.not_subset_witness(inside) is not None:
                raise AnalysisError('%s: the condition selecting the dump form cuts through the value form %r; the value '
                                    'grammar of the rule must be refined' % (site, fname))
            hit.append(term)
        if len(hit) != 1:
            raise AnalysisError('%s: value form %r is emitted by %d dump forms' % (site, fname, len(hit)))
        term = hit[0]
        feasible += 1
        has_first = 'first' in strlang.slots_of(fterm)
        groups = ['key', 'data'] if has_first else ['key']
        tags = {'key': 'key', 'first': 'data'} if has_first else {'key': 'key'}

        def slot(p, fterm=fterm):
            if p == 'value':
                return fterm
            return langs[p]
        Tm, Te = strlang.template_langs(term, alpha, slot, tags, groups)
        if strlang.rstrip_nodes(term):
            w = strlang.strip_loss_witness(term, alpha, slot, {'key', 'first', 'cont'})
            what = '%s / %s: stripping does not touch the value' % (strlang.show(term), fname)
            if w is not None:
                rep.fail('C02.R1', site, what, 'the writer strips characters that belong to the field text: in %s the trailing blank(s) inside ⟨@p: … :@p⟩ are '
                         'deleted, so the re-read value differs' % w, detail={'witness': w}, where=fdump.where)
            else:
                rep.ok('C02.R1', site, what, 'no rstrip() of the template can delete a character of the key, the trimmed first line or a continuation line')
        w = Te.not_subset_witness(M.pat(r'(?s:.*)\n'))
        what = '%s / %s: entry ends with a newline' % (strlang.show(term), fname)
        if w is not None:
            rep.fail('C02.R1', site, what, 'the dumped entry %r does not end with a newline: the next field would continue this line' % w,
                     detail={'witness': w}, where=fdump.where)
        else:
            rep.ok('C02.R1', site, what, 'T ⊆ Σ*\\n')
        for mode_name, universal in (('splitlines', True), ('file-lines', False)):
            label = '%s / %s / %s' % (strlang.show(term), fname, mode_name)
            check_lines(rep, M, site, label, Tm, Te, groups, universal, has_first, fdump.where)
    if feasible != len(forms):
        raise AnalysisError('not all value forms are produced by the dump template')


def check_lines(rep, M, site, label, Tm, Te, groups, universal, has_first, where, rule='C02.R1'):
    alpha = M.alpha
    # ---- first line through the cascade
    l0m = rx.strip_lang(rx.lines_of(Tm, 'first', universal), '\r\n')
    for br in M.cascade:
        R = M.region_lang(br)
        hit_m = l0m.intersect(rx.lift(R, l0m.markers))
        hit_e = rx.erase_markers(hit_m)
        if hit_e.is_empty():
            continue
        what = '%s: first line → branch %s' % (label, br['name'])
        if br['kind'] == 'skip':
            rep.fail(rule, site, label + ': first line is read', 'the dumped first line %r matches none of the reader regexes (field silently lost)' % hit_e.witness(),
                     detail={'witness': hit_e.witness()}, where=where)
            continue
        if br['kind'] != 'field':
            rep.fail(rule, site, what, 'the dumped first line %r is taken by the continuation branch %s' % (hit_e.witness(), br['name']),
                     detail={'witness': hit_e.witness()}, where=where)
            continue
        ckind = br['content'][0]
        ctext = br['content'][1] if ckind != 'group' else 'group %s of %s' % (br['content'][2], br['content'][1])
        reads_data = ckind == 'group'
        if br['key'][1] != 'key':
            rep.fail(rule, site, what, 'branch %s takes the field name from group %r' % (br['name'], br['key'][1]), where=where)
            continue
        if has_first and not reads_data:
            rep.fail(rule, site, what, 'first line %r with text is read by branch %s which stores %r as the value'
                     % (hit_e.witness(), br['name'], ctext), where=where)
            continue
        if not has_first and reads_data:
            rep.fail(rule, site, what, 'first line %r without text is read by the data-capturing branch %s' % (hit_e.witness(), br['name']),
                     where=where)
            continue
        if not has_first and br['content'] != ('const', ''):
            rep.fail(rule, site, what, 'branch %s stores %s instead of the empty first line' % (br['name'], ctext), where=where)
            continue
        if reads_data and (br['content'][1] != br['key'][0] or br['content'][2] != 'data'):
            rep.fail(rule, site, what, 'branch %s takes the value from %s' % (br['name'], ctext), where=where)
            continue
        pat, fl = M.rx[br['key'][0]]
        rg = {'key': 'key', 'data': 'data'}
        w1, w2 = rx.agreement(pat, fl, br['mode'], hit_m, hit_e, groups, {g: rg[g] for g in groups}, alpha)
        if w1 is not None or w2 is not None:
            rep.fail(rule, site, what, 'reader groups do not coincide with what was written: %r' % (w2 if w2 is not None else w1),
                     detail={'witness': w2 or w1}, where=where)
        else:
            rep.ok(rule, site, what, 'all parses of %s put %s on the written slots' % (br['key'][0], '/'.join(groups)))
    rep.ok(rule, site, '%s: first line is read' % label, 'FirstLine(T) is classified by the line classes of the reader', nontrivial=False)
    l0 = rx.erase_markers(l0m)
    raw0 = rx.erase_markers(rx.lines_of(Tm, 'first', universal))
    hazards(rep, M, rule, site, label + ': first line', l0, raw0, where)
    # ---- later lines
    raw = rx.lines_of(Te, 'rest', universal)
    if raw.is_empty():
        return
    rest = rx.strip_lang(raw, '\r\n')
    w = rest.equiv_witness(raw)
    what = '%s: continuation lines unchanged by normalisation' % label
    if w is not None:
        rep.fail(rule, site, what, 'strip() alters a continuation line: %r' % (w,), where=where)
    else:
        rep.ok(rule, site, what, 'strip(\\r\\n) is the identity on the continuation lines')
    for br in M.cascade:
        hit = rest.intersect(M.region_lang(br))
        if hit.is_empty():
            continue
        what = '%s: continuation line → branch %s' % (label, br['name'])
        if br['kind'] == 'skip':
            rep.fail(rule, site, label + ': continuation lines are read', 'continuation line %r matches none of the reader regexes (text silently lost)' % hit.witness(),
                     detail={'witness': hit.witness()}, where=where)
        elif br['kind'] != 'cont':
            rep.fail(rule, site, what, 'continuation line %r is read as a new field by %s' % (hit.witness(), br['name']),
                     detail={'witness': hit.witness()}, where=where)
        elif br['verbatim']:
            rep.ok(rule, site, what, "content += '\\n' + line (verbatim)")
        else:
            rep.fail(rule, site, what, 'the continuation branch does not append the line verbatim after a newline (%s)' % br['content'][1], where=where)
    hazards(rep, M, rule, site, label + ': continuation line', rest, raw, where)


def hazards(rep, M, rule, site, label, stripped, raw, where):
    for nm, bad, lines in (('a paragraph separator (default rule)', M.L('_blank_line_whitespace'), stripped),
                           ('a paragraph separator (no-whitespace rule)', M.L('_blank_line_no_whitespace'), stripped),
                           ('an initial blank line', M.L('_initial_blank_line'), stripped),
                           ('a PGP armor line', M.L('_gpgre'), stripped),
                           ('a comment', M.comment_lang(), raw)):
        w = lines.common_witness(bad)
        what = '%s is not %s' % (label, nm)
        if w is not None:
            rep.fail(rule, site, what, 'dumped line %r is taken as %s' % (w, nm), detail={'witness': w}, where=where)
        else:
            rep.ok(rule, site, what, 'empty intersection')


def r2_normalisation(rep, src, M):
    f = M.parser_func
    loop = M.parser_loop
    # loop iterates gpg_stripped_paragraph(_skip_useless_lines(sequence), strict)  (possibly through a local)
    it = loop.iter
    if isinstance(it, ast.Name):
        defs = [s_ for s_ in walk_no_nested(M.parser_node) if isinstance(s_, ast.Assign) and len(s_.targets) == 1 and norm(s_.targets[0]) == it.id]
        if len(defs) == 1:
            it = defs[0].value
    ok = isinstance(it, ast.Call) and norm(it.func).endswith('.gpg_stripped_paragraph') and it.args \
        and isinstance(it.args[0], ast.Call) and norm(it.args[0].func).endswith('._skip_useless_lines')
    if ok:
        rep.ok('C02.R3', f.site, 'comment skipping inside the PGP splitter', norm(it)[:70], nontrivial=False)
    else:
        rep.fail('C02.R3', f.site, 'comment skipping inside the PGP splitter',
                 'the line loop does not read gpg_stripped_paragraph(_skip_useless_lines(...)): %s' % norm(it)[:70], where=f.where)
    # the subject of every reader regex is decoder.decode(loop variable)
    lv = norm(loop.target)
    if M.linevar in ('self.decoder.decode(%s)' % lv,):
        rep.ok('C02.R2', f.site, 'lines are decoded before matching', M.linevar, nontrivial=False)
    else:
        rep.fail('C02.R2', f.site, 'lines are decoded before matching', 'the reader regexes are applied to %s, not to decoder.decode(<line>)' % M.linevar, where=f.where)
    # whole-text input is split into lines first: on every path (helpers inlined, locals substituted away) on which the input may
    # be a str / bytes object, the input reaches an iteration or a line consumer only as <input>.splitlines()
    INSPECT = {'isinstance', '_has_fileno', 'hasattr', 'type', 'len', 'id', 'callable'}
    for site in ('deb822:Deb822._internal_parser', 'deb822:Deb822.iter_paragraphs'):
        g = src.func(site)
        rep.saw_func(g)
        param = g.params()[1]
        gn, _ = normalize.inline_helpers(g, depth=2)

        def loop_handler(en, st, path, param=param):
            # loops are summarised; their iteration source is an effect of the path
            it = paths.subst(st.iter, path.env) if isinstance(st, ast.For) else None
            if it is not None:
                path.events.append(('effect', ast.Expr(value=ast.Call(func=ast.Name(id='iter', ctx=ast.Load()), args=[it], keywords=[])), st))
            for n_ in paths._assigned(st):
                path.env[n_] = paths._opaque('assigned in a loop', st)
            sub = paths.Enumerator(en.folder, loop_handler)
            p0 = paths.Path()
            p0.env = dict(path.env)
            for q in sub.run(st.body, [p0]):
                path.events.extend(q.events)
            return [path]
        ps = paths.function_paths(gn, paths.Folder(paths.module_consts(g.module, g.cls or '')), loop_handler, max_paths=20000)
        rep.analysed['paths'] += len(ps)
        bad = {}
        n_split = 0
        for p_ in ps:
            if p_.outcome[0] == 'raise':
                continue
            maybe = {'str': True, 'bytes': True}
            for t_, pol in p_.conds:
                if isinstance(t_, ast.Call) and norm(t_.func) == 'isinstance' and len(t_.args) == 2 and norm(t_.args[0]) == param:
                    names = {norm(x) for x in (t_.args[1].elts if isinstance(t_.args[1], ast.Tuple) else [t_.args[1]])}
                    for k in maybe:
                        if pol and k not in names:
                            maybe[k] = False       # it is one of the other types
                        if not pol and k in names:
                            maybe[k] = False
                if pol and isinstance(t_, ast.Call) and t_.args and norm(t_.args[0]) == param and \
                        (norm(t_.func) == '_has_fileno' or (norm(t_.func) == 'hasattr' and len(t_.args) == 2 and norm(t_.args[1]) in ("'fileno'", "'read'", "'readline'"))):
                    maybe = {'str': False, 'bytes': False}       # an object with a file descriptor / file methods is not a text
            if not any(maybe.values()):
                continue
            trees = [ev[1] for ev in p_.events if ev[0] in ('effect', 'loop')] + [ev[2] for ev in p_.events if ev[0] == 'store'] + list(p_.env.values()) \
                + ([p_.outcome[1]] if p_.outcome[1] is not None else [])
            for tr in trees:
                par = paths.parents(tr)
                for n_ in ast.walk(tr):
                    if not (isinstance(n_, ast.Name) and n_.id == param):
                        continue
                    up = par.get(id(n_))
                    if isinstance(up, ast.Attribute) and up.attr == 'splitlines':
                        n_split += 1
                        continue
                    if isinstance(up, ast.Call) and n_ in up.args and norm(up.func) in INSPECT:
                        continue
                    if isinstance(up, ast.Attribute):
                        continue      # another method / attribute of the object, not an iteration of it
                    for k, v in maybe.items():
                        if v:
                            bad.setdefault(k, 'on the path [%s] the input is used as `%s`' % (p_.describe()[:100], norm(up)[:60] if up is not None else param))
        if not bad and n_split:
            rep.ok('C02.R2', site, 'str and bytes text are split into lines', '%d paths; a str/bytes input is only used through splitlines()' % len(ps))
        else:
            rep.fail('C02.R2', site, 'str and bytes text are split into lines',
                     'whole-text input of type %s is iterated character-wise instead of line-wise: %s' % (sorted(bad) or ['str', 'bytes'], next(iter(bad.values()), 'no splitlines()')),
                     where=g.where)
    # split_gpg_and_payload: every payload line is stripped of CR/LF and str lines are encoded -- decided on the paths of the
    # loop body with locals substituted away (conditional expressions, flags and guard clauses give the same literals)
    g = src.func('deb822:Deb822.split_gpg_and_payload')
    rep.saw_func(g)
    gnode, _inl = normalize.inline_helpers(g, depth=2)
    gloops = [s_ for s_ in gnode.body if isinstance(s_, ast.For) and norm(s_.iter) == g.params()[0]]
    if len(gloops) != 1 or not isinstance(gloops[0].target, ast.Name):
        raise AnalysisError('%s: the loop over the input lines was not found' % g.site)
    gloop = gloops[0]
    raw = gloop.target.id
    rets = [r_ for r_ in ast.walk(gnode) if isinstance(r_, ast.Return) and isinstance(r_.value, ast.Tuple) and len(r_.value.elts) == 3]
    payloads = {norm(r_.value.elts[1]) for r_ in rets}
    if len(payloads) != 1:
        raise AnalysisError('%s: the payload list (second element of the result) is not a single local' % g.site)
    payload = payloads.pop()
    consts = paths.module_consts(g.module, 'Deb822')

    def dict_default(e):
        # {}.get(key, default) is the default
        if isinstance(e, ast.Call) and isinstance(e.func, ast.Attribute) and e.func.attr == 'get' and isinstance(e.func.value, ast.Dict) \
                and not e.func.value.keys and len(e.args) == 2 and isinstance(e.args[1], ast.Constant):
            return bool(e.args[1].value)
        return None
    body_paths = paths.Enumerator(paths.Folder(consts, dict_default)).run(gloop.body, [paths.Path()])
    rep.analysed['paths'] += len(body_paths)
    napp, bad_strip, bad_enc = 0, None, None

    def type_lit(p_, var):
        """True: the path has decided that var is str; False: that it is not str (bytes); None: undecided"""
        for t_, pol in p_.conds:
            if isinstance(t_, ast.Call) and norm(t_.func) == 'isinstance' and len(t_.args) == 2 and norm(t_.args[0]) == var:
                if norm(t_.args[1]) == 'str':
                    return pol
                if norm(t_.args[1]) == 'bytes':
                    return not pol
        return None
    for p_ in body_paths:
        for ev in p_.events:
            if ev[0] != 'effect' or not isinstance(ev[1], ast.Expr) or not isinstance(ev[1].value, ast.Call):
                continue
            c = ev[1].value
            if norm(c.func) != payload + '.append' or len(c.args) != 1:
                continue
            napp += 1
            x = c.args[0]
            if not (isinstance(x, ast.Call) and isinstance(x.func, ast.Attribute) and x.func.attr in ('strip', 'rstrip') and len(x.args) == 1
                    and isinstance(x.args[0], ast.Constant) and isinstance(x.args[0].value, (bytes, str)) and set(x.args[0].value) in (set(b'\r\n'), set('\r\n'))):
                bad_strip = 'on the path [%s] the payload line is %s' % (p_.describe()[:120], norm(x)[:60])
                continue
            y = x.func.value
            is_str = type_lit(p_, raw)
            if isinstance(y, ast.Call) and isinstance(y.func, ast.Attribute) and y.func.attr == 'encode' and norm(y.func.value) == raw:
                if is_str is not True:
                    bad_enc = 'encode() is applied to a line not known to be str on the path [%s]' % p_.describe()[:120]
            elif norm(y) == raw:
                if is_str is not False:
                    bad_enc = 'a line that may be str reaches the bytes regexes unencoded on the path [%s]' % p_.describe()[:120]
            else:
                bad_enc = 'the payload line is derived from %s, not from the input line' % norm(y)[:60]
    if not napp:
        raise AnalysisError('%s: no payload append found' % g.site)
    if bad_strip is None:
        rep.ok('C02.R2', g.site, 'payload lines are stripped of CR/LF', '%d append path(s), each appends <line>.strip(b"\\r\\n")' % napp)
    else:
        rep.fail('C02.R2', g.site, 'payload lines are stripped of CR/LF',
                 'a payload line reaches the parser with its line terminator (list-of-lines and file input would differ): ' + bad_strip, where=g.where)
    if bad_enc is None and bad_strip is None:
        rep.ok('C02.R2', g.site, 'text lines are encoded', 'str → encode(), bytes unchanged, on every append path', nontrivial=False)
    elif bad_enc is not None:
        rep.fail('C02.R2', g.site, 'text lines are encoded', 'str lines are not converted to bytes before the bytes regexes are applied: ' + bad_enc, where=g.where)
    # leading blank lines: while nothing but blank lines has been seen, a blank line is skipped and the next line is still "leading"
    # (the flag that says so is a loop-carried boolean, true before the loop, tested together with a whitespace-only regex)
    pre0 = gnode.body[:gnode.body.index(gloop)]
    true_before = {t_.id for st_ in pre0 if isinstance(st_, ast.Assign) and isinstance(st_.value, ast.Constant) and st_.value.value is True
                   for t_ in st_.targets if isinstance(t_, ast.Name)}
    lead = None
    n_lead = 0
    for p_ in body_paths:
        flags = [t_.id for t_, pol in p_.conds if pol and isinstance(t_, ast.Name) and t_.id in true_before]
        blank = None
        for t_, pol in p_.conds:
            c_ = t_
            if isinstance(c_, ast.Call) and isinstance(c_.func, ast.Attribute) and c_.func.attr in ('match', 'fullmatch') and isinstance(c_.func.value, (ast.Name, ast.Attribute)):
                nm_ = c_.func.value.attr if isinstance(c_.func.value, ast.Attribute) else c_.func.value.id
                try:
                    r_ = src.regex('deb822', nm_, cls='Deb822')
                except AnalysisError:
                    continue
                if M.L(nm_, 'match').intersect(M.pat(r'[^\n]*')).not_subset_witness(M.pat(r'\s*', re.ASCII)) is None and flags and blank is None:
                    blank = pol
        if not flags or blank is None:
            continue
        n_lead += 1
        flag = flags[0]
        cleared = isinstance(p_.env.get(flag), ast.Constant) and p_.env[flag].value is False
        if blank and (cleared or p_.outcome is None or p_.outcome[0] != 'continue'):
            lead = 'a leading blank line %s: only the first blank line before a paragraph is ignored' % (
                'clears the flag `%s`' % flag if cleared else 'is not skipped')
        if not blank and not cleared:
            lead = lead or 'the flag `%s` stays set after a non-blank line: blank lines inside the document are dropped' % flag
    if n_lead < 2:
        raise AnalysisError('%s: the handling of leading blank lines was not found (flag true before the loop, tested with a blank-line regex)' % g.site)
    if lead is None:
        rep.ok('C02.R2', g.site, 'all leading blank lines are skipped', 'blank → continue with the flag still set; first other line clears it')
    else:
        rep.fail('C02.R2', g.site, 'all leading blank lines are skipped', lead + ' (input forms with a different number of leading blank lines give different results)', where=g.where)
    # blank-line rule selection: the regex used as paragraph separator, per value of the strictness switch
    pre = gnode.body[:gnode.body.index(gloop)]
    pre_paths = [p_ for p_ in paths.Enumerator(paths.Folder(consts, dict_default)).run(pre, [paths.Path()]) if p_.outcome is None]
    sel = {}
    for p_ in pre_paths:
        pol = None
        for t_, v_ in p_.conds:
            if isinstance(t_, ast.Call) and isinstance(t_.func, ast.Attribute) and t_.func.attr == 'get' and t_.args \
                    and isinstance(t_.args[0], ast.Constant) and t_.args[0].value == 'whitespace-separates-paragraphs':
                default = bool(t_.args[1].value) if len(t_.args) > 1 and isinstance(t_.args[1], ast.Constant) else False
                if default is not True:
                    pol = 'bad-default'
                elif pol is None:
                    pol = v_
        if pol is None:
            # the switch was folded: an empty/absent strict dict means the default (True)
            pol = True
        regs = set()
        for nm, v in p_.env.items():
            if nm.startswith('@'):
                continue
            e_ = v
            name_ = e_.attr if isinstance(e_, ast.Attribute) else e_.id if isinstance(e_, ast.Name) else None
            if name_ is None:
                continue
            try:
                r_ = src.regex('deb822', name_, cls='Deb822')
            except AnalysisError:
                continue
            regs.add(name_)
        sel.setdefault(pol, set()).update(regs)
    ok_sel = set(sel) == {True, False} and all(len(v) == 1 for v in sel.values())
    if ok_sel:
        ws = M.L(next(iter(sel[True])), 'match')
        nows = M.L(next(iter(sel[False])), 'match')
        dom_ = M.pat(r'[^\n]*')        # the lines have been stripped of their terminator
        ok_sel = ws.intersect(dom_).equiv_witness(M.pat(r'[^\S\n]*', re.ASCII)) is None and nows.intersect(dom_).equiv_witness(M.pat(r'')) is None
    if ok_sel:
        rep.ok('C02.R2', g.site, 'separator rule selection', 'default: whitespace lines separate (languages \\s* / empty)', nontrivial=False)
    else:
        rep.fail('C02.R2', g.site, 'separator rule selection', 'the whitespace-separates-paragraphs switch does not select the two blank-line regexes as documented (%s)'
                 % {str(k): sorted(v) for k, v in sel.items()}, where=g.where)


def _unb(text):
    """source text with bytes-literal prefixes removed"""
    import re as _re
    return _re.sub(r"\bb(['\"])", r'\1', text)


def r3_twins(rep, src, M):
    """_skip_useless_lines as a language-level filter: str and bytes lines are treated alike, exactly the lines
    starting with '#' are dropped (plus, before the first kept line, lines made of CR/LF only), kept lines are
    yielded unchanged"""
    F = M.skip_filter()
    f = M._skip_func
    comment = M.pat(r'#(?s:.*)')
    blank = M.pat(r'[\r\n]*')
    for at_beg in (False, True):
        pos = 'before the first kept line' if at_beg else 'after the first kept line'
        s_, b_ = F[(False, at_beg)], F[(True, at_beg)]
        w = s_['dropped'].equiv_witness(b_['dropped'])
        if w is None:
            rep.ok('C02.R3', f.site, 'bytes/str twins, ' + pos, 'the same lines are dropped for both input types')
        else:
            rep.fail('C02.R3', f.site, 'bytes/str twins, ' + pos, 'bytes input and str input are filtered differently: the line %r is dropped for %s lines only'
                     % (w[1], 'str' if w[0] == 'left-only' else 'bytes'), where=f.where)
        want = comment.union(blank) if at_beg else comment
        w = s_['dropped'].equiv_witness(want)
        if w is None:
            rep.ok('C02.R3', f.site, 'comment marker, ' + pos, "dropped = '#'-lines%s" % (' ∪ CR/LF-only lines' if at_beg else ''))
        elif w[0] == 'right-only':
            rep.fail('C02.R3', f.site, 'comment marker, ' + pos, 'the line %r is not skipped (lines starting with \'#\' are comments%s)'
                     % (w[1], '; leading empty lines are ignored' if at_beg else ''), where=f.where)
        else:
            rep.fail('C02.R3', f.site, 'comment marker, ' + pos, 'the line %r is dropped although it is neither a comment%s' % (w[1], ' nor an initial empty line' if at_beg else ''),
                     where=f.where)
    if all(v['yields_line'] for v in F.values()):
        rep.ok('C02.R3', f.site, 'yields the line itself', 'every kept line is yielded once, unchanged', nontrivial=False)
    else:
        rep.fail('C02.R3', f.site, 'yields the line itself', 'the filter alters or duplicates lines', where=f.where)
    if all(v['flag_ok'] for v in F.values()):
        rep.ok('C02.R3', f.site, 'position flag', 'cleared at the first kept line, untouched by dropped lines', nontrivial=False)
    else:
        rep.fail('C02.R3', f.site, 'position flag', 'the "at the beginning" state is not cleared by the first kept line (or is changed by a dropped line)', where=f.where)


def r4_accumulation(rep, src, M):
    f = M.parser_func
    loop = M.parser_loop
    for br in M.cascade + M.unwanted:
        if br['kind'] not in ('field', 'unwanted'):
            continue
        what = 'branch %s%s flushes the previous field first' % (br['name'], ' (field filtered out)' if br['kind'] == 'unwanted' else '')
        if br['flush_ok']:
            rep.ok('C02.R4', f.site, what, 'a pending field is stored as self[curkey] = content before the key changes (all %d paths)' % len(br['paths']))
        else:
            rep.fail('C02.R4', f.site, what, 'a new field line does not first store the pending field (or stores something else)', where=f.where)
    for br in M.cascade:
        if br['kind'] == 'other':
            rep.fail('C02.R4', f.site, 'branch %s keeps the pending field' % br['name'], 'the pending field is changed in an unexpected way: %s' % (br['content'],), where=f.where)
    # after the loop: a pending field is stored
    body = M.parser_node.body
    after = body[body.index(loop) + 1:]
    ps = paths.Enumerator(paths.Folder()).run(after, [paths.Path()])
    ok = bool(ps)
    for p_ in ps:
        pending = [pol if norm(t) != 'curkey is None' else not pol for t, pol in p_.conds if norm(t) in ('curkey', 'curkey is not None', 'curkey is None')]
        flushed = any(e[0] == 'store' and e[1] == 'self[curkey]' and norm(e[2]) == 'content' for e in p_.events)
        if (not pending or pending[0]) and not flushed:
            ok = False
    if ok:
        rep.ok('C02.R4', f.site, 'final flush', 'self[curkey] = content after the loop whenever a field is pending', nontrivial=False)
    else:
        rep.fail('C02.R4', f.site, 'final flush', 'the last field of a paragraph is never stored', where=f.where)
    rep.extra['line_classes'] = ['%s → %s' % (' '.join(('' if pol else '¬') + n for n, _m, pol in b['lits']), b['kind']) for b in M.cascade]


def r5_key_acceptance(rep, src, M):
    """no path of validate_input (helpers inlined, locals substituted away) rejects a policy-valid field name: for every raising
    path whose deciding condition is about the key, the language of the keys taking that path is disjoint from the policy names"""
    V = M.validator()
    f = V['func']
    key = f.params()[1]
    alpha = M.alpha
    policy = M.pat(KEY_RE)

    def regex_atom(t):
        if isinstance(t, ast.Call) and isinstance(t.func, ast.Attribute) and t.func.attr in ('match', 'fullmatch', 'search') and len(t.args) == 1 \
                and norm(t.args[0]) == key and isinstance(t.func.value, (ast.Name, ast.Attribute)):
            nm = t.func.value.attr if isinstance(t.func.value, ast.Attribute) else t.func.value.id
            r_ = src.regex('deb822', nm, cls='Deb822' if isinstance(t.func.value, ast.Attribute) else None)
            pat, fl = r_['pattern'], r_['flags']
            if isinstance(pat, bytes):
                pat, fl = rx.bytes_pattern_as_str(pat), fl | re.ASCII
            return rx.regex_lang(pat, fl, t.func.attr, alpha=alpha)
        return None
    n_raise = 0
    bad = None
    for p_ in V['paths']:
        if p_.outcome[0] != 'raise' or not p_.conds:
            continue
        last = p_.conds[-1][0]
        if not any(isinstance(x, ast.Name) and x.id == key for x in ast.walk(last)):
            continue
        n_raise += 1
        lang = policy
        for t_, pol in p_.conds:
            if not any(isinstance(x, ast.Name) and x.id == key for x in ast.walk(t_)):
                continue
            pl = strlang.pred_lang(t_, key, alpha, atom=regex_atom)
            lang = lang.intersect(pl if pol else pl.complement())
        w = lang.witness()
        if w is not None and bad is None:
            bad = 'the policy-valid field name %r is rejected (%s)' % (w, p_.describe()[:100])
    if bad is None:
        rep.ok('C02.R5', f.site, 'every policy-valid field name is accepted', '%d key-rejecting path(s), none reachable with a policy-valid name' % n_raise)
    else:
        rep.fail('C02.R5', f.site, 'every policy-valid field name is accepted', bad + ': building, assigning and re-parsing such a field raises ValueError', where=f.where)


def r6_filter_before_split(rep, src, M):
    """comment lines and leading blank lines are dropped before the paragraph boundary is looked for: every call of the paragraph
    splitter (split_gpg_and_payload, or gpg_stripped_paragraph which forwards to it) outside the splitter itself receives lines
    that went through _skip_useless_lines.  A reader entry that hands the raw lines over takes a leading comment block followed by
    a blank line for the whole paragraph."""
    m = src.mod('deb822')
    splitters = {'split_gpg_and_payload', 'gpg_stripped_paragraph'}
    n = 0
    for q, fn in sorted(m.funcs.items()):
        if q.split('.')[-1] in splitters:
            continue
        fnode, _ = normalize.inline_helpers(fn)
        for c in ast.walk(fnode):
            if not (isinstance(c, ast.Call) and isinstance(c.func, ast.Attribute) and c.func.attr in splitters and c.args):
                continue
            n += 1
            arg = c.args[0]
            filtered = any(isinstance(x, ast.Call) and isinstance(x.func, ast.Attribute) and x.func.attr == '_skip_useless_lines' for x in ast.walk(arg))
            if not filtered and isinstance(arg, ast.Name):
                # a local bound once to filtered lines
                binds = [st for st in ast.walk(fnode) if isinstance(st, ast.Assign) and len(st.targets) == 1 and norm(st.targets[0]) == arg.id]
                filtered = bool(binds) and all(any(isinstance(x, ast.Call) and isinstance(x.func, ast.Attribute) and x.func.attr == '_skip_useless_lines' for x in ast.walk(b_.value))
                                                for b_ in binds)
            what = 'lines are filtered before the paragraph is cut out'
            if filtered:
                rep.ok('C02.R6', fn.site, what, '%s(_skip_useless_lines(...))' % c.func.attr)
            else:
                rep.fail('C02.R6', fn.site, what, 'line %d hands the raw input lines to %s: a comment block followed by a blank line at the start of the input (given as a list of lines or a '
                         'file object) is taken for the paragraph, and the object comes out empty, while the same text given as str or bytes is parsed' % (c.lineno, c.func.attr),
                         where='%s:%d' % (fn.module.relpath, c.lineno))
    if n < 2:
        raise AnalysisError('only %d calls of the paragraph splitter found (2 confirmed on the pinned tree)' % n)


PLAIN_CODECS = {'utf-8', 'utf8', 'ascii', 'us-ascii', 'latin-1', 'latin1', 'iso-8859-1'}


def r8_piecewise_encoding(rep, src):
    """one document is one stream of bytes: wherever the module turns text into bytes piece by piece (a call of str.encode, or of a
    helper that passes its argument on to str.encode, inside a loop, comprehension or generator), the codec is a decided constant
    that writes no signature -- utf-8-sig, utf-16 and utf-32 put a byte order mark in front of every piece, which the reader then
    takes for part of a field name.  A caller's or the paragraph's codec is applied to the whole text at once (or through an
    incremental encoder)"""
    mod = src.mod('deb822')
    # helpers that hand one of their parameters to str.encode: {name: index of the codec parameter}
    helpers = {}
    for f in mod.funcs.values():
        ps = [a.arg for a in f.node.args.args]
        for c in ast.walk(f.node):
            if isinstance(c, ast.Call) and isinstance(c.func, ast.Attribute) and c.func.attr == 'encode' and len(c.args) == 1 and isinstance(c.args[0], ast.Name) \
                    and c.args[0].id in ps and isinstance(c.func.value, ast.Name) and c.func.value.id in ps:
                helpers[f.node.name] = ps.index(c.args[0].id) - (1 if ps and ps[0] in ('self', 'cls') else 0)
    n = 0
    for f in mod.funcs.values():
        from ..core import set_parents
        set_parents(f.node)
        encoders = set()
        for st in ast.walk(f.node):
            if isinstance(st, ast.Assign) and len(st.targets) == 1 and isinstance(st.targets[0], ast.Name) and 'incrementalencoder' in norm(st.value).lower():
                encoders.add(st.targets[0].id)
        for c in walk_no_nested(f.node):
            if not (isinstance(c, ast.Call) and isinstance(c.func, (ast.Attribute, ast.Name))):
                continue
            nm = c.func.attr if isinstance(c.func, ast.Attribute) else c.func.id
            if nm == 'encode' and isinstance(c.func, ast.Attribute):
                if isinstance(c.func.value, ast.Name) and c.func.value.id in encoders:
                    continue
                codec = c.args[0] if c.args else next((k.value for k in c.keywords if k.arg == 'encoding'), None)
            elif nm in helpers and len(c.args) > helpers[nm]:
                codec = c.args[helpers[nm]]
            else:
                continue
            a_ = c
            per_piece = False
            while getattr(a_, '_parent', None) is not None and a_ is not f.node:
                a_ = a_._parent
                if isinstance(a_, (ast.For, ast.While, ast.GeneratorExp, ast.ListComp, ast.SetComp, ast.DictComp)):
                    per_piece = True
            if not per_piece and any(isinstance(x, (ast.Yield, ast.YieldFrom)) for x in walk_no_nested(f.node)):
                per_piece = True
            if not per_piece:
                continue
            n += 1
            what = 'text turned into bytes piece by piece: `%s`' % norm(c)[:60]
            val = None
            if codec is None:
                val = 'utf-8'
            elif isinstance(codec, ast.Constant):
                val = codec.value
            elif isinstance(codec, ast.Name):
                # one constant binding in this function or an enclosing one
                scopes = [f.node]
                outer = [g for g in mod.funcs.values() if g.node is not f.node and any(x is f.node for x in ast.walk(g.node))]
                scopes += [g.node for g in outer]
                if not any(codec.id in [a.arg for a in sc.args.args + sc.args.kwonlyargs] for sc in scopes[:1]):
                    binds = [st for sc in scopes for st in ast.walk(sc) if isinstance(st, ast.Assign) and any(isinstance(t, ast.Name) and t.id == codec.id for t in st.targets)]
                    if len(binds) == 1 and isinstance(binds[0].value, ast.Constant):
                        val = binds[0].value.value
                    elif not binds and isinstance(mod.consts.get('', {}).get(codec.id), str):
                        val = mod.consts[''][codec.id]              # a module-level constant
                else:
                    # a parameter of this function: what its callers (in the module) pass there -- one and the same constant
                    ps_ = [a.arg for a in f.node.args.args]
                    if codec.id in ps_:
                        pos_ = ps_.index(codec.id) - (1 if ps_ and ps_[0] in ('self', 'cls') else 0)
                        vals_ = set()
                        for g in mod.funcs.values():
                            for c2 in ast.walk(g.node):
                                if isinstance(c2, ast.Call) and isinstance(c2.func, (ast.Attribute, ast.Name)) and (
                                        c2.func.attr if isinstance(c2.func, ast.Attribute) else c2.func.id) == f.node.name:
                                    a2 = c2.args[pos_] if len(c2.args) > pos_ else next((k_.value for k_ in c2.keywords if k_.arg == codec.id), None)
                                    if isinstance(a2, ast.Constant):
                                        vals_.add(a2.value)
                                    elif isinstance(a2, ast.Name):
                                        b2 = [st for st in ast.walk(g.node) if isinstance(st, ast.Assign) and any(isinstance(t, ast.Name) and t.id == a2.id for t in st.targets)]
                                        if len(b2) == 1 and isinstance(b2[0].value, ast.Constant) and a2.id not in [x.arg for x in g.node.args.args]:
                                            vals_.add(b2[0].value.value)
                                        elif not b2 and isinstance(mod.consts.get('', {}).get(a2.id), str):
                                            vals_.add(mod.consts[''][a2.id])
                                        else:
                                            vals_.add(None)
                                    else:
                                        vals_.add(None)
                        if len(vals_) == 1 and isinstance(next(iter(vals_)), str):
                            val = next(iter(vals_))
            elif isinstance(codec, ast.Attribute) and isinstance(codec.value, ast.Name) and codec.value.id in ('self', 'cls') and f.cls:
                # a class-level constant that no method of the class family re-binds
                node_, _c = mod.class_const_node(f.cls, codec.attr)
                family_ = [c2 for c2 in mod.classes if f.cls in mod.mro(c2) or c2 in mod.mro(f.cls)]
                rebound_ = any(isinstance(x_, ast.Attribute) and isinstance(x_.ctx, ast.Store) and x_.attr == codec.attr
                               for q2, g2 in mod.funcs.items() if q2.split('.')[0] in family_ for x_ in ast.walk(g2.node))
                if isinstance(node_, ast.Constant) and isinstance(node_.value, str) and not rebound_:
                    val = node_.value
            if isinstance(val, str) and val.lower().replace('_', '-') in PLAIN_CODECS:
                rep.ok('C02.R8', f.site, what, 'codec %r writes no signature' % val)
            else:
                rep.fail('C02.R8', f.site, what, 'the pieces of one document are encoded separately with `%s`, which is not a decided signature-free codec: with utf-8-sig, utf-16 or utf-32 '
                         '(a caller\'s encoding=, or the encoding the paragraph was read with) a byte order mark is written in front of every piece, and reading the bytes back '
                         'gives field names that begin with U+FEFF -- the output is not the encoding of dump()' % norm(codec)[:40], where='%s:%d' % (mod.relpath, c.lineno))
    if n < 2:
        raise AnalysisError('C02.R8: fewer than two piecewise encoders found (%d)' % n)


def r7b_line_codec_handover(rep, src):
    """the same clause by interpretation: the constructor of the signed-document classes interpreted (sa.heap) on a list of TEXT lines and
    on a list of BYTES lines under the ways of passing the arguments, with the line encoder, the armor splitter and the wrapped constructor
    as observers: text lines are encoded with one codec and the wrapped constructor is told to decode with that codec, however the
    caller passed its own encoding -- which the paragraph keeps as its encoding afterwards; bytes lines leave the caller's encoding alone."""
    from .. import heap as H
    mod = src.mod('deb822')
    f = mod.funcs.get('_gpg_multivalued.__init__')
    base = mod.funcs.get('Deb822.__init__')
    if f is None or base is None:
        raise AnalysisError('deb822: _gpg_multivalued.__init__ / Deb822.__init__ not found')
    rep.saw_func(f)
    names = [a.arg for a in base.node.args.args][1:]
    base_calls = [c for c in ast.walk(f.node) if isinstance(c, ast.Call) and isinstance(c.func, ast.Attribute) and c.func.attr == '__init__']
    if len(base_calls) != 1:
        raise AnalysisError('%s: %d calls of a wrapped constructor' % (f.site, len(base_calls)))
    bname = norm(base_calls[0].func)
    n = 0
    for kind, lines in (('text lines', ['A: b\n']), ('bytes lines', [b'A: b\n']), ('text lines without line ends, the first one empty', ['', 'A: b']),
                        ('bytes lines without line ends, the first one empty', [b'', b'A: b'])):
        for label, args, kwargs in (('no encoding given', [lines], {}), ('encoding by keyword', [lines], {'encoding': 'latin-1'}),
                                    ('lines and encoding by keyword', [], {'sequence': lines, 'encoding': 'latin-1'}),
                                    ('encoding by keyword, filter by position', [lines, ('F',)], {'encoding': 'latin-1'}),
                                    ('encoding by position', [lines, None, None, 'latin-1'], {}),
                                    ('encoding and parser setting by position', [lines, None, None, 'latin-1', ('S',)], {})):
            got = {'codecs': []}

            def base_hook(it, a, k, got=got):
                got['base'] = (list(a), dict(k))
                # (what the paragraph constructor does with the encoding it is given: it becomes the paragraph's own)
                a_ = list(a)[1:]
                it.h.objs[a[0].name]['encoding'] = a_[3] if len(a_) > 3 else k.get('encoding', 'utf-8')

            def split_hook(it, a, k, got=got):
                for x_ in a[1:2]:
                    got['handed'] = len(it.seq(x_))
                return (it.h.new_list([]), it.h.new_list([b'A: b']), it.h.new_list([]))

            def bytes_hook(it, a, k, got=got):
                if isinstance(a[1], str):
                    got['codecs'].append(a[2] if len(a) > 2 else k.get('encoding'))
                return b'A: b'
            heap = H.Heap(mod, hooks={bname: base_hook, '.split_gpg_and_payload': split_hook, '._bytes': bytes_hook})
            it = H.Interp(heap)
            me = heap.alloc('_gpg_multivalued', {})
            conv = lambda v: heap.new_list(list(v)) if isinstance(v, list) else v      # noqa: E731
            what = 'codec of the lines = codec the wrapped constructor decodes with: %s, %s' % (kind, label)
            try:
                it.call(H.Closure(f.node, {}, me, f.cls), [conv(a) for a in args], {k: conv(v) for k, v in kwargs.items()})
            except H.Raised as x:
                rep.fail('C02.R7', f.site, what, 'raises %s (line %d)' % (x.exc, x.lineno), where=f.where)
                continue
            if 'base' not in got:
                rep.fail('C02.R7', f.site, what, 'the wrapped constructor is not called', where=f.where)
                continue
            n += 1
            if got.get('handed') != len(lines):
                rep.fail('C02.R7', f.site, what, 'the armor splitter is handed %s of the %d input lines %r: the rest of the document is never read (an empty first line is a '
                         'blank line of the document, not the end of the input)' % (got.get('handed', 'none'), len(lines), lines), where=f.where)
                continue
            a, k = got['base']
            a = a[1:]
            eff = {p: (a[i] if i < len(a) else k.get(p)) for i, p in enumerate(names[:5])}
            given = kwargs.get('encoding', args[3] if len(args) > 3 else None)
            if len(args) > 4 and eff['strict'] != args[4]:
                rep.fail('C02.R7', f.site, what, 'the parser setting passed by position arrives as %r' % (eff['strict'],), where=f.where)
                continue
            own = heap.objs[me.name].get('encoding')
            if kind.startswith('text lines') and 'encoding' in heap.objs[me.name] and own != (given or 'utf-8'):
                rep.fail('C02.R7', f.site, what, 'after construction from text lines the paragraph says its encoding is %r; the caller said %r: bytes(paragraph) and dump() into a binary '
                         'file write another encoding than for the same document read from bytes' % (own, given or 'utf-8 (the default)'), where=f.where)
                continue
            if kind.startswith('text lines'):
                codecs = set(got['codecs'])
                if len(codecs) != 1 or not isinstance(next(iter(codecs)), str):
                    rep.fail('C02.R7', f.site, what, 'the text lines are turned into bytes with %s' % (sorted(map(repr, codecs)) or 'no codec at all'), where=f.where)
                elif eff['encoding'] != next(iter(codecs)):
                    rep.fail('C02.R7', f.site, what, 'the text lines are turned into bytes with %r but the wrapped constructor is told to decode them with %r: a non-ASCII value of a '
                             'text file is read differently from the same text given as str' % (next(iter(codecs)), eff['encoding'] if eff['encoding'] is not None else 'its default'),
                             where=f.where)
                else:
                    rep.ok('C02.R7', f.site, what, 'both %r' % eff['encoding'])
            else:
                if eff['encoding'] != given:
                    rep.fail('C02.R7', f.site, what, 'bytes lines are decoded with %r although the caller said %r' % (eff['encoding'], given), where=f.where)
                else:
                    rep.ok('C02.R7', f.site, what, 'the caller\'s %r' % (given,))
    if n < 20:
        raise AnalysisError('%s: fewer than twenty calling conventions interpreted' % f.site)


def r10_parser_by_interpretation(rep, src):
    """the paragraph parser interpreted (sa.heap, CPython's regex engine on decided lines) on a family of texts -- fields with a value,
    with NO value, with the value on the following lines, with a blank first line of the value, with tabs and blanks around the colon;
    comment lines; blank lines in front of and after the paragraph -- against the fields the text holds, in order, with their values
    (leading / trailing blanks of the first line dropped, the continuation lines verbatim).  Whatever the loop of the parser looks like."""
    from .. import heap as H
    mod = src.mod('deb822')
    f = mod.method('Deb822', '_internal_parser')
    if f is None:
        raise AnalysisError('deb822:Deb822._internal_parser not found')
    rep.saw_func(f)
    TEXTS = [
        ('A: b\nEmpty:\nC: d\n', [('A', 'b'), ('Empty', ''), ('C', 'd')]),
        ('Tag:\n', [('Tag', '')]),
        ('A: b\nLast:', [('A', 'b'), ('Last', '')]),
        ('Multi:\n x\n y\nD: e\n', [('Multi', '\n x\n y'), ('D', 'e')]),
        ('M: first\n  two\n\tthree\nD: e\n', [('M', 'first\n  two\n\tthree'), ('D', 'e')]),
        ('Blank:\n .\n x\n', [('Blank', '\n .\n x')]),
        ('#c\nA: b\n#mid\n more\n\nB: c\n', [('A', 'b\n more')]),
        ('\n\nA:\nB:  x  \n', [('A', ''), ('B', 'x')]),
        ('A:b\nB :c\nC:\t d\n', [('A', 'b'), ('B', 'c'), ('C', 'd')]),
        ('A: b: c\nUrl: http://x/y\n', [('A', 'b: c'), ('Url', 'http://x/y')]),
        ('A: 0\nB: False\nC: \u00e9\n', [('A', '0'), ('B', 'False'), ('C', '\u00e9')]),
    ]
    bad, n = None, 0
    for text, want in TEXTS:
        for form in ('str', 'lines', 'bytes lines'):
            stored = []
            heap = H.Heap(mod, hooks={'__setitem__': lambda it, a, k, stored=stored: stored.append((a[1], a[2])),
                                      '.decode': lambda it, a, k: (a[1].decode('utf-8') if isinstance(a[1], bytes) else a[1]) if len(a) > 1 else a[0]})
            heap.native_regex = True
            it = H.Interp(heap)
            me = heap.alloc('Deb822', {'decoder': heap.alloc('Decoder', {}, name='@decoder'), 'encoding': 'utf-8'})
            arg = text if form == 'str' else heap.new_list(text.splitlines(True) if form == 'lines' else [l_.encode('utf-8') for l_ in text.splitlines(True)])
            n += 1
            try:
                it.call(H.Closure(f.node, {}, me, f.cls), [arg, None, None])
                got = [(k_.spelling if isinstance(k_, H.Key) else k_, v_.concrete() if hasattr(v_, 'concrete') else v_) for k_, v_ in stored]
            except H.Raised as x:
                got = 'raises %s (line %d)' % (x.exc, x.lineno)
            if got != want and bad is None:
                bad = 'the text %r (given as %s) is read as %s; it holds the fields %r%s' % (
                    text, form, got if isinstance(got, str) else repr(got), want,
                    ': a field without a value is a field (its value is the empty text)' if not isinstance(got, str) and len(got) < len(want) else '')
    rep.analysed['paths'] += n
    what = 'the parser reads the fields of a paragraph, in order, with their values (interpreted texts)'
    if bad:
        rep.fail('C02.R10', f.site, what, bad, where=f.where)
    else:
        rep.ok('C02.R10', f.site, what, '%d texts in three input forms' % len(TEXTS))


def r11_input_forms(rep, src, tier):
    """the constructors interpreted end to end (sa.heap, CPython's regex engine on decided lines) on one paragraph given in every input
    form -- text, bytes, lines with and without line ends, lines of bytes -- plain, clearsigned, clearsigned behind a comment line,
    with comment lines between the fields, behind blank lines: the generic paragraph class and the signed-document classes read the
    same fields with the same values, whatever the form and whatever stands around the payload."""
    from .. import heap as H
    mod = src.mod('deb822')
    BODY = 'Source: hello\nVersion: 1.0-1\nDescription: short\n long line\n .\n last\n'
    FIELDS = [('Source', 'hello'), ('Version', '1.0-1'), ('Description', 'short\n long line\n .\n last')]
    ARMOR = ('-----BEGIN PGP SIGNED MESSAGE-----\nHash: SHA256\n\n', '\n-----BEGIN PGP SIGNATURE-----\n\niQEzBAEBCAAdFiEE\n=abcd\n-----END PGP SIGNATURE-----\n')
    TEXTS = [('plain', BODY), ('clearsigned', ARMOR[0] + BODY + ARMOR[1]), ('clearsigned behind a comment line', '# generated\n' + ARMOR[0] + BODY + ARMOR[1]),
             ('comment lines between the fields', 'Source: hello\n# c1\nVersion: 1.0-1\nDescription: short\n long line\n# c2\n .\n last\n'),
             ('clearsigned with comment lines between the fields', ARMOR[0] + 'Source: hello\n# c1\nVersion: 1.0-1\nDescription: short\n long line\n .\n last\n' + ARMOR[1]),
             ('behind blank lines', '\n\n' + BODY), ('without the final line end', BODY[:-1])]
    classes = ['Deb822', 'Dsc'] + (['Changes'] if tier == 'thorough' else [])
    n, bad = 0, None
    for cname in classes:
        init = mod.method(cname, '__init__')
        if init is None:
            raise AnalysisError('deb822:%s.__init__ not found' % cname)
        for label, text in TEXTS:
            forms = [('text', text), ('bytes', text.encode()), ('lines with line ends', text.splitlines(True)), ('lines without line ends', text.splitlines()),
                     ('lines of bytes', [l_.encode() for l_ in text.splitlines(True)])]
            for form, arg in forms:
                heap = H.Heap(mod, extra_modules=[src.mod('_util')], hooks={'_strI': lambda it, a, k: H.Key(a[0].lower(), a[0]) if isinstance(a[0], str) else a[0]})
                heap.native_regex = True
                it = H.Interp(heap)
                p = heap.alloc(cname, {})
                n += 1
                try:
                    it.call(H.Closure(init.node, {}, p, init.cls), [heap.new_list(list(arg)) if isinstance(arg, list) else arg])
                    d_ = heap.objs[p.name].get('_Deb822Dict__dict')
                    if not (isinstance(d_, H.Ref) and heap.objs[d_.name]['__class__'] == 'dict'):
                        raise AnalysisError('deb822:Deb822Dict: the fields of a paragraph are not kept in self.__dict')
                    got = [(getattr(k_, 'spelling', k_), v_.concrete() if hasattr(v_, 'concrete') else v_) for k_, v_ in heap.objs[d_.name]['entries']]
                except H.Raised as x:
                    got = 'raises %s (line %d)' % (x.exc, x.lineno)
                if got != FIELDS and bad is None:
                    bad = (cname, '%s(<%s>) for the paragraph %s: %s; the paragraph has the fields %r' % (
                        cname, form, label, got if isinstance(got, str) else 'the fields read are %r' % (got,), [k_ for k_, _v in FIELDS]))
    rep.analysed['paths'] += n
    what = 'the same fields whatever the input form, the armor and the comment lines around the payload (interpreted constructors)'
    f = mod.method('Deb822', 'split_gpg_and_payload') or mod.method('Deb822', '__init__')
    if bad:
        rep.fail('C02.R11', f.site, what, bad[1], where=f.where)
    else:
        rep.ok('C02.R11', f.site, what, '%d constructions: %d classes x %d paragraphs x 5 forms' % (n, len(classes), len(TEXTS)))


def r9_paragraphs_share_no_container(rep, src):
    """the paragraphs that one iter_paragraphs() call produces are independent objects: what one of them spells, holds or caches does
    not reach the next.  Ownership rule on every iter_paragraphs of the module: a builtin container (dict / list / set display or
    constructor, defaultdict, OrderedDict) created OUTSIDE the loop that builds the paragraphs is not handed to the paragraph
    constructor inside it -- such an object is one table for the whole document (field-name spellings, values or flags of an
    earlier paragraph would answer for a later one).  The input iterator and the configuration values are shared by design."""
    mod = src.mod('deb822')
    n = 0
    MUT = ('dict', 'list', 'set', 'collections.defaultdict', 'defaultdict', 'collections.OrderedDict', 'OrderedDict', 'collections.deque', 'deque', 'bytearray')
    for q, f in sorted(mod.funcs.items()):
        if not q.endswith('.iter_paragraphs') or '#' in q:
            continue
        loops = [l_ for l_ in ast.walk(f.node) if isinstance(l_, (ast.For, ast.While))]
        ctor_loops = []
        for l_ in loops:
            calls = [c for c in ast.walk(l_) if isinstance(c, ast.Call) and isinstance(c.func, ast.Name) and (c.func.id == 'cls' or c.func.id in mod.classes)]
            if calls:
                ctor_loops.append((l_, calls))
        if not ctor_loops:
            continue
        rep.saw_func(f)
        inside = {id(n_) for l_, _c in ctor_loops for n_ in ast.walk(l_)}
        shared, other = {}, set()
        for st in ast.walk(f.node):
            if isinstance(st, (ast.Assign, ast.AnnAssign)):
                tgt = st.targets[0] if isinstance(st, ast.Assign) else st.target
                v = st.value
                if not isinstance(tgt, ast.Name) or v is None:
                    continue
                if id(st) not in inside and (isinstance(v, (ast.Dict, ast.List, ast.Set, ast.ListComp, ast.DictComp, ast.SetComp))
                                             or (isinstance(v, ast.Call) and norm(v.func) in MUT)):
                    shared.setdefault(tgt.id, st)
                else:
                    other.add(tgt.id)         # (a placeholder that is re-bound to something else -- the input iterator -- is not that container)
        shared = {k_: v_ for k_, v_ in shared.items() if k_ not in other}
        for l_, calls in ctor_loops:
            for c in calls:
                n += 1
                what = 'paragraph constructor `%s` in the loop of %s' % (norm(c)[:50], q)
                used = sorted({x.id for a_ in list(c.args) + [k_.value for k_ in c.keywords] for x in ast.walk(a_) if isinstance(x, ast.Name) and x.id in shared})
                if used:
                    rep.fail('C02.R9', f.site, what, 'the container `%s`, created once (line %d) before the loop, is handed to every paragraph of the document: what an earlier '
                             'paragraph put into it (e.g. the spelling of a field name) answers for a later one -- a document whose paragraphs spell a field differently '
                             '("Package" / "package") reads back with the first spelling everywhere' % (used[0], shared[used[0]].lineno), where='%s:%d' % (mod.relpath, c.lineno))
                else:
                    rep.ok('C02.R9', f.site, what, 'only the input, configuration values and objects made for this paragraph', nontrivial=False)
    if n < 2:
        raise AnalysisError('fewer than two paragraph constructors in iter_paragraphs loops (%d)' % n)


def r7_encoding_reaches_decoder(rep, src):
    """a reader that turns text lines into bytes before handing them to the paragraph parser (to keep the raw bytes of a signed
    document) must have them decoded with the encoding it encoded them with: the encoding argument of the encode helper flows
    into the `encoding` keyword of the base constructor on the path that replaces the input by the encoded lines.  Otherwise a
    text file object whose encoding is not UTF-8 is read differently from the same text given as str."""
    f0 = src.func('deb822:_gpg_multivalued.__init__')
    rep.saw_func(f0)
    fnode, _x = normalize.propagate_aliases(f0.node, only_simple=False, also_bool=True)      # named conditions are read through
    from ..core import Func, set_parents
    set_parents(fnode)
    f = Func(f0.module, fnode, f0.qual, f0.cls)
    def _per_line(c):
        # inside a loop / comprehension / nested generator: applied to the lines one by one
        a_ = c
        while getattr(a_, '_parent', None) is not None and a_._parent is not f.node:
            a_ = a_._parent
            if isinstance(a_, (ast.For, ast.GeneratorExp, ast.ListComp, ast.FunctionDef)):
                return True
        return False
    enc_calls = [c for c in ast.walk(f.node) if isinstance(c, ast.Call) and isinstance(c.func, ast.Attribute) and c.func.attr in ('_bytes', 'encode') and c.args
                 and _per_line(c)]
    names = set()
    for c in enc_calls:
        a = c.args[-1]
        if isinstance(a, (ast.Name, ast.Constant)):
            names.add(norm(a))
    if len(names) != 1:
        raise AnalysisError('%s: the encoding used to turn text lines into bytes is not one local or constant (%s)' % (f.site, sorted(names)))
    enc = next(iter(names))
    # the lines are encoded one by one: with a codec that writes a signature on every call (utf-8-sig, utf-16, utf-32) each line would
    # begin with a byte order mark and blank lines, comment lines and the armor would not be recognised.  The codec of the per-line
    # encoder is therefore a constant that names a codec without signature -- not the encoding of the file object or the caller's.
    binds = [st for st in ast.walk(f0.node) if isinstance(st, ast.Assign) and len(st.targets) == 1 and norm(st.targets[0]) == enc]
    what0 = 'text lines are encoded one by one with a codec that writes no signature'
    plain = {'utf-8', 'utf8', 'ascii', 'us-ascii', 'latin-1', 'latin1', 'iso-8859-1'}
    a0 = enc_calls[0].args[-1]
    codec = a0.value if isinstance(a0, ast.Constant) else (binds[0].value.value if len(binds) == 1 and isinstance(binds[0].value, ast.Constant) else None)
    if codec is None and not binds and isinstance(a0, ast.Name) and a0.id not in [a.arg for a in f0.node.args.args + f0.node.args.kwonlyargs] \
            and isinstance(f0.module.consts.get('', {}).get(a0.id), str):
        codec = f0.module.consts[''][a0.id]                     # a module-level constant
    if isinstance(codec, str) and codec.lower().replace('_', '-') in plain:
        rep.ok('C02.R7', f.site, what0, 'codec %r' % codec)
    else:
        rep.fail('C02.R7', f.site, what0, 'every text line is turned into bytes separately with `%s` = %s: for a text file opened with utf-8-sig, utf-16 or utf-32 each line '
                 'then starts with a byte order mark, so blank lines, comments and the PGP armor are not recognised (paragraphs merge, armor headers become fields) although '
                 'the same text as str, list or StringIO is read correctly' % (enc, norm(binds[0].value)[:70] if binds else 'a parameter'),
                 where='%s:%d' % (f.module.relpath, enc_calls[0].lineno))
    # a flag that records that text lines were encoded: changed only next to the per-line encoder, under a test that the line is text
    text_flags = set()
    for c in ast.walk(f.node):
        if isinstance(c, ast.Call) and isinstance(c.func, ast.Attribute) and c.func.attr in ('append', 'add') and isinstance(c.func.value, ast.Name) and _per_line(c):
            par_ = getattr(getattr(c, '_parent', None), '_parent', None)
            if isinstance(par_, ast.If) and norm(par_.test).startswith('isinstance(') and norm(par_.test).endswith(', str)'):
                text_flags.add(c.func.value.id)
    for n_ in list(text_flags):
        others = [x for x in ast.walk(f.node) if isinstance(x, ast.Name) and x.id == n_ and isinstance(x.ctx, ast.Store)]
        if len(others) != 1:
            text_flags.discard(n_)
    g = cfg.CFG(f.node)
    base_calls = [c for c in ast.walk(f.node) if isinstance(c, ast.Call) and isinstance(c.func, ast.Attribute) and c.func.attr == '__init__' and norm(c.func.value) != 'self']
    if len(base_calls) != 1:
        raise AnalysisError('%s: base constructor call not found' % f.site)
    bc = base_calls[0]
    # stores kwargs['encoding'] = <enc> / an explicit encoding=<enc> keyword of the base call
    passes = any(k.arg == 'encoding' and norm(k.value) == enc for k in bc.keywords)
    stores = [st for st in ast.walk(f.node) if isinstance(st, ast.Assign) and len(st.targets) == 1 and isinstance(st.targets[0], ast.Subscript)
              and isinstance(st.targets[0].slice, ast.Constant) and st.targets[0].slice.value == 'encoding' and norm(st.value) == enc
              and any(k.arg is None and norm(k.value) == norm(st.targets[0].value) for k in bc.keywords)]
    # the replacement of the input by the encoded lines
    # (a store into args[0] / kwargs['sequence'], or a re-binding of args / kwargs to a value built from the encoded lines)
    split_targets = set()
    for st in ast.walk(f.node):
        if isinstance(st, ast.Assign) and any(isinstance(c, ast.Call) and isinstance(c.func, ast.Attribute) and c.func.attr in ('split_gpg_and_payload', 'gpg_stripped_paragraph')
                                              for c in ast.walk(st.value)):
            for t_ in st.targets:
                split_targets |= {n_.id for n_ in ast.walk(t_) if isinstance(n_, ast.Name)}
    repl = [st for st in ast.walk(f.node) if isinstance(st, ast.Assign) and len(st.targets) == 1 and (
        (isinstance(st.targets[0], ast.Subscript) and isinstance(st.targets[0].slice, ast.Constant) and st.targets[0].slice.value in (0, 'sequence'))
        or (isinstance(st.targets[0], ast.Name) and st.targets[0].id in ('args', 'kwargs') and any(isinstance(n_, ast.Name) and n_.id in split_targets for n_ in ast.walk(st.value))))]
    if not repl:
        raise AnalysisError('%s: the replacement of the input by the encoded lines was not found' % f.site)
    what = 'encoded lines are decoded with the encoding they were encoded with'
    if passes:
        rep.ok('C02.R7', f.site, what, 'encoding=%s in the base constructor call' % enc)
        return
    # every path from a replacement to the base call passes a store (or the store dominates the call from the replacement's block)
    bn = g.node_for(bc).id
    # a store that only depends on how many positional arguments were given (the encoding passed positionally cannot be given again
    # as a keyword) counts as unconditional: the test node is avoided together with the store
    guards = set()
    for s_ in stores:
        par = getattr(s_, '_parent', None)
        if isinstance(par, ast.If) and s_ in par.body and not par.orelse and all(isinstance(n_, (ast.Name, ast.Constant, ast.Compare, ast.Call, ast.Load, ast.Lt, ast.LtE, ast.Gt, ast.GtE))
                                                                             for n_ in ast.walk(par.test)) \
                and {n_.id for n_ in ast.walk(par.test) if isinstance(n_, ast.Name)} <= ({'len', 'args'} | text_flags):
            pass
        else:
            par = None
        if par is None and isinstance(getattr(s_, '_parent', None), ast.If):
            # the same through `not <comparison of len(args)>`
            p2 = s_._parent
            names2 = {n_.id for n_ in ast.walk(p2.test) if isinstance(n_, ast.Name)}
            par = p2 if s_ in p2.body and not p2.orelse and names2 <= ({'len', 'args'} | text_flags) else None
        if par is not None:
            guards.add(g.node_for(par.test).id if hasattr(g, 'node_for') else None)
    ok = bool(stores) and all(not g.exists_path(g.node_for(r_).id, bn, avoid=({g.node_for(s_).id for s_ in stores} | guards) - {g.node_for(r_).id}) or
                              any(g.node_for(s_).id == g.node_for(r_).id for s_ in stores) for r_ in repl)
    if ok:
        rep.ok('C02.R7', f.site, what, "kwargs['encoding'] = %s on every path from the replacement to the base constructor" % enc)
    else:
        rep.fail('C02.R7', f.site, what, 'the text lines of a file object are turned into bytes with `%s` (the file object\'s own encoding when it has one) but the base constructor '
                 'decodes them with its default: Dsc/Changes built from a text file opened with latin-1 or utf-8-sig differ from the same text given as str (mojibake, a BOM in '
                 'front of every field name)' % enc, where=f.where)


def check(src, rep, tier):
    rep.explanation = ('C02: the dump template of Deb822._dump_format is extracted (E3) and instantiated with the property\'s value '
                       'grammar (empty / empty first line + continuation / text first line / blank first line); the text language is '
                       'split into reader lines under str.splitlines and under file iteration, normalised like the reader does, and '
                       'pushed through the regex cascade extracted from _internal_parser: key and trimmed first line must be captured '
                       'exactly on every parse (marked-language inclusion), continuation lines must reach the verbatim-append branch, '
                       'and no line may be a separator, PGP line or comment.  AST/CFG rules: decode before match, splitlines for str '
                       'and bytes, CR/LF strip dominates payload append, bytes/str twins identical, branches exclusive, flushes.')
    rep.not_decided = ['PGP armor state machine beyond "dumped lines are not armor lines"', '_AutoDecoder / chardet',
                       'iter_paragraphs re-entering the shared iterator for multi-paragraph input']
    rep.need('C02.R1', 40)
    rep.need('C02.R2', 5)
    rep.need('C02.R3', 4)
    rep.need('C02.R4', 5)
    rep.need('C02.R5', 1)
    rep.need('C02.R6', 2)
    rep.need('C02.R11', 1)
    rep.guard('C02.R11', r11_input_forms, src, tier)
    rep.need('C02.R10', 1)

    def language_level(soft):
        # the regex cascade of the parser loop against the dump template -- exact for EVERY value of the grammar when the loop is in
        # the model's vocabulary; where it is not, the interpreted texts decide
        M = soft.guard('C02.R1', lambda r_: Model(src, r_))
        if M is not None:
            soft.guard('C02.R1', r1_agreement, src, M)
            soft.guard('C02.R2', r2_normalisation, src, M)
            soft.guard('C02.R3', r3_twins, src, M)
            soft.guard('C02.R4', r4_accumulation, src, M)
            soft.guard('C02.R5', r5_key_acceptance, src, M)
            soft.guard('C02.R6', r6_filter_before_split, src, M)
        elif soft.softened:
            for r_ in ('C02.R1', 'C02.R2', 'C02.R3', 'C02.R4', 'C02.R5', 'C02.R6'):
                rep.min_instances[r_] = 0
    common.two_readings(rep, 'C02.R10', lambda r_: r10_parser_by_interpretation(r_, src), language_level,
                        'the interpreted texts (C02.R10), which are read as written', 'the language-level rules C02.R1 to R6, which apply and hold')
    rep.need('C02.R7', 1)
    n_v, n_e = len(rep.violations), len(rep.errors)
    rep.guard('C02.R7', r7b_line_codec_handover, src)
    handover_holds = len(rep.violations) == n_v and len(rep.errors) == n_e
    n_r7 = sum(1 for i_ in rep.instances if i_.get('rule') == 'C02.R7')
    common.SoftAll(rep, lambda: handover_holds, 'the interpreted constructor (C02.R7), which holds under every calling convention').guard('C02.R7', r7_encoding_reaches_decoder, src)
    if rep.min_instances.get('C02.R7') == 0:
        rep.min_instances['C02.R7'] = n_r7
    rep.need('C02.R8', 2)
    rep.guard('C02.R8', r8_piecewise_encoding, src)
    rep.need('C02.R9', 2)
    rep.guard('C02.R9', r9_paragraphs_share_no_container, src)
    rep.guard('C02.R9', common.check_class_level_mutables, src, 'C02.R9', 'deb822', 'the result of reading one document then depends on which documents were read before it in the same process (the input form of an EARLIER object decides how a later one is decoded)')
    from . import common as _common_flags
    rep.guard('C02.R3', _common_flags.check_re_positional_flags, src, 'C02.R3', 'deb822', 'a text with more separators than that is cut short')

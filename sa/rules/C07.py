"""C07 -- DebFile returns exactly what was packed and rejects malformed packages."""
import ast

from .. import cfg
from ..core import AnalysisError, norm, walk_no_nested

META = {
    'design_ref': 'DESIGN.md §5 C07',
    'technique': 'abstract interpretation (sa.heap with symbolic strings) of has_file/get_file on the three spellings of a member name, of DebFile.__init__ on all archive layouts with zero, one or two candidates per part, of tgz() on every candidate name and error source, of md5sums()/scripts()/debcontrol() on symbolic lines; two-instance scenario for state shared between parts; layouts with a duplicated member name; position of the member when tarfile.open receives it; newline mode of the text wrapper; six member orders; ownership rule: the member object a part reads through is not one the archive hands out (one cursor per holder); format-arity rule for the messages of refusals; frame rule over the content queries (no remembered answer object, no memoising decorator); the archive walk on a model archive with an empty member and repeated names (the member set the part checks see)',
    'level_text': 'Static decision: every query name passes through a normaliser that strips exactly one leading "./" or "/" before the '
                  'single lookup spelling "./name"; the part for control/data is the unique member among all compressed and uncompressed '
                  'candidates or DebError; every candidate name is accepted by the extension test; all structural failures raise DebError; '
                  'md5sums lines are split once on whitespace after stripping only the line end.  Contents (tarfile, codecs) are not decided.',
    'level_note': 'trusted: CFG builder, constant folding, the recognised idioms (others are ANALYSIS-ERROR); tarfile/gzip/bz2/lzma behaviour',
}

M = 'debfile'


def r1_path_spelling(rep, src):
    from .. import heap as H, symstr
    from ..symstr import SStr
    f = src.func(M + ':DebPart.__normalize_member')
    rep.saw_func(f)
    # the three spellings of a member name, as cases over symbolic strings
    X1 = symstr.atom('name', r'[^./](?s:.*)')                 # plain relative name
    X2 = SStr(['.']) + symstr.atom('idden', r'[^/](?s:.*)')   # starts with '.', not with './' (".hidden", "..data")
    ANY = symstr.atom('rest', r'(?s:.*)')
    cases = [('plain name', X1, X1), ('name starting with a dot', X2, X2), ('"./" + rest', SStr(['./']) + ANY, ANY), ('"/" + rest', SStr(['/']) + ANY, ANY),
             ('empty name', SStr(), SStr())]
    for mname in ('has_file', 'get_file'):
        g = src.func(M + ':DebPart.' + mname)
        rep.saw_func(g)
        for cname, arg, rel in cases:
            want = SStr(['./']) + rel
            looked = []

            def getnames(it, args, kw, want=want):
                looked.append(('getnames', None))
                return it.h.new_list([want])

            def extractfile(it, args, kw):
                looked.append(('extractfile', args[1] if len(args) > 1 else None))
                return it.h.alloc('FileObj', {}, name='@fobj')
            heap = H.Heap(src.mod(M), hooks={'.tgz': lambda it, args, kw: it.h.alloc('Tar', {}, name='@tar'), '.getnames': getnames, '.extractfile': extractfile,
                                             'io.TextIOWrapper': lambda it, args, kw: args[0]})
            heap.symbolic_strings = True
            part = heap.alloc('DebPart', {}, name='@part')
            it = H.Interp(heap)
            what = '%s(%s) looks up "./" + relative name' % (mname, cname)
            try:
                r = it.call(H.Closure(g.node, {}, part, g.cls), [arg] + ([None, None] if mname == 'get_file' else []))
            except H.Raised as x:
                rep.fail('C07.R1', g.site, what, 'raises %s' % x.exc, where=g.where)
                continue
            if mname == 'has_file':
                if r is True:
                    rep.ok('C07.R1', g.site, what, 'member %r is found for the spelling %r' % (want, arg))
                else:
                    rep.fail('C07.R1', g.site, what, 'the archive member %r is not found when asked for %r: "name", "./name" and "/name" are answered differently '
                             '(the name must lose exactly one leading "./" or "/")' % (want, arg), where=g.where)
            else:
                got = [x[1] for x in looked if x[0] == 'extractfile']
                if len(got) == 1 and isinstance(got[0], (SStr, str)) and symstr.lift(got[0]).same(want):
                    rep.ok('C07.R1', g.site, what, 'extractfile(%r)' % (got[0],))
                else:
                    rep.fail('C07.R1', g.site, what, 'asked for %r, the tar member looked up is %r instead of %r: membership and content queries disagree / the name is '
                             'not normalised by removing exactly one leading "./" or "/"' % (arg, got, want), where=g.where)
    # two parts (of one or of different packages) in one process: each answers from its own archive only, whatever was
    # asked of the other before (no state shared between DebPart objects)
    g = src.func(M + ':DebPart.has_file')
    archives = {'@partA': ['./usr/bin/a', './control'], '@partB': ['./usr/bin/b']}
    heap = H.Heap(src.mod(M), hooks={'.tgz': lambda it, args, kw: it.h.alloc('Tar', {'owner': args[0].name}),
                                     '.getnames': lambda it, args, kw: it.h.new_list(list(archives[it.h.objs[args[0].name]['owner']]))})
    heap.symbolic_strings = True
    pa, pb = heap.alloc('DebPart', {}, name='@partA'), heap.alloc('DebPart', {}, name='@partB')
    it = H.Interp(heap)
    script = [(pa, 'usr/bin/a', True), (pb, 'usr/bin/b', True), (pb, 'usr/bin/a', False), (pa, 'usr/bin/b', False), (pa, 'control', True), (pb, 'control', False)]
    wrong = None
    for part, name, want in script:
        try:
            r = it.call(H.Closure(g.node, {}, part, g.cls), [name])
        except H.Raised as x:
            r = 'raises ' + x.exc
        if r is not want and wrong is None:
            wrong = 'after earlier queries on another part, %s.has_file(%r) answers %r although its archive holds %r' % (part.name, name, r, archives[part.name])
    if wrong:
        rep.fail('C07.R1', g.site, 'a part answers from its own archive only', wrong + ': state is shared between DebPart objects (class-level container / cache)', where=g.where)
    else:
        rep.ok('C07.R1', g.site, 'a part answers from its own archive only', '%d interleaved queries on two parts' % len(script))
    for mname, via in (('__contains__', 'self.has_file'), ('__getitem__', 'self.get_content'), ('get_content', 'self.get_file')):
        g = src.func(M + ':DebPart.' + mname)
        if any(isinstance(c, ast.Call) and norm(c.func) == via and norm(c.args[0]) == g.params()[1] for c in ast.walk(g.node)):
            rep.ok('C07.R1', g.site, 'routes through ' + via, 'ok', nontrivial=False)
        else:
            rep.fail('C07.R1', g.site, 'routes through ' + via, '%s does not go through %s' % (mname, via), where=g.where)


def _build_deb(src, names):
    """interpret DebFile.__init__ on an archive with these member names -> ('ok', {part: member}) / ('raise', exc)"""
    from .. import heap as H
    mod = src.mod(M)
    f = src.func(M + ':DebFile.__init__')
    heap = H.Heap(mod, hooks={'ArFile.__init__': lambda it, args, kw: None, '.getnames': lambda it, args, kw: it.h.new_list(list(names)),
                              '.getmember': lambda it, args, kw: it.h.alloc('ArMember', {'name': args[1]}), '.read': lambda it, args, kw: '2.0\n', '.close': lambda it, args, kw: None,
                              'DebControl': lambda it, args, kw: it.h.alloc('DebControl', {'member': args[0]}),
                              'DebData': lambda it, args, kw: it.h.alloc('DebData', {'member': args[0]})})
    heap.symbolic_strings = True
    me = heap.alloc('DebFile', {}, name='@deb')
    it = H.Interp(heap)
    try:
        it.call(H.Closure(f.node, {}, me, f.cls), [None, 'r', None])
    except H.Raised as x:
        return ('raise', x.exc)
    # what the object answers through its own accessors (whatever it keeps the parts in)
    out = {}
    for k, acc in (('control.tar', 'control'), ('data.tar', 'data')):
        try:
            v = it.ev(ast.parse('m.%s' % acc, mode='eval').body, {'m': me}, None)
        except H.Raised as x:
            return ('raise', x.exc)
        if isinstance(v, H.Ref):
            o = heap.objs[v.name]
            mem = o.get('member')
            out[k] = (o['__class__'], heap.objs[mem.name]['name'] if isinstance(mem, H.Ref) else None)
    return ('ok', out)


def r2_part_discovery(rep, src):
    f = src.func(M + ':DebFile.__init__')
    rep.saw_func(f)
    from .. import heap as H
    import itertools
    mod = src.mod(M)
    exts = mod.consts.get('', {}).get('PART_EXTS')
    if not exts or not {'gz', 'bz2', 'xz', 'lzma'} <= set(exts):
        rep.fail('C07.R2', M + ':PART_EXTS', 'compression extensions', 'PART_EXTS = %r lacks one of gz, bz2, xz, lzma' % (exts,))
    else:
        rep.ok('C07.R2', M + ':PART_EXTS', 'compression extensions', repr(exts), nontrivial=False)
    consts = mod.consts.get('', {})
    CTRL, DATA, INFO = consts.get('CTRL_PART'), consts.get('DATA_PART'), consts.get('INFO_PART')
    if (CTRL, DATA, INFO) != ('control.tar', 'data.tar', 'debian-binary'):
        rep.fail('C07.R2', M, 'part names', 'CTRL_PART/DATA_PART/INFO_PART are %r' % ((CTRL, DATA, INFO),))
        return

    def build(names):
        return _build_deb(src, names)
    n_cases = 0
    bad = None
    for part, other, cls_ in ((CTRL, DATA + '.gz', 'DebControl'), (DATA, CTRL + '.gz', 'DebData')):
        cands = ['%s.%s' % (part, e) for e in exts] + [part]
        base = [INFO, other, '_gpgorigin']
        scen = [((), 'DebError')] + [((c,), c) for c in cands] + [(pair, 'DebError') for pair in itertools.combinations(cands, 2)] + [(tuple(cands), 'DebError')]
        # two members of the same name are two candidates as well (ar allows it; the second would silently win)
        scen += [((c, c), 'DebError') for c in cands]
        for members, want in scen:
            n_cases += 1
            res = build(base + list(members))
            if want == 'DebError':
                if res != ('raise', 'DebError') and bad is None:
                    bad = 'an archive with the members %s for the %s part is %s; exactly one of %s must be present, otherwise DebError' % (
                        list(members) or 'none', part, 'accepted (part wired to %r)' % (res[1].get(part),) if res[0] == 'ok' else 'rejected with %s' % res[1], cands)
            else:
                if (res[0] != 'ok' or res[1].get(part) != (cls_, want)) and bad is None:
                    bad = 'an archive whose %s part is the single member %r gives %r instead of %s(%s)' % (part, want, res, cls_, want)
    res = build([CTRL + '.gz', DATA + '.gz'])
    n_cases += 1
    if res != ('raise', 'DebError') and bad is None:
        bad = 'an archive without %s is not rejected with DebError (%r)' % (INFO, res)
    res = build([INFO, CTRL + '.gz', DATA + '.gz', INFO])
    n_cases += 1
    if res != ('raise', 'DebError') and bad is None:
        bad = 'an archive with two %s members is accepted (the format version is read from the second): more than one candidate for a part must be rejected' % INFO
    # members whose names are not part names -- pieces, prefixes and suffixes of part names included -- are no candidates: next to a
    # complete package they change nothing, and they do not stand in for a missing part
    near = ['tar', 'data', 'control', 'gz', 'x', 'data.tar.g', 'ata.tar.gz', 'control.tar.gzz', 'data.tar.', '.tar.gz', 'control.tar.gz ', 'debian-binar']
    near_bad = None
    for extra in near:
        n_cases += 2
        res = build([INFO, CTRL + '.gz', DATA + '.xz', extra])
        if (res[0] != 'ok' or res[1].get(CTRL) != ('DebControl', CTRL + '.gz') or res[1].get(DATA) != ('DebData', DATA + '.xz')) and near_bad is None:
            near_bad = 'a complete package with the additional member %r gives %r: a member that is not a part name is not a candidate for a part' % (extra, res)
        res = build([INFO, CTRL + '.gz', extra])
        if res != ('raise', 'DebError') and near_bad is None:
            near_bad = 'an archive without data part but with a member %r is %s: the member name is tested as a piece of text of the candidate names, not as one of them' % (
                extra, 'accepted (data part wired to %r)' % (res[1].get(DATA),) if res[0] == 'ok' else 'rejected with %s' % (res[1],))
    if near_bad:
        rep.fail('C07.R2', f.site, 'only part names are candidates', near_bad, where=f.where)
    else:
        rep.ok('C07.R2', f.site, 'only part names are candidates', '%d near-miss member names next to a complete package and in place of the data part' % len(near))
    # member order is a configuration of the property: the three members in every order give the same parts
    order_bad = None
    for perm in itertools.permutations([INFO, CTRL + '.xz', DATA + '.gz']):
        n_cases += 1
        res = build(list(perm))
        if (res[0] != 'ok' or res[1].get(CTRL) != ('DebControl', CTRL + '.xz') or res[1].get(DATA) != ('DebData', DATA + '.gz')) and order_bad is None:
            order_bad = 'the members in the order %s give %r; every order of the three members is the same package' % (list(perm), res)
    if order_bad:
        rep.fail('C07.R2', f.site, 'member order does not matter', order_bad, where=f.where)
    else:
        rep.ok('C07.R2', f.site, 'member order does not matter', 'all 6 orders of debian-binary / control / data wire the same parts')
    if bad:
        rep.fail('C07.R2', f.site, 'exactly one candidate per part', bad, where=f.where)
    else:
        rep.ok('C07.R2', f.site, 'exactly one candidate per part', '%d archive layouts interpreted: none / two or more candidates → DebError, a single candidate (compressed or '
               'uncompressed) is wired to its part' % n_cases)
    rep.analysed['paths'] += n_cases
    # every candidate name passes the extension test of tgz(); other names are refused; tarfile errors become DebError
    t = src.func(M + ':DebPart.tgz')
    rep.saw_func(t)
    import os.path as _osp

    seen_pos = []

    def open_part(name, tar_error=None, start_pos=0):
        def topen(it, args, kw):
            if tar_error:
                raise H.Raised(tar_error, it.h.version, 0)
            # tarfile.open(mode=...) as documented: 'r' / 'r:*' detect the compression, 'r:' is uncompressed only,
            # 'r:gz' / 'r:bz2' / 'r:xz' exactly that format (.lzma members are read by the xz decoder with 'r:*' only);
            # any other filter name is a CompressionError, a wrong one a ReadError
            mode = kw.get('mode', args[1] if len(args) > 1 else 'r')
            mode = mode.concrete() if hasattr(mode, 'concrete') else mode
            if not isinstance(mode, str):
                raise AnalysisError('tarfile.open is called with a mode that is not a decided string')
            ext = _osp.splitext(name)[1][1:]
            fmt = {'gz': 'gz', 'bz2': 'bz2', 'xz': 'xz', 'lzma': 'lzma', 'tar': ''}.get(ext, ext)
            if mode in ('r', 'r:*'):
                pass
            elif mode.startswith('r:') and mode[2:] in ('', 'gz', 'bz2', 'xz'):
                if mode[2:] != fmt:
                    raise H.Raised('tarfile.ReadError', it.h.version, 0)
            else:
                raise H.Raised('tarfile.CompressionError', it.h.version, 0)
            seen_pos.append(it.h.objs['@member'].get('#pos'))
            return it.h.alloc('TarFile', {}, name='@tar')

        def mseek(it, args, kw):
            if isinstance(args[0], H.Ref) and args[0].name == '@member':
                it.h.objs['@member']['#pos'] = args[1] if len(args) > 1 else None
            return None
        heap = H.Heap(mod, hooks={'os.path.splitext': lambda it, args, kw: tuple(_osp.splitext(args[0])), 'tarfile.open': topen, '.seek': mseek})
        heap.symbolic_strings = True
        member = heap.alloc('ArMember', {'name': name, '#pos': start_pos}, name='@member')
        part = heap.alloc('DebPart', {'_DebPart__member': member, '_DebPart__tgz': None}, name='@part')
        try:
            r = H.Interp(heap).call(H.Closure(t.node, {}, part, t.cls), [])
        except H.Raised as x:
            return ('raise', x.exc)
        return ('ok', r)
    cands = ['%s.%s' % (p_, e) for p_ in (CTRL, DATA) for e in exts] + [CTRL, DATA]
    refused = [c for c in cands if open_part(c)[0] != 'ok']
    if refused:
        rep.fail('C07.R2', t.site, 'every candidate passes the extension test', 'tgz() refuses the part %r that DebFile.__init__ selects (%r)' % (refused[0], open_part(refused[0])), where=t.where)
    else:
        rep.ok('C07.R2', t.site, 'every candidate passes the extension test', '%d candidate member names are opened' % len(cands))
    odd = [n for n in ('data.tar.zip', 'control.tar.foo', 'data.tgz') if open_part(n) != ('raise', 'DebError')]
    if odd:
        rep.fail('C07.R3', t.site, 'unknown part extensions → DebError', 'the member %r is opened / fails with %r instead of DebError' % (odd[0], open_part(odd[0])), where=t.where)
    else:
        rep.ok('C07.R3', t.site, 'unknown part extensions → DebError', 'refused with DebError')
    # the tar reader starts at the beginning of the member whatever has been read from the member before (the members are also handed
    # out by getmember() / iteration of the archive): tarfile.open reads from the current position of the file object it is given
    del seen_pos[:]
    r_ = open_part(DATA + '.gz', start_pos=6)
    if r_[0] == 'ok' and seen_pos and seen_pos[-1] == 0:
        rep.ok('C07.R3', t.site, 'the part is read from its first byte', 'seek(0) on the member before tarfile.open')
    else:
        rep.fail('C07.R3', t.site, 'the part is read from its first byte', 'tarfile.open is handed the member at the position an earlier read left it at (%r): after '
                 'deb.getmember("data.tar.gz").read(6) -- or any other raw read of the member -- the part looks like an empty archive (has_file False, scripts() {}, '
                 'md5sums() "file not found")' % (seen_pos[-1] if seen_pos else None,), where=t.where)
    conv = [e for e in ('tarfile.ReadError', 'tarfile.CompressionError') if open_part(DATA + '.gz', e) != ('raise', 'DebError')]
    if conv:
        rep.fail('C07.R3', t.site, 'tarfile errors become DebError', '%s escapes from tgz() (%r)' % (conv[0], open_part(DATA + '.gz', conv[0])), where=t.where)
    else:
        rep.ok('C07.R3', t.site, 'tarfile errors become DebError', 'ReadError and CompressionError are converted')


def r6_text_wrapper(rep, src):
    """file content asked for as text is decoded, not rewritten: the text wrapper around a member does not translate line ends
    (newline '' or '\\n'; the default None turns CR LF and CR into LF)"""
    f = src.func(M + ':DebPart.get_file')
    rep.saw_func(f)
    calls = [c for c in ast.walk(f.node) if isinstance(c, ast.Call) and norm(c.func) in ('io.TextIOWrapper', 'TextIOWrapper', 'codecs.getreader')]
    if not calls:
        raise AnalysisError('%s: the text wrapper was not found' % f.site)
    for c in calls:
        nl = next((k.value for k in c.keywords if k.arg == 'newline'), None)
        nlv = nl.value if isinstance(nl, ast.Constant) else Ellipsis if nl is not None else None
        if norm(c.func) == 'codecs.getreader' or nlv in ('', '\n'):
            rep.ok('C07.R6', f.site, 'text access does not rewrite line ends', norm(c)[:70])
        else:
            rep.fail('C07.R6', f.site, 'text access does not rewrite line ends', '`%s` translates line ends (newline=%r): get_content(name, encoding=...) returns CR LF and CR of a packed file '
                     'as LF, so the content differs from what was packed (without encoding the bytes are exact)' % (norm(c)[:70], nlv), where='%s:%d' % (f.module.relpath, c.lineno))


def r3_init(rep, src):
    """DebFile.__init__ interpreted on archive layouts: a package without debian-binary is refused with DebError whatever else
    it holds; the control and data parts are wrapped in their own classes around their own members"""
    f = src.func(M + ':DebFile.__init__')
    consts = src.mod(M).consts.get('', {})
    CTRL, DATA, INFO = consts.get('CTRL_PART'), consts.get('DATA_PART'), consts.get('INFO_PART')
    layouts = [[CTRL + '.gz', DATA + '.xz'], [CTRL + '.gz'], [DATA + '.gz'], [], ['_gpgorigin', CTRL, DATA]]
    bad = [l for l in layouts if _build_deb(src, l) != ('raise', 'DebError')]
    if not bad:
        rep.ok('C07.R3', f.site, 'debian-binary is required', '%d layouts without %s → DebError' % (len(layouts), INFO))
    else:
        rep.fail('C07.R3', f.site, 'debian-binary is required', 'an archive without debian-binary is not rejected with DebError before the parts are built '
                 '(members %r → %r)' % (bad[0], _build_deb(src, bad[0])), where=f.where)
    res = _build_deb(src, [INFO, CTRL + '.xz', DATA + '.gz'])
    want = {CTRL: ('DebControl', CTRL + '.xz'), DATA: ('DebData', DATA + '.gz')}
    if res == ('ok', want):
        rep.ok('C07.R3', f.site, 'control/data parts wired to their members', 'DebControl(control.tar*), DebData(data.tar*)')
    else:
        rep.fail('C07.R3', f.site, 'control/data parts wired to their members', 'parts are built as %r' % (res[1],), where=f.where)
    for r in [x for x in walk_no_nested(f.node) if isinstance(x, ast.Raise)]:
        if 'DebError' not in norm(r):
            rep.fail('C07.R3', f.site, 'raise ' + norm(r)[:40], 'a malformed package raises something other than DebError', where=f.where)
    mod = src.mod(M)
    if 'ArError' in [norm(b) for b in mod.classes['DebError'].bases]:
        rep.ok('C07.R3', M + ':DebError', 'package-format error type', 'DebError(ArError)', nontrivial=False)


def r4_md5_scripts(rep, src):
    from .. import heap as H, symstr
    from ..symstr import SStr
    mod = src.mod(M)
    f = src.func(M + ':DebControl.md5sums')
    rep.saw_func(f)
    MD5 = symstr.atom('md5', r'[0-9a-f]{32}')
    NAME0 = symstr.atom('file name', r'[^\s\x00](?:[^\n\r\x00]*[^\s\x00])?')      # may contain blanks inside
    for binary in (True, False):
        for eol in ('\n', '\r\n'):
            # a file name may also begin with a blank ("names containing spaces"): the separator after the digest is two characters
            # wide (md5sum(1)), further blanks belong to the name
            for present, lead in ((True, ''), (False, ''), (True, ' '), (True, '  ')):
                NAME = (symstr.lift(lead) + NAME0) if lead else NAME0
                lines = [MD5 + '  ' + NAME + eol]
                heap = H.Heap(mod, hooks={'.has_file': lambda it, args, kw, present=present: present,
                                          '.get_file': lambda it, args, kw: it.h.alloc('File', {}, name='@md5file'),
                                          '.readlines': lambda it, args, kw, lines=lines: it.h.new_list(list(lines)),
                                          '.close': lambda it, args, kw: None})
                heap.symbolic_strings = True
                heap.bytes_mode = binary
                ctl = heap.alloc('DebControl', {}, name='@control')
                what = 'md5sums(%s), line end %r, md5sums member %s%s' % ('binary' if binary else 'text', eol, 'present' if present else 'missing',
                                                                          ', file name starting with %d blank(s)' % len(lead) if lead else '')
                try:
                    r = H.Interp(heap).call(H.Closure(f.node, {}, ctl, f.cls), [None if binary else 'utf-8', None])
                except H.Raised as x:
                    if not present and x.exc == 'DebError':
                        rep.ok('C07.R4', f.site, what, 'DebError')
                    else:
                        rep.fail('C07.R4', f.site, what, 'raises %s' % x.exc, where=f.where)
                    continue
                if not present:
                    rep.fail('C07.R4', f.site, what, 'a control part without md5sums is not rejected with DebError before reading', where=f.where)
                    continue
                ent = heap.objs[r.name]['entries'] if isinstance(r, H.Ref) and heap.objs[r.name]['__class__'] == 'dict' else None
                if ent is not None and len(ent) == 1 and isinstance(ent[0][0], SStr) and ent[0][0].same(NAME) and isinstance(ent[0][1], SStr) and ent[0][1].same(MD5):
                    rep.ok('C07.R4', f.site, what, '{file name: md5}')
                else:
                    rep.fail('C07.R4', f.site, what, 'the line "<md5>  %s<file name>%s" is mapped to %r instead of {%r + file name: md5}: file names with blanks are cut%s, '
                             'or more/less than the line end is stripped' % (lead, eol.replace('\r', '\\r').replace('\n', '\\n'), ent, lead,
                                                                            ' (the blanks the name starts with are taken for part of the separator)' if lead else ''), where=f.where)
    s = src.func(M + ':DebControl.scripts')
    rep.saw_func(s)
    scripts = mod.consts.get('', {}).get('MAINT_SCRIPTS') or []
    if not {'preinst', 'postinst', 'prerm', 'postrm', 'config'} <= set(scripts):
        rep.fail('C07.R4', M + ':MAINT_SCRIPTS', 'maintainer script names', 'MAINT_SCRIPTS = %r' % (scripts,))
    for present, empty, zero in ((set(scripts), set(), set()), ({'postinst', 'config'}, set(), set()), (set(), set(), set()), ({'preinst', 'prerm'}, {'prerm'}, set()),
                                 ({'preinst', 'postrm'}, set(), {'postrm'})):
        def content(it, args, kw, empty=empty, zero=zero):
            # None: not a regular file; '': a zero-length script; otherwise its text
            return None if args[1] in empty else '' if args[1] in zero else H.Key('content-of-' + args[1], args[1])
        heap = H.Heap(mod, hooks={'.has_file': lambda it, args, kw, present=present: args[1] in present, '.get_content': content,
                                  '.tgz': lambda it, args, kw: it.h.alloc('Tar', {}, name='@tar'),
                                  '.getnames': lambda it, args, kw, present=present: it.h.new_list(['./' + n_ for n_ in sorted(present)] + ['./control', './md5sums'])})
        heap.symbolic_strings = True
        ctl = heap.alloc('DebControl', {}, name='@control')
        what = 'scripts() with %s present%s%s' % (sorted(present) or 'nothing', (', %s unreadable' % sorted(empty)) if empty else '', (', %s of length zero' % sorted(zero)) if zero else '')
        try:
            r = H.Interp(heap).call(H.Closure(s.node, {}, ctl, s.cls), [])
        except H.Raised as x:
            rep.fail('C07.R4', s.site, what, 'raises %s' % x.exc, where=s.where)
            continue
        got = {k: (v.cls if isinstance(v, H.Key) else v) for k, v in heap.objs[r.name]['entries']} if isinstance(r, H.Ref) else None
        want = {n: ('' if n in zero else 'content-of-' + n) for n in scripts if n in present and n not in empty}
        if got == want:
            rep.ok('C07.R4', s.site, what, 'name → content for %d scripts' % len(want))
        else:
            rep.fail('C07.R4', s.site, what, 'scripts() returns %r; every present maintainer script must appear under its own name with its own content (%r)' % (got, want), where=s.where)
    d = src.func(M + ':DebControl.debcontrol')
    rep.saw_func(d)
    seen = []
    heap = H.Heap(mod, hooks={'.get_content': lambda it, args, kw: seen.append(args[1]) or 'TEXT', 'Deb822': lambda it, args, kw: ('deb822', args[0])})
    heap.symbolic_strings = True
    ctl = heap.alloc('DebControl', {}, name='@control')
    try:
        r = H.Interp(heap).call(H.Closure(d.node, {}, ctl, d.cls), [])
    except H.Raised as x:
        r = ('raise', x.exc)
    if r == ('deb822', 'TEXT') and seen == ['control']:
        rep.ok('C07.R4', d.site, 'control fields', 'Deb822(get_content("control"))')
    else:
        rep.fail('C07.R4', d.site, 'control fields', 'debcontrol() does not parse the "control" member (%r, members read: %r)' % (r, seen), where=d.where)


def r5_parts_are_isolated_views(rep, src):
    """the control and data parts are ar members over one shared file object (DebFile(fileobj=...)): what the tar layer reads from a
    part is that part's own bytes whatever was read from the other part in between -- the member rules of C06 (every read is
    bounded by the member end; the shared file is positioned on the member's own cursor right before each read and the cursor
    is updated after it) are part of this property's argument and are decided here as well"""
    from . import C06
    from .C05 import Proxy
    C06.canonical_member_names(src)          # (the private attributes of the member class by role)
    C06.r1_bounded_reads(Proxy(rep, 'C07.R5'), src)
    C06.r2_position_discipline(Proxy(rep, 'C07.R5'), src)
    # the member set the part checks see is the archive's: the walk lists EVERY member (an empty one too, and what follows it) and
    # answers a repeated name with its last member -- "more than one candidate for a part" is decided on that list
    C06.r6b_walk_by_interpretation(Proxy(rep, 'C07.R5'), src)


def r7_parts_own_their_cursor(rep, src):
    """an ar member is a file object with one cursor, and the archive hands the same member object out to every caller
    (getmember, getmembers, iteration, extractfile); the tar reader of a compressed part reads it sequentially between two content
    queries and relies on the cursor staying where it left it.  DebFile.__init__ and the part constructors are interpreted
    (sa.heap) on an archive whose getmember returns one object per name: the object a part keeps for reading is not one of the
    objects the archive hands out, and it denotes the same member (same name, same bounds)"""
    from .. import heap as H
    mod = src.mod(M)
    f = src.func(M + ':DebFile.__init__')
    rep.saw_func(f)
    handed = {}

    def getmember(it, args, kw):
        nm = args[1]
        if nm not in handed:
            handed[nm] = it.h.alloc('ArMember', {'name': nm, '_ArMember__name': nm, '_ArMember__offset': 'OFF:' + str(nm), '_ArMember__end': 'END:' + str(nm),
                                                 '_ArMember__cur': 'OFF:' + str(nm), '_ArMember__fp': 'FP', '_ArMember__fname': None})
        return handed[nm]
    names = ['debian-binary', 'control.tar.gz', 'data.tar.xz']
    heap = H.Heap(mod, hooks={'ArFile.__init__': lambda it, args, kw: None, '.getnames': lambda it, args, kw: it.h.new_list(list(names)),
                              '.getmember': getmember, '.read': lambda it, args, kw: '2.0\n', '.close': lambda it, args, kw: None})
    heap.symbolic_strings = True
    me = heap.alloc('DebFile', {}, name='@deb')
    it = H.Interp(heap)
    try:
        it.call(H.Closure(f.node, {}, me, f.cls), [None, 'r', None])
    except H.Raised as x:
        raise AnalysisError('C07.R7: DebFile.__init__ raises %s on the archive [%s] (decided under C07.R2 / R3)' % (x.exc, ', '.join(names)))
    # (the parts as the object hands them out through its own accessors, whatever it keeps them in)
    got_parts = []
    for acc in ('control', 'data'):
        try:
            v_ = it.ev(ast.parse('m.%s' % acc, mode='eval').body, {'m': me}, None)
        except H.Raised as x:
            raise AnalysisError('C07.R7: DebFile.%s raises %s after construction' % (acc, x.exc))
        if not isinstance(v_, H.Ref):
            raise AnalysisError('C07.R7: DebFile.%s is %r' % (acc, v_))
        got_parts.append((acc + '.tar', v_))
    n = 0
    for k, v in got_parts:
        o = heap.objs[v.name]
        held = [(a, x) for a, x in o.items() if isinstance(x, H.Ref) and heap.objs[x.name].get('__class__') == 'ArMember']
        if not held:
            raise AnalysisError('C07.R7: the %s part keeps no ar member (attributes %s)' % (k, sorted(o)))
        for a, x in held:
            n += 1
            what = 'the %s part reads through a member object of its own' % k
            shared = [nm for nm, r in handed.items() if r.name == x.name]
            mo = heap.objs[x.name]
            orig = [r for nm, r in handed.items() if nm == mo.get('_ArMember__name')]
            same = orig and all(heap.objs[orig[0].name].get(q) == mo.get(q) for q in ('_ArMember__offset', '_ArMember__end', '_ArMember__fp', '_ArMember__fname'))
            if shared:
                rep.fail('C07.R7', f.site, what, 'the object kept in %s.%s is the one getmember(%r) / getmembers() / iteration / extractfile() hand to every caller: a read() or seek() on it '
                         'between two content queries moves the cursor under the decompressor of the part (EOFError / corrupt-data errors, and the three spellings of a name answer '
                         'differently from then on)' % (o['__class__'], a, shared[0]), where=f.where)
            elif not same:
                rep.fail('C07.R7', f.site, what, 'the object kept in %s.%s is not a view of the member %r (name / bounds / file differ)' % (o['__class__'], a, mo.get('_ArMember__name')), where=f.where)
            else:
                rep.ok('C07.R7', f.site, what, '%s.%s is a separate object over the bounds of %r' % (o['__class__'], a, mo.get('_ArMember__name')))
    if n < 2:
        raise AnalysisError('C07.R7: fewer than two parts built')


def r9_control_from_bytes(rep, src):
    """"returns the same control fields" for ARBITRARY field values: the control file reaches the paragraph parser as the bytes of the member.
    Handed over as decoded text it would be cut into lines by str.splitlines(), which also breaks at form feed, U+0085, U+2028 ... --
    characters a value may hold -- while bytes are cut at line feeds only (the line notion of the deb822 classes, C02).  debcontrol()
    interpreted (sa.heap) with the content query and the paragraph class as observers."""
    from .. import heap as H
    mod = src.mod(M)
    for cname in ('DebControl', 'DebFile'):
        f = mod.method(cname, 'debcontrol')
        if f is None:
            raise AnalysisError('%s:%s.debcontrol not found' % (M, cname))
        rep.saw_func(f)
        seen = {}

        def content(it, a, k, seen=seen):
            seen['query'] = (a[1] if len(a) > 1 else None, a[2] if len(a) > 2 else k.get('encoding'))
            return ('content of', seen['query'][0], 'decoded with', seen['query'][1])

        def parse(it, a, k, seen=seen):
            seen['parsed'] = a[0] if a else None
            return it.h.alloc('Deb822', {})
        heap = H.Heap(mod, hooks={'.get_content': content, 'Deb822': parse, 'deb822.Deb822': parse})
        me = heap.alloc(cname, {}, name='@deb')
        if cname == 'DebFile':
            ctl = heap.alloc('DebControl', {}, name='@control')
            heap.hooks['.debcontrol'] = lambda it, a, k: it.call(H.Closure(mod.method('DebControl', 'debcontrol').node, {}, a[0], 'DebControl'), []) \
                if it.h.objs[a[0].name]['__class__'] == 'DebControl' else None
            heap.objs[me.name]['_DebFile__parts'] = None
            heap.hooks['.control'] = lambda it, a, k: ctl
        it = H.Interp(heap)
        what = '%s.debcontrol parses the bytes of the control member' % cname
        try:
            if cname == 'DebFile':
                # (the accessor `control` is a property: answered by the scenario)
                orig = it.ev

                def ev(e, env, cls, orig=orig, ctl=ctl):
                    if isinstance(e, ast.Attribute) and e.attr == 'control' and norm(e.value) == 'self':
                        return ctl
                    return orig(e, env, cls)
                it.ev = ev
            it.call(H.Closure(f.node, {}, me, f.cls), [])
        except H.Raised as x:
            rep.fail('C07.R9', f.site, what, 'raises %s (line %d)' % (x.exc, x.lineno), where=f.where)
            continue
        q, p_ = seen.get('query'), seen.get('parsed')
        if q is None or p_ is None:
            rep.fail('C07.R9', f.site, what, 'the control member is not read through get_content() and parsed as a paragraph (query %r, parsed %r)' % (q, p_), where=f.where)
        elif q[1] is not None or p_ != ('content of', q[0], 'decoded with', None):
            rep.fail('C07.R9', f.site, what, 'the control file is decoded (encoding=%r) before it is parsed: text is cut into lines at form feed, U+0085, U+2028 ... as well, so a field '
                     'value that holds such a character followed by a blank comes back with a line feed in its place -- bytes are cut at line feeds only' % (q[1],), where=f.where)
        else:
            rep.ok('C07.R9', f.site, what, 'get_content(%r) without decoding, handed to the paragraph class as it is' % (q[0],))


def check(src, rep, tier):
    rep.explanation = ('C07: (R1) the member-name normaliser is read as a prefix table and must strip exactly "./" or "/" once (character-set '
                       'stripping is rejected); in has_file/get_file the normaliser call dominates every use of the name and both use the lookup '
                       '"./"+name.  (R2) the part-discovery helper is interpreted flow-sensitively over set expressions: the member returned must '
                       'come from members ∩ (all compressed candidates ∪ uncompressed name) computed after all candidates were added, with empty '
                       'and >1 guards raising DebError on the path; candidate names pass tgz()\'s extension test.  (R3) every raise is DebError, '
                       'tarfile errors converted, debian-binary required before parts are built.  (R4) md5sums/scripts/control shapes.')
    rep.not_decided = ['that returned contents equal what was packed (tarfile and compression codecs)', 'member order / duplicate members (C06)']
    rep.need('C07.R1', 7)
    rep.need('C07.R2', 3)
    rep.need('C07.R3', 3)
    rep.need('C07.R4', 5)
    rep.need('C07.R5', 6)
    rep.guard('C07.R1', r1_path_spelling, src)
    rep.guard('C07.R2', r2_part_discovery, src)
    rep.guard('C07.R3', r3_init, src)
    rep.guard('C07.R4', r4_md5_scripts, src)
    rep.need('C07.R6', 1)
    rep.guard('C07.R6', r6_text_wrapper, src)
    rep.guard('C07.R5', r5_parts_are_isolated_views, src)
    rep.need('C07.R7', 2)
    rep.guard('C07.R7', r7_parts_own_their_cursor, src)
    # the content queries answer from the package: each call builds its answer anew (a remembered paragraph or dictionary that a caller
    # has edited would be what the next call returns -- not the packed fields); the opened tar reader of a part is the one cache by design
    rep.need('C07.R9', 2)
    rep.guard('C07.R9', r9_control_from_bytes, src)
    from . import common
    rep.need('C07.R8', 6)
    rep.guard('C07.R8', common.check_no_hidden_state, src, 'C07.R8',
              ['debfile:DebControl.debcontrol', 'debfile:DebControl.scripts', 'debfile:DebControl.md5sums', 'debfile:DebFile.debcontrol', 'debfile:DebFile.scripts',
               'debfile:DebFile.md5sums'],
              'the second call returns what the caller made of the first answer, not the fields / scripts / sums packed in the archive')
    from . import common
    rep.guard('C07.R3', common.check_error_construction, src, 'C07.R3', 'debfile', None, 0)

"""C07 -- DebFile returns exactly what was packed and rejects malformed packages."""
import ast

from .. import cfg
from ..core import AnalysisError, norm, walk_no_nested

META = {
    'design_ref': 'DESIGN.md §3 C07',
    'technique': 'sanitizer (taint) rule for member names with a prefix-table check of the normaliser, flow-sensitive set-expression '
                 'analysis of the part discovery (which candidate set is intersected with the archive members at the time of the '
                 'uniqueness guards), constant-folded agreement between the candidate names and the extension test of tgz(), '
                 'error-discipline and dominance rules on the CFG, md5sums line-splitting shape',
    'level_text': 'Static decision: every query name passes through a normaliser that strips exactly one leading "./" or "/" before the '
                  'single lookup spelling "./name"; the part for control/data is the unique member among all compressed and uncompressed '
                  'candidates or DebError; every candidate name is accepted by the extension test; all structural failures raise DebError; '
                  'md5sums lines are split once on whitespace after stripping only the line end.  Contents (tarfile, codecs) are not decided.',
    'level_note': 'trusted: CFG builder, constant folding, the recognised idioms (others are ANALYSIS-ERROR); tarfile/gzip/bz2/lzma behaviour',
}

M = 'debfile'


def r1_path_spelling(rep, src):
    f = src.func(M + ':DebPart.__normalize_member')
    rep.saw_func(f)
    p = f.params()[0]
    # prefix table: if/elif chain of  fname.startswith(P): fname = fname[len(P):]
    table = []
    bad = None
    body = [s for s in f.node.body if not (isinstance(s, ast.Expr) and isinstance(s.value, ast.Constant))]
    rets = [s for s in body if isinstance(s, ast.Return)]
    for c in ast.walk(f.node):
        if isinstance(c, ast.Call) and isinstance(c.func, ast.Attribute) and c.func.attr in ('lstrip', 'strip', 'rstrip', 'replace') and norm(c.func.value) == p:
            bad = 'the name is normalised with %s, which removes a *set of characters* / every occurrence, not one leading prefix: a member such as ' \
                  '".hidden" or "..data/x" is looked up under a different name' % norm(c)
    node = body[0] if body and isinstance(body[0], ast.If) else None
    while node is not None and bad is None:
        t = node.test
        ok = isinstance(t, ast.Call) and isinstance(t.func, ast.Attribute) and t.func.attr == 'startswith' and norm(t.func.value) == p \
            and len(t.args) == 1 and isinstance(t.args[0], ast.Constant) and isinstance(t.args[0].value, str)
        if not ok:
            bad = 'unrecognised prefix test `%s`' % norm(t)
            break
        pre = t.args[0].value
        asg = node.body[0] if len(node.body) == 1 and isinstance(node.body[0], ast.Assign) else None
        sl = asg.value if asg is not None else None
        if not (asg is not None and norm(asg.targets[0]) == p and isinstance(sl, ast.Subscript) and norm(sl.value) == p and isinstance(sl.slice, ast.Slice)
                and sl.slice.upper is None and isinstance(sl.slice.lower, ast.Constant)):
            bad = 'prefix %r is not removed by slicing' % pre
            break
        table.append((pre, sl.slice.lower.value))
        if len(node.orelse) == 1 and isinstance(node.orelse[0], ast.If):
            node = node.orelse[0]
        elif not node.orelse:
            node = None
        else:
            bad = 'unexpected else branch'
    if bad is None:
        if sorted(table) != [('./', 2), ('/', 1)]:
            bad = 'the prefixes removed are %r; exactly "./" (2 characters) and "/" (1 character) must be stripped, once' % (table,)
        elif not (rets and norm(rets[-1].value) == p):
            bad = 'the normalised name is not returned'
    if bad:
        rep.fail('C07.R1', f.site, 'normaliser strips exactly one leading "./" or "/"', bad, where=f.where)
    else:
        rep.ok('C07.R1', f.site, 'normaliser strips exactly one leading "./" or "/"', 'if startswith("./"): [2:] elif startswith("/"): [1:]')
    # sanitizer: the name passes the normaliser before any use; same lookup spelling
    spell = {}
    for mname, sink in (('has_file', 'getnames'), ('get_file', 'extractfile')):
        g = src.func(M + ':DebPart.' + mname)
        rep.saw_func(g)
        fn = g.params()[1]
        G = cfg.CFG(g.node)
        san = [n for n in G.stmts() if n.kind == 'stmt' and isinstance(n.ast, ast.Assign) and isinstance(n.ast.value, ast.Call)
               and norm(n.ast.value.func).endswith('__normalize_member') and [norm(a) for a in n.ast.value.args] == [fn]]
        uses = [n for n in G.nodes if n.ast is not None and n.kind in ('stmt', 'return', 'test') and
                any(isinstance(x, ast.Name) and x.id == fn and isinstance(x.ctx, ast.Load) for x in ast.walk(n.ast)) and n not in san]
        what = '%s: name is normalised before use' % mname
        if san and norm(san[0].ast.targets[0]) == fn and all(G.dominates(san[0].id, u.id) for u in uses) and uses:
            rep.ok('C07.R1', g.site, what, '%s dominates %d use(s)' % (norm(san[0].ast), len(uses)))
        else:
            rep.fail('C07.R1', g.site, what, 'the member name reaches the tar lookup without passing __normalize_member: "name", "./name" and "/name" are answered differently',
                     where=g.where)
        lk = [norm(x) for n in uses for x in ast.walk(n.ast) if isinstance(x, ast.BinOp) and isinstance(x.op, ast.Add) and norm(x.right) == fn]
        spell[mname] = lk
    if spell.get('has_file') == ["'./' + fname"] and spell.get('get_file') == ["'./' + fname"]:
        rep.ok('C07.R1', M + ':DebPart', 'one lookup spelling', "'./' + name in both has_file and get_file")
    else:
        rep.fail('C07.R1', M + ':DebPart', 'one lookup spelling', 'has_file looks up %s, get_file looks up %s: membership and content queries disagree'
                 % (spell.get('has_file'), spell.get('get_file')))
    for mname, via in (('__contains__', 'self.has_file'), ('__getitem__', 'self.get_content'), ('get_content', 'self.get_file')):
        g = src.func(M + ':DebPart.' + mname)
        if any(isinstance(c, ast.Call) and norm(c.func) == via and norm(c.args[0]) == g.params()[1] for c in ast.walk(g.node)):
            rep.ok('C07.R1', g.site, 'routes through ' + via, 'ok', nontrivial=False)
        else:
            rep.fail('C07.R1', g.site, 'routes through ' + via, '%s does not go through %s' % (mname, via), where=g.where)


def r2_part_discovery(rep, src):
    f = src.func(M + ':DebFile.__init__')
    rep.saw_func(f)
    inner = [n for n in f.node.body if isinstance(n, ast.FunctionDef)]
    if len(inner) != 1:
        raise AnalysisError('%s: part-name helper not found' % f.site)
    h = inner[0]
    base = h.args.args[0].arg
    mod = src.mod(M)
    exts = mod.consts.get('', {}).get('PART_EXTS')
    if not exts or not {'gz', 'bz2', 'xz', 'lzma'} <= set(exts):
        rep.fail('C07.R2', M + ':PART_EXTS', 'compression extensions', 'PART_EXTS = %r lacks one of gz, bz2, xz, lzma' % (exts,))
    else:
        rep.ok('C07.R2', M + ':PART_EXTS', 'compression extensions', repr(exts), nontrivial=False)
    # flow-sensitive set expressions
    outcomes = []

    def run(stmts, env):
        for i, st in enumerate(stmts):
            if isinstance(st, ast.Expr) and isinstance(st.value, ast.Constant):
                continue
            if isinstance(st, ast.Assign) and isinstance(st.targets[0], ast.Name):
                name = st.targets[0].id
                v = st.value
                val = ('other', norm(v)[:50])
                if isinstance(v, ast.ListComp) and norm(v.elt) == "'%%s.%%s' %% (%s, %s)" % (base, norm(v.generators[0].target)) \
                        and norm(v.generators[0].iter) == 'PART_EXTS' and not v.generators[0].ifs:
                    val = ('set', frozenset(['COMP']))
                else:
                    inter = None
                    if isinstance(v, ast.Call) and isinstance(v.func, ast.Attribute) and v.func.attr == 'intersection' and len(v.args) == 1:
                        inter = (v.func.value, v.args[0])
                    elif isinstance(v, ast.BinOp) and isinstance(v.op, ast.BitAnd):
                        inter = (v.left, v.right)
                    if inter is not None:
                        ops = []
                        for o in inter:
                            if isinstance(o, ast.Call) and norm(o.func) in ('set', 'frozenset') and len(o.args) == 1:
                                o = o.args[0]
                            ops.append(norm(o))
                        other = [o for o in ops if o != 'actual_names']
                        if 'actual_names' in ops and len(other) == 1 and isinstance(env.get(other[0]), tuple) and env[other[0]][0] == 'set':
                            val = ('cap', env[other[0]][1])
                env = dict(env)
                env[name] = val
                continue
            if isinstance(st, ast.Expr) and isinstance(st.value, ast.Call) and isinstance(st.value.func, ast.Attribute) \
                    and st.value.func.attr in ('append', 'add') and isinstance(st.value.func.value, ast.Name):
                name = st.value.func.value.id
                if isinstance(env.get(name), tuple) and env[name][0] == 'set' and [norm(a) for a in st.value.args] == [base]:
                    env = dict(env)
                    env[name] = ('set', env[name][1] | {'BASE'})
                    continue
                raise AnalysisError('%s: unrecognised mutation %s' % (f.site, norm(st)))
            if isinstance(st, ast.If):
                t = norm(st.test)
                rest = list(stmts[i + 1:])
                if t in ('%s in (DATA_PART, CTRL_PART)' % base, '%s in (CTRL_PART, DATA_PART)' % base, '%s in [DATA_PART, CTRL_PART]' % base):
                    # for control/data the condition holds: take the true branch
                    run(list(st.body) + rest, dict(env, **{'#uncompressed': True}))
                    return
                for branch, pol in ((st.body, True), (st.orelse, False)):
                    e2 = dict(env)
                    e2.setdefault('#guards', [])
                    e2['#guards'] = e2['#guards'] + [(t, pol)]
                    run(list(branch) + rest, e2)
                return
            if isinstance(st, ast.Raise):
                outcomes.append(('raise', norm(st.exc.func) if isinstance(st.exc, ast.Call) else norm(st.exc), env))
                return
            if isinstance(st, ast.Return):
                outcomes.append(('return', st.value, env))
                return
            raise AnalysisError('%s: statement outside the vocabulary: %s' % (f.site, norm(st)[:60]))
    run(h.body, {})
    rets = [o for o in outcomes if o[0] == 'return']
    if not rets:
        raise AnalysisError('%s: helper never returns' % f.site)
    bad = None
    for _, val, env in rets:
        # which set does the returned name come from
        names = [x.id for x in ast.walk(val) if isinstance(x, ast.Name) and isinstance(env.get(x.id), tuple)]
        src_sets = [env[n] for n in names]
        if len(src_sets) != 1 or src_sets[0][0] != 'cap':
            bad = 'the returned member is not taken from `archive members ∩ candidates` (it comes from %s): an archive that offers more than one ' \
                  'candidate for the part (e.g. data.tar and data.tar.gz) is accepted instead of DebError' % (src_sets[0] if src_sets else norm(val),)
            break
        if src_sets[0][1] != frozenset(['COMP', 'BASE']):
            bad = 'the members are intersected with %s only; the uniqueness check must cover all compressed candidates and the uncompressed one together' \
                  % sorted(src_sets[0][1])
            break
        guards = env.get('#guards', [])
        pname = names[0]
        empt = any(t in ('not %s' % pname, 'len(%s) == 0' % pname) and pol is False for t, pol in guards)
        many = any(t in ('len(%s) > 1' % pname, 'len(%s) != 1' % pname, 'len(%s) >= 2' % pname) and pol is False for t, pol in guards)
        if not (empt or any(t == 'len(%s) != 1' % pname and pol is False for t, pol in guards)):
            bad = 'a missing part is not rejected before the member is used'
            break
        if not many:
            bad = 'more than one candidate for a part is not rejected (no `len(parts) > 1` guard on the path to the return)'
            break
    for kind, exc, env in outcomes:
        if kind == 'raise' and exc != 'DebError':
            bad = bad or 'a structurally defective archive raises %s instead of DebError' % exc
    if bad:
        rep.fail('C07.R2', f.site, 'exactly one candidate per part', bad, where='%s:%d' % (f.module.relpath, h.lineno))
    else:
        rep.ok('C07.R2', f.site, 'exactly one candidate per part', 'parts = members ∩ (compressed ∪ uncompressed); empty → DebError; >1 → DebError; %d return path(s)' % len(rets))
    rep.analysed['paths'] += len(outcomes)
    # every candidate name passes the extension test of tgz()
    t = src.func(M + ':DebPart.tgz')
    rep.saw_func(t)
    tests = [n for n in walk_no_nested(t.node) if isinstance(n, ast.If) and 'PART_EXTS' in norm(n.test)]
    if len(tests) != 1:
        raise AnalysisError('%s: extension test not found' % t.site)
    tt = norm(tests[0].test)
    if 'extension in PART_EXTS' in tt and 'name == DATA_PART' in tt and 'name == CTRL_PART' in tt and ' and ' not in tt \
            and 'extension = os.path.splitext(name)[1][1:]' in norm(t.node):
        rep.ok('C07.R2', t.site, 'every candidate passes the extension test', 'ext ∈ PART_EXTS or name is data.tar/control.tar')
    else:
        rep.fail('C07.R2', t.site, 'every candidate passes the extension test', 'the test `%s` rejects a part that DebFile.__init__ selected (e.g. uncompressed control.tar)' % tt,
                 where=t.where)
    conv = [h2 for n in walk_no_nested(t.node) if isinstance(n, ast.Try) for h2 in n.handlers]
    if conv and all(any(isinstance(s, ast.Raise) and 'DebError' in norm(s) for s in h2.body) for h2 in conv) \
            and any('ReadError' in norm(h2.type) and 'CompressionError' in norm(h2.type) for h2 in conv):
        rep.ok('C07.R3', t.site, 'tarfile errors become DebError', 'except (ReadError, CompressionError): raise DebError')
    else:
        rep.fail('C07.R3', t.site, 'tarfile errors become DebError', 'tarfile.ReadError/CompressionError are not converted to DebError', where=t.where)
    for r in [x for x in walk_no_nested(t.node) if isinstance(x, ast.Raise)]:
        if 'DebError' not in norm(r):
            rep.fail('C07.R3', t.site, 'raise ' + norm(r)[:40], 'tgz() raises something other than DebError', where=t.where)


def r3_init(rep, src):
    f = src.func(M + ':DebFile.__init__')
    g = cfg.CFG(f.node)
    info = [n for n in g.nodes if n.kind == 'test' and norm(n.ast) in ('INFO_PART not in actual_names',)]
    stores = [n for n in g.stmts() if n.kind == 'stmt' and isinstance(n.ast, ast.Assign) and isinstance(n.ast.targets[0], ast.Subscript)
              and norm(n.ast.targets[0].value) == 'self.__parts']
    ok = False
    if info and stores:
        t = info[0]
        raises = [d for d, lab in g.succ[t.id] if lab is True and g.nodes[d].kind == 'raise' and 'DebError' in norm(g.nodes[d].ast)]
        ok = bool(raises) and all(g.dominates(t.id, s.id) for s in stores)
    if ok:
        rep.ok('C07.R3', f.site, 'debian-binary is required', 'INFO_PART test (DebError) dominates part construction')
    else:
        rep.fail('C07.R3', f.site, 'debian-binary is required', 'an archive without debian-binary is not rejected with DebError before the parts are built', where=f.where)
    want = {'CTRL_PART': ('DebControl', 'CTRL_PART'), 'DATA_PART': ('DebData', 'DATA_PART')}
    got = {}
    for s in stores:
        key = norm(s.ast.targets[0].slice)
        v = s.ast.value
        if isinstance(v, ast.Call) and len(v.args) == 1 and isinstance(v.args[0], ast.Call) and norm(v.args[0].func) == 'self.getmember' \
                and isinstance(v.args[0].args[0], ast.Call) and norm(v.args[0].args[0].func) == 'compressed_part_name':
            got[key] = (norm(v.func), norm(v.args[0].args[0].args[0]))
    if got == want:
        rep.ok('C07.R3', f.site, 'control/data parts wired to their members', 'DebControl(control.tar*), DebData(data.tar*)')
    else:
        rep.fail('C07.R3', f.site, 'control/data parts wired to their members', 'parts are built as %r' % got, where=f.where)
    for r in [x for x in walk_no_nested(f.node) if isinstance(x, ast.Raise)]:
        if 'DebError' not in norm(r):
            rep.fail('C07.R3', f.site, 'raise ' + norm(r)[:40], 'a malformed package raises something other than DebError', where=f.where)
    mod = src.mod(M)
    if 'ArError' in [norm(b) for b in mod.classes['DebError'].bases]:
        rep.ok('C07.R3', M + ':DebError', 'package-format error type', 'DebError(ArError)', nontrivial=False)


def r4_md5_scripts(rep, src):
    f = src.func(M + ':DebControl.md5sums')
    rep.saw_func(f)
    g = cfg.CFG(f.node)
    guard = [n for n in g.nodes if n.kind == 'test' and norm(n.ast) == 'not self.has_file(MD5_FILE)']
    reads = [g.node_for(c) for c in ast.walk(f.node) if isinstance(c, ast.Call) and norm(c.func) == 'self.get_file']
    if guard and reads and all(g.dominates(guard[0].id, r.id) for r in reads) and \
            any(lab is True and g.nodes[d].kind == 'raise' and 'DebError' in norm(g.nodes[d].ast) for d, lab in g.succ[guard[0].id]):
        rep.ok('C07.R4', f.site, 'missing md5sums → DebError', 'has_file guard dominates the read')
    else:
        rep.fail('C07.R4', f.site, 'missing md5sums → DebError', 'a control part without md5sums is not rejected with DebError before reading', where=f.where)
    splits = [c for c in ast.walk(f.node) if isinstance(c, ast.Call) and isinstance(c.func, ast.Attribute) and c.func.attr == 'split']
    ok = False
    why = 'the md5sums lines are not split'
    for c in splits:
        args = [norm(a) for a in c.args]
        recv = c.func.value
        if args == ['None', '1'] and isinstance(recv, ast.Call) and isinstance(recv.func, ast.Attribute) and recv.func.attr == 'rstrip' \
                and len(recv.args) == 1 and norm(recv.args[0]) == 'newline':
            ok = True
        else:
            why = 'lines are split with %s: file names containing blanks are cut, or more than the line end is stripped' % norm(c)[:60]
    nl = [s for s in ast.walk(f.node) if isinstance(s, ast.Assign) and norm(s.targets[0]) == 'newline']
    if ok and {norm(s.value) for s in nl} == {"'\\r\\n'", "b'\\r\\n'"}:
        rep.ok('C07.R4', f.site, 'line → (md5, name)', 'rstrip(CR LF).split(None, 1)')
    else:
        rep.fail('C07.R4', f.site, 'line → (md5, name)', why, where=f.where)
    tup = [s for s in ast.walk(f.node) if isinstance(s, ast.Assign) and isinstance(s.targets[0], ast.Tuple)]
    st = [s for s in ast.walk(f.node) if isinstance(s, ast.Assign) and isinstance(s.targets[0], ast.Subscript) and norm(s.targets[0].value) == 'sums']
    if tup and [norm(x) for x in tup[0].targets[0].elts] == ['md5', 'fname'] and st and all(norm(s.targets[0].slice) == 'fname' and 'md5' in norm(s.value) for s in st):
        rep.ok('C07.R4', f.site, 'map name → md5', 'sums[fname] = md5', nontrivial=False)
    else:
        rep.fail('C07.R4', f.site, 'map name → md5', 'the md5sum map is not keyed by file name with the checksum as value', where=f.where)
    s = src.func(M + ':DebControl.scripts')
    rep.saw_func(s)
    scripts = src.mod(M).consts.get('', {}).get('MAINT_SCRIPTS') or []
    t = norm(s.node)
    if {'preinst', 'postinst', 'prerm', 'postrm', 'config'} <= set(scripts) and 'for fname in MAINT_SCRIPTS' in t and 'if self.has_file(fname)' in t \
            and 'scripts[fname] = data' in t and 'data = self.get_content(fname)' in t:
        rep.ok('C07.R4', s.site, 'maintainer scripts', 'present scripts of %r mapped name → content' % (scripts,))
    else:
        rep.fail('C07.R4', s.site, 'maintainer scripts', 'scripts() does not return every present maintainer script under its own name', where=s.where)
    d = src.func(M + ':DebControl.debcontrol')
    if 'Deb822(self.get_content(CONTROL_FILE))' in norm(d.node) and src.mod(M).consts['']['CONTROL_FILE'] == 'control':
        rep.ok('C07.R4', d.site, 'control fields', 'Deb822(get_content("control"))', nontrivial=False)
    else:
        rep.fail('C07.R4', d.site, 'control fields', 'debcontrol() does not parse the "control" member', where=d.where)


def check(src, rep, tier):
    rep.explanation = ('C07: (R1) the member-name normaliser is read as a prefix table and must strip exactly "./" or "/" once (character-set '
                       'stripping is rejected); in has_file/get_file the normaliser call dominates every use of the name and both use the lookup '
                       '"./"+name.  (R2) the part-discovery helper is interpreted flow-sensitively over set expressions: the member returned must '
                       'come from members ∩ (all compressed candidates ∪ uncompressed name) computed after all candidates were added, with empty '
                       'and >1 guards raising DebError on the path; candidate names pass tgz()\'s extension test.  (R3) every raise is DebError, '
                       'tarfile errors converted, debian-binary required before parts are built.  (R4) md5sums/scripts/control shapes.')
    rep.not_decided = ['that returned contents equal what was packed (tarfile and compression codecs)', 'member order / duplicate members (C06)']
    rep.need('C07.R1', 7)
    rep.need('C07.R2', 3)
    rep.need('C07.R3', 3)
    rep.need('C07.R4', 5)
    rep.guard('C07.R1', r1_path_spelling, src)
    rep.guard('C07.R2', r2_part_discovery, src)
    rep.guard('C07.R3', r3_init, src)
    rep.guard('C07.R4', r4_md5_scripts, src)

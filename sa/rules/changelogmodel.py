"""Abstract transition system of Changelog.parse_changelog (shared by C04 and C15).

The line loop is interpreted over the abstract state
    (value of `state`, value of `old_state`, "a block has been appended", language of the current line)
Every path through the loop body yields one transition with its effects (warning, where the line is
stored, block appended, next state).  Conditions on regex matches refine the line language; conditions
on the state variables are decided; everything else forks.  Nothing of the repository is executed."""
import ast

from .. import rx
from .. import normalize
from ..core import AnalysisError, norm, set_parents, walk_no_nested

M = 'changelog'


class Abort(AnalysisError):
    pass


class Model:
    def __init__(self, src, rep):
        self.src = src
        self.rep = rep
        self.f = src.func(M + ':Changelog.parse_changelog')
        rep.saw_func(self.f)
        self.alpha = rx.alphabet('str')
        self.mod = src.mod(M)
        # local closures are inlined (they read the loop's state variables); methods keep their identity: the
        # diagnostics funnel and the block API are recognised by name
        local_defs = [n.name for n in self.f.node.body if isinstance(n, ast.FunctionDef)]
        # ... and a private generator that only prepares the lines of the loop is fused into it
        gens = [n.iter.func.attr for n in self.f.node.body if isinstance(n, ast.For) and isinstance(n.iter, ast.Call) and isinstance(n.iter.func, ast.Attribute)
                and isinstance(n.iter.func.value, ast.Name) and n.iter.func.value.id in ('self', 'cls') and n.iter.func.attr.startswith('_')]
        # private helper methods of the class (not the diagnostics funnel, which is recognised by name) are inlined as well
        helpers = sorted({c.func.attr for c in ast.walk(self.f.node) if isinstance(c, ast.Call) and isinstance(c.func, ast.Attribute)
                          and isinstance(c.func.value, ast.Name) and c.func.value.id in ('self', 'cls') and c.func.attr.startswith('_')
                          and not c.func.attr.startswith('__') and c.func.attr != '_parse_error' and self.mod.method(self.f.cls, c.func.attr) is not None})
        fn, _inl = normalize.inline_helpers(self.f, only=local_defs + gens + helpers)
        fn = normalize.enum_members_to_locals(fn, self.mod)          # parser states as members of a module-level enum.Enum
        # the rules speak about the parser states by the names the pinned code gives them; a state is identified by the text it stands
        # for (which the diagnostics show), so a renamed local is the same state
        STATE_TEXT = {'first heading': 'first_heading', 'next heading of EOF': 'next_heading_or_eof', 'start of change data': 'start_of_change_data',
                      'more change data or trailer': 'more_changes_or_trailer', 'slurp to end': 'slurp_to_end'}
        ren = {}
        names_used = {n.id for n in ast.walk(fn) if isinstance(n, ast.Name)}
        for st_ in fn.body:
            if isinstance(st_, ast.Assign) and len(st_.targets) == 1 and isinstance(st_.targets[0], ast.Name) and isinstance(st_.value, ast.Constant) \
                    and st_.value.value in STATE_TEXT and st_.targets[0].id != STATE_TEXT[st_.value.value] and STATE_TEXT[st_.value.value] not in names_used:
                ren[st_.targets[0].id] = STATE_TEXT[st_.value.value]
        if ren:
            from ..core import clone as _clone
            fn = _clone(fn)
            fn.body = [normalize._Rename(ren, {}).visit(st_) for st_ in fn.body]
            ast.fix_missing_locations(fn)
        fn = normalize.expand_quantifiers(fn, self.mod)
        # named groups of states (`headings = (first_heading, ...)`) and named conditions are read through; a call through a bound
        # method chosen in the branches of an if is the direct call in each branch
        fn, _al = normalize.propagate_aliases(fn, in_loops=True, pure=normalize._reads_only, select=lambda name, v: (
            (isinstance(v, (ast.Tuple, ast.List, ast.Set)) and v.elts and all(isinstance(e, ast.Name) for e in v.elts))
            or isinstance(v, (ast.Compare, ast.BoolOp)) or (isinstance(v, ast.UnaryOp) and isinstance(v.op, ast.Not))))
        fn = normalize.sink_branch_bound_calls(fn)
        set_parents(fn)
        self.fnode = fn
        self.consts = {}
        mod_ = src.mod(M)
        for s in fn.body:
            if isinstance(s, ast.Assign) and isinstance(s.value, ast.Constant) and isinstance(s.value.value, str) \
                    and isinstance(s.targets[0], ast.Name):
                self.consts[s.targets[0].id] = s.value.value
            elif isinstance(s, ast.Assign) and isinstance(s.targets[0], ast.Name) and isinstance(s.value, ast.Attribute) and isinstance(s.value.value, ast.Name) \
                    and mod_.enum_members(s.value.value.id) is not None and s.value.attr in dict(mod_.enum_members(s.value.value.id)):
                # a state named by a member of an enum class of the module: its value is the text the messages show
                self.consts[s.targets[0].id] = dict(mod_.enum_members(s.value.value.id))[s.value.attr]
        loops = [s for s in fn.body if isinstance(s, ast.For)]
        if len(loops) != 1:
            raise AnalysisError('%s: expected one line loop' % self.f.site)
        self.loop = loops[0]
        self.linevar = norm(self.loop.target)
        # the name under which the line is matched (the loop target, or the local the prepared line is bound to)
        seen_args = {}
        for n in walk_no_nested(self.loop):
            if isinstance(n, ast.Call) and isinstance(n.func, ast.Attribute) and n.func.attr == 'match' and isinstance(n.func.value, ast.Name) \
                    and len(n.args) == 1 and isinstance(n.args[0], ast.Name):
                seen_args[n.args[0].id] = seen_args.get(n.args[0].id, 0) + 1
        if seen_args and self.linevar not in seen_args:
            self.linevar = max(seen_args, key=seen_args.get)
        self.post = fn.body[fn.body.index(self.loop) + 1:]
        init = {}
        for s in fn.body[:fn.body.index(self.loop)]:
            if isinstance(s, ast.Assign) and isinstance(s.targets[0], ast.Name) and s.targets[0].id in ('state', 'old_state'):
                init[s.targets[0].id] = s.value
        if 'state' not in init or norm(init['state']) not in self.consts:
            raise AnalysisError('%s: initial state not found' % self.f.site)
        self.init_state = norm(init['state'])
        self._re = {}
        self.universe = rx.regex_lang(r'[^\n]*', 0, 'fullmatch', alpha=self.alpha)
        self.matchvars = {}     # local name -> regex name
        for n in walk_no_nested(self.loop):
            if isinstance(n, ast.Assign) and isinstance(n.targets[0], ast.Name) and isinstance(n.value, ast.Call) \
                    and isinstance(n.value.func, ast.Attribute) and n.value.func.attr == 'match' and isinstance(n.value.func.value, ast.Name) \
                    and [norm(a) for a in n.value.args] == [self.linevar]:
                self.matchvars[n.targets[0].id] = n.value.func.value.id
        self.transitions = None
        self.uses = []          # (lineno, abstract state) of self._blocks[-1]
        self.unreachable_asserts = []
        self.reached_asserts = []

    def relang(self, name):
        if name not in self._re:
            r = self.src.regex(M, name)
            self.rep.saw_regex('changelog:' + name)
            self._re[name] = rx.regex_lang(r['pattern'], r['flags'], 'match', alpha=self.alpha)
        return self._re[name]

    # -- conditions: returns [(truth, line language)]
    def _subst(self, t, binds):
        """locals bound to group reads of a match are replaced by those reads"""
        if not binds or not any(isinstance(n, ast.Name) and n.id in binds for n in ast.walk(t)):
            return t
        from ..core import clone

        class S(ast.NodeTransformer):
            def visit_Name(self, n):
                if isinstance(n.ctx, ast.Load) and n.id in binds:
                    return ast.copy_location(clone(binds[n.id]), n)
                return n
        r = S().visit(clone(t))
        ast.fix_missing_locations(r)
        return r

    def cond(self, t, st):
        L = st['L']
        t = self._subst(t, st.get('binds'))
        if isinstance(t, ast.BoolOp):
            isand = isinstance(t.op, ast.And)
            res = []

            def rec(i, lang):
                if i == len(t.values):
                    res.append((isand, lang))
                    return
                st2 = dict(st, L=lang)
                for truth, l2 in self.cond(t.values[i], st2):
                    if truth != isand:
                        res.append((truth, l2))
                    else:
                        rec(i + 1, l2)
            rec(0, L)
            return [(a, l) for a, l in res if not l.is_empty()]
        if isinstance(t, ast.UnaryOp) and isinstance(t.op, ast.Not):
            return [(not a, l) for a, l in self.cond(t.operand, st)]
        if isinstance(t, ast.Compare) and len(t.ops) == 1:
            op = t.ops[0]
            left, right = t.left, t.comparators[0]
            # <match> is (not) None
            if isinstance(op, (ast.Is, ast.IsNot)) and isinstance(right, ast.Constant) and right.value is None:
                rname = None
                if isinstance(left, ast.Name) and left.id in self.matchvars:
                    rname = self.matchvars[left.id]
                elif isinstance(left, ast.Call) and isinstance(left.func, ast.Attribute) and left.func.attr == 'match' \
                        and isinstance(left.func.value, ast.Name) and [norm(a) for a in left.args] == [self.linevar]:
                    rname = left.func.value.id
                if rname is not None:
                    R = self.relang(rname)
                    yes, no = L.intersect(R), L.minus(R)
                    out = []
                    if not yes.is_empty():
                        out.append((isinstance(op, ast.IsNot), yes))
                    if not no.is_empty():
                        out.append((isinstance(op, ast.Is), no))
                    return out
                if isinstance(left, ast.Name) and left.id in ('old_state',):
                    res = st['old'] is None
                    return [(res if isinstance(op, ast.Is) else not res, L)]
            # state comparisons
            if isinstance(left, ast.Name) and (left.id in ('state', 'old_state') or left.id in st.get('vars', {})):
                cur = st['state'] if left.id == 'state' else st['old'] if left.id == 'old_state' else st['vars'][left.id]

                def val(n):
                    if isinstance(n, ast.Name) and n.id in self.consts:
                        return n.id
                    if isinstance(n, ast.Constant) and n.value is None:
                        return None
                    raise Abort('state compared with %s' % norm(n))
                if isinstance(op, (ast.Eq, ast.NotEq)):
                    r = cur == val(right)
                    return [(r if isinstance(op, ast.Eq) else not r, L)]
                if isinstance(op, (ast.In, ast.NotIn)) and isinstance(right, (ast.Tuple, ast.List)):
                    r = cur in [val(e) for e in right.elts]
                    return [(r if isinstance(op, ast.In) else not r, L)]
            # <match>.group(k) != 'lit'
            if isinstance(left, ast.Call) and isinstance(left.func, ast.Attribute) and left.func.attr == 'group' \
                    and isinstance(left.func.value, ast.Name) and left.func.value.id in self.matchvars \
                    and isinstance(right, ast.Constant) and isinstance(right.value, str) and isinstance(op, (ast.Eq, ast.NotEq)):
                rname = self.matchvars[left.func.value.id]
                g = left.args[0].value
                r = self.src.regex(M, rname)
                markers = [('open', g), ('close', g)]
                Rm = rx.regex_lang(r['pattern'], r['flags'], 'match', [g], markers, self.alpha)
                lit = rx.regex_lang(rx.literal(right.value), 0, 'fullmatch', alpha=self.alpha)
                eqm = rx.erase_markers(Rm.intersect(rx.group_content(self.alpha, markers, g, lit)))
                nem = rx.erase_markers(Rm.minus(rx.group_content(self.alpha, markers, g, lit)))
                out = []
                a, b = L.intersect(eqm), L.intersect(nem)
                if not a.is_empty():
                    out.append((isinstance(op, ast.Eq), a))
                if not b.is_empty():
                    out.append((isinstance(op, ast.NotEq), b))
                return out
        if isinstance(t, ast.Name) and t.id in st.get('flags', {}):
            return [(st['flags'][t.id], L)]
        if isinstance(t, ast.Name) and t.id == 'allow_empty_author':
            if st.get('allow_empty') is None:
                return [(True, L), (False, L)]
            return [(bool(st['allow_empty']), L)]
        # undecidable in this domain: fork
        return [(True, L), (False, L)]

    def scan_uses(self, node, st, lineno):
        for n in ast.walk(node):
            if isinstance(n, ast.Subscript) and norm(n.value) == 'self._blocks' and norm(n.slice) == '-1':
                self.uses.append((lineno, dict(state=st['state'], old=st['old'], nonempty=st['nonempty'])))

    def run(self, stmts, st):
        """-> list of (state, outcome) ; outcome None / 'continue' / 'return'"""
        outs = [(st, None)]
        for s in stmts:
            nxt = []
            for st1, oc in outs:
                if oc is not None:
                    nxt.append((st1, oc))
                    continue
                nxt += self.step(s, st1)
            outs = nxt
            if len(outs) > 5000:
                raise AnalysisError('too many paths in parse_changelog')
        return outs

    def step(self, s, st):
        st = dict(st, effects=list(st['effects']))
        if isinstance(s, ast.If):
            self.scan_uses(s.test, st, s.lineno)
            res = []
            outcomes = self.cond(s.test, st)
            # a test the model cannot decide is followed both ways with the same lines: what such a branch does is what the code MAY
            # do with a line, not what it does (the transition remembers the test)
            forked = len(outcomes) == 2 and outcomes[0][1] is outcomes[1][1] and outcomes[0][0] != outcomes[1][0] and 'allow_empty_author' not in norm(s.test)
            for truth, lang in outcomes:
                st2 = dict(st, L=lang, effects=list(st['effects']))
                if forked:
                    st2['forks'] = tuple(st.get('forks', ())) + (norm(s.test)[:80],)
                if 'allow_empty_author' in norm(s.test) and st.get('allow_empty') is None and isinstance(s.test, (ast.Name, ast.UnaryOp)):
                    t = s.test
                    neg = isinstance(t, ast.UnaryOp)
                    st2['allow_empty'] = (not truth) if neg else truth
                res += self.run(s.body if truth else s.orelse, st2)
            return res
        if isinstance(s, ast.Assign) and isinstance(s.targets[0], ast.Name) and s.targets[0].id in ('state', 'old_state'):
            tgt = 'state' if s.targets[0].id == 'state' else 'old'
            v = s.value
            if isinstance(v, ast.Name) and v.id in self.consts:
                st[tgt] = v.id
            elif isinstance(v, ast.Name) and v.id == 'state':
                st[tgt] = st['state']
            elif isinstance(v, ast.Name) and v.id == 'old_state':
                st[tgt] = st['old']
            elif isinstance(v, ast.Constant) and v.value is None:
                st[tgt] = None
            else:
                raise Abort('state assigned a non-constant: ' + norm(s))
            return [(st, None)]
        if isinstance(s, ast.Assign) and len(s.targets) == 1 and isinstance(s.targets[0], ast.Name) and s.targets[0].id not in ('state', 'old_state') \
                and isinstance(s.value, (ast.Name, ast.IfExp)) \
                and all((isinstance(n, ast.Name) and (n.id in self.consts or n.id in ('state', 'old_state') or n.id in st.get('vars', {})))
                        or not isinstance(n, ast.Name) for n in ast.walk(s.value)) \
                and any(isinstance(n, ast.Name) and n.id in ('state', 'old_state') for n in ast.walk(s.value)):
            # a local derived from the state variables (e.g. "the state at the last block"): evaluated now
            def sval(e, st_):
                if isinstance(e, ast.Name):
                    if e.id == 'state':
                        return [(st_['state'], st_)]
                    if e.id == 'old_state':
                        return [(st_['old'], st_)]
                    if e.id in st_.get('vars', {}):
                        return [(st_['vars'][e.id], st_)]
                    return [(e.id, st_)]
                out_ = []
                for truth, lang in self.cond(e.test, st_):
                    out_ += sval(e.body if truth else e.orelse, dict(st_, L=lang))
                return out_
            res = []
            for v_, st_ in sval(s.value, st):
                st2 = dict(st_, effects=list(st_['effects']), vars=dict(st_.get('vars', {})))
                st2['vars'][s.targets[0].id] = v_
                res.append((st2, None))
            return res
        if isinstance(s, ast.Assign) and len(s.targets) == 1 and isinstance(s.targets[0], ast.Name) \
                and (isinstance(s.value, (ast.Compare, ast.BoolOp)) or (isinstance(s.value, ast.UnaryOp) and isinstance(s.value.op, ast.Not))
                     or (isinstance(s.value, ast.Constant) and isinstance(s.value.value, bool))):
            # a named condition: the state forks on its value (refining the line language like the test itself would)
            self.scan_uses(s.value, st, s.lineno)
            out = []
            for truth, lang in ([(s.value.value, st['L'])] if isinstance(s.value, ast.Constant) else self.cond(s.value, st)):
                st2 = dict(st, L=lang, effects=list(st['effects']), flags=dict(st.get('flags', {})))
                st2['flags'][s.targets[0].id] = truth
                out.append((st2, None))
            return out
        if isinstance(s, ast.Assign) and len(s.targets) == 1 and isinstance(s.value, ast.Call) and isinstance(s.value.func, ast.Attribute) \
                and s.value.func.attr in ('group', 'groups') and isinstance(s.value.func.value, ast.Name) and s.value.func.value.id in self.matchvars:
            # name(s) bound to group reads: later tests on them are tests on the groups
            tgt, call = s.targets[0], s.value
            mv = call.func.value

            def grp(k):
                return ast.Call(func=ast.Attribute(value=ast.Name(id=mv.id, ctx=ast.Load()), attr='group', ctx=ast.Load()), args=[ast.Constant(value=k)], keywords=[])
            keys = None
            if call.func.attr == 'group' and all(isinstance(a, ast.Constant) for a in call.args):
                keys = [a.value for a in call.args]
            elif call.func.attr == 'groups' and not call.args and isinstance(tgt, (ast.Tuple, ast.List)):
                keys = list(range(1, len(tgt.elts) + 1))
            if keys is not None:
                st['binds'] = dict(st.get('binds') or {})
                if isinstance(tgt, ast.Name) and len(keys) == 1:
                    st['binds'][tgt.id] = grp(keys[0])
                elif isinstance(tgt, (ast.Tuple, ast.List)) and len(tgt.elts) == len(keys):
                    for e_, k_ in zip(tgt.elts, keys):
                        if isinstance(e_, ast.Name):
                            st['binds'][e_.id] = grp(k_)
        if isinstance(s, ast.Continue):
            return [(st, 'continue')]
        if isinstance(s, ast.Return):
            return [(st, 'return')]
        if isinstance(s, ast.Raise):
            st['effects'].append(('raise', norm(s.exc)[:40], s.lineno))
            return [(st, 'raise')]
        if isinstance(s, ast.Assert):
            if isinstance(s.test, ast.Constant) and s.test.value is False:
                self.reached_asserts.append((s.lineno, st['state']))
                return [(st, 'raise')]
            return [(st, None)]
        if isinstance(s, ast.For):
            # inner loop (key=value items of the header): effects are collected without tracking iteration
            self.scan_uses(s, st, s.lineno)
            for n in ast.walk(s):
                if isinstance(n, ast.Call) and norm(n.func) == 'self._parse_error':
                    st['effects'].append(('warn-in-header-items', norm(n.args[0])[:50] if n.args else '', n.lineno))
            return [(st, None)]
        if isinstance(s, (ast.While, ast.Try, ast.With)):
            raise Abort('unsupported statement in the line loop: ' + type(s).__name__)
        self.scan_uses(s, st, s.lineno)
        for n in ast.walk(s):
            if isinstance(n, ast.Call):
                fn = norm(n.func)
                args = [norm(a) for a in n.args]
                if fn == 'self._parse_error':
                    st['effects'].append(('warn', args[0][:60] if args else '', s.lineno, args[1] if len(args) > 1 else None))
                elif fn == 'warnings.warn':
                    st['effects'].append(('rawwarn', '', s.lineno))
                elif fn == 'self._blocks.append':
                    st['nonempty'] = True
                    st['effects'].append(('block-appended', args[0] if args else '', s.lineno))
                elif fn == 'changes.append' and args == [self.linevar]:
                    st['effects'].append(('store', 'changes', s.lineno))
                elif isinstance(n.func, ast.Attribute) and n.func.attr == 'append' and args == [self.linevar] and fn.endswith('_changes.append'):
                    # the block under construction collects its change lines itself (current_block._changes.append(line))
                    st['effects'].append(('store', 'changes', s.lineno))
                elif fn == 'self.initial_blank_lines.append' and args == [self.linevar]:
                    st['effects'].append(('store', 'initial', s.lineno))
                elif fn == 'self._blocks[-1].add_trailing_line' and args == [self.linevar]:
                    st['effects'].append(('store', 'trailing', s.lineno))
        if isinstance(s, ast.Assign):
            for t in s.targets:
                if isinstance(t, ast.Attribute) and norm(t.value) == 'current_block':
                    st['effects'].append(('set', t.attr, norm(s.value)[:60], s.lineno))
        return [(st, None)]

    def explore(self, allow_empty=None):
        """reachable abstract states and all transitions"""
        init = dict(state=self.init_state, old=None, nonempty=False)
        seen = {}
        work = [init]
        trans = []
        body = list(self.loop.body)
        while work:
            a = work.pop()
            key = (a['state'], a['old'], a['nonempty'])
            if key in seen:
                continue
            seen[key] = a
            st0 = dict(a, L=self.universe, effects=[], allow_empty=allow_empty)
            for st2, oc in self.run(body, st0):
                tr = dict(src=key, dst=(st2['state'], st2['old'], st2['nonempty']), L=st2['L'], effects=st2['effects'], outcome=oc, forks=tuple(st2.get('forks', ())))
                trans.append(tr)
                if oc not in ('return', 'raise'):
                    work.append(dict(state=st2['state'], old=st2['old'], nonempty=st2['nonempty']))
        self.states = seen
        self.transitions = trans
        return seen, trans

    def eof(self, key):
        """effects of the code after the loop when the input ends in abstract state `key`"""
        st = dict(state=key[0], old=key[1], nonempty=key[2], L=self.universe, effects=[], allow_empty=None)
        outs = self.run(self.post, st)
        return [o[0]['effects'] for o in outs]


# ---- whole texts through the real constructor and str(), by interpretation ------------------------------------------------------------

def interpret_text(src, text, strict=False, allow_empty_author=False, and_format=True):
    """Changelog(text, strict=..., allow_empty_author=...) and str() of it interpreted (sa.heap, CPython's regex engine on the decided
    lines; warnings collected, Version left as the text).  Returns a dict: warned (messages), raised (exception name or None),
    blocks (the attributes of every block, in list order), initial (the lines in front of the first block), text (str() of the result,
    None when the constructor raised) and format_raised (exception name of str(), or None)."""
    from .. import heap as H
    mod = src.mod(M)
    init = mod.method('Changelog', '__init__')
    tostr = mod.method('Changelog', '__str__')
    if init is None or tostr is None:
        raise AnalysisError('%s:Changelog.__init__ / __str__ not found' % M)
    warned = []
    heap = H.Heap(mod, extra_modules=[src.mod('debian_support')], hooks={
        'warnings.warn': lambda it, a, k: warned.append(a[0]), 'logger.warning': lambda it, a, k: warned.append(a[0]), 'Version': lambda it, a, k: a[0]})
    heap.native_regex = True
    it = H.Interp(heap)
    cl = heap.alloc('Changelog', {})
    res = {'warned': warned, 'raised': None, 'blocks': [], 'initial': None, 'text': None, 'format_raised': None}
    try:
        it.call(H.Closure(init.node, {}, cl, init.cls), [text], {'strict': strict, 'allow_empty_author': allow_empty_author})
    except H.Raised as x:
        res['raised'] = x.exc
        return res

    def plain(v_):
        if heap.is_list(v_):
            return [plain(x_) for x_ in heap.items(v_)]
        if isinstance(v_, H.Ref) and heap.objs[v_.name]['__class__'] == 'dict':
            return {k_: plain(x_) for k_, x_ in heap.objs[v_.name]['entries']}
        return v_.concrete() if hasattr(v_, 'concrete') else v_
    bl = heap.objs[cl.name].get('_blocks')
    for b_ in (heap.items(bl) if heap.is_list(bl) else []):
        o = heap.objs[b_.name]
        res['blocks'].append({k_: plain(o.get(k_)) for k_ in ('package', '_raw_version', 'distributions', 'urgency', 'urgency_comment', 'other_pairs', '_changes', 'author', 'date',
                                                               '_trailing')})
    res['initial'] = plain(heap.objs[cl.name].get('initial_blank_lines'))
    if and_format:
        try:
            out = it.call(H.Closure(tostr.node, {}, cl, tostr.cls), [])
            out = out.concrete() if hasattr(out, 'concrete') else out
            if not isinstance(out, str):
                raise AnalysisError('str() of the interpreted changelog is %r' % (out,))
            res['text'] = out
        except H.Raised as x:
            res['format_raised'] = x.exc
    return res

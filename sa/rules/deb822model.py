"""Model extraction for the classic Deb822 class (shared by C02, C08, C12, C17):
the reader's line regexes and cascade, the dump template, the validator's accepted language."""
import ast
import re

from .. import rx, strlang, paths, normalize
from ..core import AnalysisError, norm, walk_no_nested

MOD = 'deb822'
# oracle: Debian Policy 5.1 field names: US-ASCII 33-57, 59-126, not starting with '#' or '-'
KEY_RE = r'[!"$-,.-9;-~][!-9;-~]*'


class Model:
    def __init__(self, src, rep):
        self.src = src
        self.rep = rep
        self.alpha = rx.alphabet('str')
        self._langs = {}
        self.rx = {}
        for name in ('_single', '_multi', '_multidata', '_gpgre', '_initial_blank_line',
                     '_blank_line_whitespace', '_blank_line_no_whitespace'):
            r = src.regex(MOD, name, cls='Deb822')
            pat, fl = r['pattern'], r['flags']
            if isinstance(pat, bytes):
                pat = rx.bytes_pattern_as_str(pat)
                fl |= re.ASCII
            self.rx[name] = (pat, fl)
            rep.saw_regex('deb822:Deb822.' + name)
        self.cascade = self._cascade()

    # -- languages
    def L(self, name, mode='match'):
        k = (name, mode)
        if k not in self._langs:
            pat, fl = self.rx[name]
            self._langs[k] = rx.regex_lang(pat, fl, mode, alpha=self.alpha)
        return self._langs[k]

    def pat(self, p, flags=0):
        k = ('pat', p, flags)
        if k not in self._langs:
            self._langs[k] = rx.regex_lang(p, flags, 'fullmatch', alpha=self.alpha)
        return self._langs[k]

    def domain(self, extra='', spaces=False):
        """Σ_D*: printable ASCII, tab, printable non-space non-ASCII classes, plus `extra`; with spaces=True also the space separators
        beyond ASCII (NBSP, U+3000 ...), which C02 does not exclude from values while C08 names them as outside its domain"""
        k = ('dom', extra, spaces)
        if k not in self._langs:
            ok = set()
            for i, c in enumerate(self.alpha.syms):
                if c in extra or c == '\t' or (0x20 <= ord(c) <= 0x7e):
                    ok.add(i)
                elif ord(c) >= 0x80 and c.isprintable() and not c.isspace() and len(('a' + c + 'b').splitlines()) == 1:
                    ok.add(i)
                elif spaces and ord(c) >= 0x80 and c.isspace() and len(('a' + c + 'b').splitlines()) == 1 and __import__('unicodedata').category(c) == 'Zs':
                    ok.add(i)      # the space separators beyond ASCII (NBSP, U+3000 ...): text like any other inside a value
            self._langs[k] = rx.from_function(self.alpha, [], 0, lambda s, sym: 0 if (s == 0 and sym in ok) else 1,
                                              lambda s: s == 0)
        return self._langs[k]

    def skip_filter(self):
        """_skip_useless_lines as a filter on raw lines, decided per input type and per position:
           {(is_bytes, at_beginning): dict(dropped=<language of dropped lines>, yields_line=bool, changes_state=...)}
        from the paths of its loop body (type tests and the at_beginning flag are fixed by the case, the remaining
        literals are predicates on the line)"""
        if getattr(self, '_skip', None) is not None:
            return self._skip
        f = self.src.func('deb822:Deb822._skip_useless_lines')
        self.rep.saw_func(f)
        fnode, _ = normalize.inline_helpers(f)
        loops = [s for s in fnode.body if isinstance(s, ast.For)]
        if len(loops) != 1 or not isinstance(loops[0].target, ast.Name):
            raise AnalysisError('%s: expected one loop over the lines' % f.site)
        var = loops[0].target.id
        flags = [s_.targets[0].id for s_ in fnode.body[:fnode.body.index(loops[0])]
                 if isinstance(s_, ast.Assign) and len(s_.targets) == 1 and isinstance(s_.targets[0], ast.Name)
                 and isinstance(s_.value, ast.Constant) and s_.value.value is True]
        if len(flags) != 1:
            raise AnalysisError('%s: expected one position flag initialised to True before the loop' % f.site)
        flag = flags[0]

        class Unb(ast.NodeTransformer):
            def visit_Constant(self, n):
                if isinstance(n.value, bytes):
                    return ast.copy_location(ast.Constant(value=n.value.decode('latin-1')), n)
                return n
        out = {}
        anyl = rx.sigma_star(self.alpha)
        for is_bytes in (False, True):
            for at_beg in (False, True):
                def atom(e, is_bytes=is_bytes, at_beg=at_beg):
                    t = norm(e)
                    if t == flag:
                        return at_beg
                    if t == 'isinstance(%s, bytes)' % var:
                        return is_bytes
                    if t == 'isinstance(%s, str)' % var:
                        return not is_bytes
                    # a line of one type never equals a constant of the other type
                    if isinstance(e, ast.Compare) and len(e.ops) == 1 and isinstance(e.ops[0], (ast.Eq, ast.NotEq)):
                        for a_, b_ in ((e.left, e.comparators[0]), (e.comparators[0], e.left)):
                            if isinstance(b_, ast.Constant) and isinstance(b_.value, (str, bytes)) and isinstance(b_.value, bytes) != is_bytes \
                                    and any(isinstance(n, ast.Name) and n.id == var for n in ast.walk(a_)):
                                return isinstance(e.ops[0], ast.NotEq)
                    if isinstance(e, ast.Call) and isinstance(e.func, ast.Attribute) and e.func.attr in ('startswith', 'endswith', 'strip', 'rstrip', 'lstrip') \
                            and any(isinstance(n, ast.Name) and n.id == var for n in ast.walk(e.func.value)) \
                            and any(isinstance(a_, ast.Constant) and isinstance(a_.value, (str, bytes)) and isinstance(a_.value, bytes) != is_bytes for a_ in e.args):
                        raise AnalysisError('%s: %s is a TypeError for %s lines' % (f.site, t, 'bytes' if is_bytes else 'str'))
                    return None
                # constants bound before the loop (marker tables ...) are part of the loop body's environment
                p0 = paths.Path()
                pre_ps = paths.Enumerator(paths.Folder(paths.module_consts(f.module, f.cls or ''))).run(fnode.body[:fnode.body.index(loops[0])], [paths.Path()])
                if len(pre_ps) == 1 and pre_ps[0].outcome is None:
                    rebound = paths._assigned(loops[0])
                    for k_, v_ in pre_ps[0].env.items():
                        if k_ != flag and k_ not in rebound and not k_.startswith('@') \
                                and all(isinstance(x, (ast.Constant, ast.Tuple, ast.List, ast.Load)) for x in ast.walk(v_)):
                            p0.env[k_] = v_
                ps = paths.Enumerator(paths.Folder(paths.module_consts(f.module, f.cls or ''), atom)).run(loops[0].body, [p0])
                dropped = anyl.complement()
                yields_line = True
                keeps_flag = True
                for p_ in ps:
                    if p_.outcome is not None and p_.outcome[0] == 'raise':
                        continue
                    ys = [e for e in p_.events if e[0] == 'effect' and isinstance(e[1], ast.Expr) and isinstance(e[1].value, (ast.Yield, ast.YieldFrom))]
                    lang = anyl
                    for t, pol in p_.conds:
                        pl = strlang.pred_lang(Unb().visit(t), var, self.alpha)
                        lang = lang.intersect(pl if pol else pl.complement())
                    if not ys:
                        dropped = dropped.union(lang)
                        if flag in p_.env and not (isinstance(p_.env[flag], ast.Constant) and p_.env[flag].value is at_beg):
                            keeps_flag = False
                    else:
                        if len(ys) != 1 or not isinstance(ys[0][1].value, ast.Yield) or norm(ys[0][1].value.value) != var:
                            yields_line = False
                        nf = p_.env.get(flag)
                        if at_beg and not (isinstance(nf, ast.Constant) and nf.value is False):
                            keeps_flag = False
                out[(is_bytes, at_beg)] = dict(dropped=dropped, yields_line=yields_line, flag_ok=keeps_flag)
        self._skip = out
        self._skip_func = f
        return out

    def comment_lang(self):
        """language of the raw lines dropped by _skip_useless_lines as comments (str twin, not at the beginning)"""
        return self.skip_filter()[(False, False)]['dropped']

    # -- reader cascade of _internal_parser
    def _cascade(self):
        """the reader's line classification, read off the paths of the line loop of _internal_parser (helpers
        inlined, locals substituted away): every path is described by the regex literals it decides on the
        decoded line and by what it does to the pending field (curkey / content).  Result: list of regions
          dict(lits=((regex name, mode, polarity), ...), kind='field'|'cont'|'skip'|'other', name=<display>,
               key=<regex name or None>, content=('group', regex, group)|('const', text)|('other', text),
               verbatim=bool, flush_ok=bool, subject=<text>)"""
        f = self.src.func('deb822:Deb822._internal_parser')
        self.rep.saw_func(f)
        fnode, _inl = normalize.inline_helpers(f)
        fnode = normalize.genexp_loop_fusion(fnode)       # `for line in (decode(b) for b in lines)` is the loop over `lines` that decodes first
        if _inl:
            # the parser may be a pipeline (a generator that recognises the fields and a loop that stores them, fused above): its
            # pieces of glue are read away -- `k, v = (a, b)`, `x = A if c else B`, a list of value lines joined with "\n" at the store
            fnode = normalize.split_tuple_assign(fnode)
            fnode = normalize.ifexp_to_if(fnode)
            fnode = normalize.list_accumulator_to_string(fnode)
            fnode, _al = normalize.propagate_aliases(fnode, only_simple=True, in_loops=True)
            fnode = normalize.block_copy_propagation(fnode)       # (k = K; v = V; self[k] = v  ->  self[K] = V)
            # the pending field is held in two locals; the rules below know them by the names of the pinned code (curkey, content):
            # the names used as key and as value of the store `self[K] = V` are those two
            ren = {}
            for st_ in ast.walk(fnode):
                if isinstance(st_, ast.Assign) and len(st_.targets) == 1 and isinstance(st_.targets[0], ast.Subscript) and norm(st_.targets[0].value) == 'self' \
                        and isinstance(st_.targets[0].slice, ast.Name) and isinstance(st_.value, ast.Name):
                    ren.setdefault(st_.targets[0].slice.id, 'curkey')
                    ren.setdefault(st_.value.id, 'content')
            used_ = {n_.id for n_ in ast.walk(fnode) if isinstance(n_, ast.Name)}
            ren = {k_: v_ for k_, v_ in ren.items() if k_ != v_}
            if ren and len(set(ren.values())) == len(ren) and not (set(ren.values()) & used_):
                from ..core import clone as _clone
                fnode = _clone(fnode)
                fnode.body = [normalize._Rename(ren, {}).visit(st_) for st_ in fnode.body]
                ast.fix_missing_locations(fnode)
        loops = [s for s in fnode.body if isinstance(s, ast.For)]
        if len(loops) != 1:
            raise AnalysisError('%s: expected one line loop' % f.site)
        loop = loops[0]
        self.parser_loop = loop
        self.parser_func = f
        self.parser_node = fnode
        folder = paths.Folder(paths.module_consts(f.module, f.cls or ''))
        ps = paths.Enumerator(folder).run(loop.body, [paths.Path()])
        self.rep.analysed['paths'] += len(ps)

        def regex_call(e):
            """(name, mode, subject) for self.<R>.match(<subject>)"""
            if isinstance(e, ast.Call) and isinstance(e.func, ast.Attribute) and e.func.attr in ('match', 'fullmatch', 'search') \
                    and isinstance(e.func.value, ast.Attribute) and norm(e.func.value.value) in ('self', 'cls', 'Deb822') and len(e.args) == 1:
                return e.func.value.attr, e.func.attr, norm(e.args[0])
            return None

        def regex_literal(t, pol):
            e = t
            if isinstance(t, ast.Compare) and len(t.ops) == 1 and isinstance(t.comparators[0], ast.Constant) and t.comparators[0].value is None \
                    and isinstance(t.ops[0], (ast.Is, ast.IsNot)):
                e = t.left
                if isinstance(t.ops[0], ast.Is):
                    pol = not pol
            rc = regex_call(e)
            return None if rc is None else (rc[0], rc[1], pol, rc[2])

        def flat_add(e, out):
            if isinstance(e, ast.BinOp) and isinstance(e.op, ast.Add):
                flat_add(e.left, out)
                flat_add(e.right, out)
            else:
                out.append(e)
            return out
        regions = {}
        subjects = set()
        for p_ in ps:
            if p_.outcome is not None and p_.outcome[0] not in ('continue',):
                if p_.outcome[0] == 'raise':
                    continue
                raise AnalysisError('%s: the line loop is left by %s' % (f.site, p_.outcome[0]))
            lits = []
            pending = None
            for t, pol in p_.conds:
                rl = regex_literal(t, pol)
                if rl is not None:
                    lits.append(rl[:3])
                    subjects.add(rl[3])
                elif norm(t) == 'curkey':
                    pending = pol
                elif norm(t) in ('curkey is not None', 'curkey is None'):
                    pending = pol if norm(t).endswith('not None') else not pol
            ck = p_.env.get('curkey')
            ct = p_.env.get('content')
            flushed = any(e[0] == 'store' and e[1] == 'self[curkey]' and norm(e[2]) == 'content' for e in p_.events)
            odd_store = [e for e in p_.events if e[0] == 'store' and e[1].startswith('self[') and not (e[1] == 'self[curkey]' and norm(e[2]) == 'content')]
            kind, key, content, verbatim = 'skip', None, None, False
            if ck is not None and isinstance(ck, ast.Call) and isinstance(ck.func, ast.Attribute) and ck.func.attr == 'group' and regex_call(ck.func.value):
                kind = 'field'
                key = (regex_call(ck.func.value)[0], ck.args[0].value if ck.args and isinstance(ck.args[0], ast.Constant) else None)
                if ct is None:
                    content = ('other', 'the previous content')
                elif isinstance(ct, ast.Constant) and isinstance(ct.value, str):
                    content = ('const', ct.value)
                elif isinstance(ct, ast.Call) and isinstance(ct.func, ast.Attribute) and ct.func.attr == 'group' and regex_call(ct.func.value) \
                        and ct.args and isinstance(ct.args[0], ast.Constant):
                    content = ('group', regex_call(ct.func.value)[0], ct.args[0].value)
                else:
                    content = ('other', norm(ct))
            elif ck is not None and isinstance(ck, ast.Constant) and ck.value is None:
                kind = 'unwanted'
            elif ck is not None:
                kind, content = 'other', ('other', 'curkey = ' + norm(ck))
            elif ct is not None:
                parts = flat_add(ct, [])
                kind = 'cont'
                verbatim = len(parts) == 3 and norm(parts[0]) == 'content' and isinstance(parts[1], ast.Constant) and parts[1].value == '\n' \
                    and norm(parts[2]) in subjects
                content = ('other', norm(ct))
            flush_ok = True
            if kind in ('field', 'unwanted', 'other') and pending is not False:
                flush_ok = flushed and pending is True
            if odd_store:
                flush_ok = False
            k = (tuple(lits), kind, key, content if kind != 'cont' else ('cont', verbatim))
            r = regions.get(k)
            if r is None:
                pos = [n for n, _m, pol in lits if pol]
                r = regions[k] = dict(lits=tuple(lits), kind=kind, key=key, content=content, verbatim=verbatim, flush_ok=True,
                                      name='+'.join(pos) if pos else 'no regex', paths=[])
                if key is not None:
                    r['mode'] = [m for n, m, pol in lits if n == key[0] and pol][0] if any(n == key[0] and pol for n, m, pol in lits) else None
            r['flush_ok'] = r['flush_ok'] and flush_ok
            r['paths'].append(p_)
        if len(subjects) != 1:
            raise AnalysisError('%s: the reader regexes are applied to %d different subjects' % (f.site, len(subjects)))
        self.linevar = subjects.pop()
        out = [r for r in regions.values() if r['kind'] != 'unwanted']
        self.unwanted = [r for r in regions.values() if r['kind'] == 'unwanted']
        if len([r for r in out if r['kind'] in ('field', 'cont')]) < 3:
            raise AnalysisError('%s: fewer than three acting line classes in the line loop' % f.site)
        for r in out:
            for n, _m, _p in r['lits']:
                if n not in self.rx:
                    reg = self.src.regex(MOD, n, cls='Deb822')
                    pat, fl = reg['pattern'], reg['flags']
                    if isinstance(pat, bytes):
                        pat = rx.bytes_pattern_as_str(pat)
                        fl |= re.ASCII
                    self.rx[n] = (pat, fl)
        return out

    def region_lang(self, br):
        k = ('region', br['lits'])
        if k not in self._langs:
            lang = rx.sigma_star(self.alpha)
            for n, m, pol in br['lits']:
                L = self.L(n, m)
                lang = lang.intersect(L if pol else L.complement())
            self._langs[k] = lang
        return self._langs[k]

    # -- dump template
    def dump_worlds(self, substitutions=None):
        """worlds of the per-field template of _dump_format: [(term, predicates on the value)].  `substitutions`: a list that
        receives (term, old, new, predicates so far) for every `<text>.replace(old, new)` with constant arguments on the way; the
        call is then treated as the identity (the caller decides what the substitution means for its property).  Without the
        list such a call is outside the template vocabulary."""
        f = self.src.func('deb822:Deb822._dump_format')
        self.rep.saw_func(f)
        fnode_, _inl = normalize.inline_helpers(f)          # the line of one field may be laid out by a helper of the class
        loops = [s for s in fnode_.body if isinstance(s, ast.For)]
        if len(loops) != 1 or norm(loops[0].iter) != 'self' or not isinstance(loops[0].target, ast.Name):
            raise AnalysisError('%s: expected `for key in self`' % f.site)
        loop = loops[0]
        keyvar = loop.target.id
        seen_subst = set()

        def hook(it, call, env):
            if norm(call.func) == 'self.get_as_string' and len(call.args) == 1 and norm(call.args[0]) == keyvar:
                return strlang.Slot('value')
            if isinstance(call.func, ast.Attribute) and call.func.attr == 'replace' and len(call.args) == 2 and not call.keywords \
                    and all(isinstance(a, ast.Constant) and isinstance(a.value, str) for a in call.args) and call.args[0].value:
                v = it.ev(call.func.value, env)
                if isinstance(v, strlang.T):
                    if call.args[0].value == call.args[1].value:
                        return v
                    if substitutions is None:
                        raise AnalysisError('%s: line %d rewrites the text with %s: outside the template vocabulary of this rule' % (f.site, call.lineno, norm(call)[:60]))
                    k = (call.lineno, call.col_offset, tuple((p_[0], norm(p_[1]), p_[3]) for p_ in it.preds))
                    if k not in seen_subst:
                        seen_subst.add(k)
                        substitutions.append((v, call.args[0].value, call.args[1].value, list(it.preds), call.lineno))
                    return v
            return NotImplemented

        def run(dec):
            it = strlang.Interp(dec, cls='Deb822', call_hook=hook)
            env = {keyvar: strlang.Slot('key'), 'self': strlang.Obj('self', ('rec', {}))}
            r = it.run(loop.body, env)
            if r is not None:
                raise AnalysisError('%s: return inside the field loop' % f.site)
            if len(it.yields) != 1:
                raise AnalysisError('%s: %d yields per field' % (f.site, len(it.yields)))
            return it.yields[0], it
        res, raised = strlang.worlds(run)
        if raised or not res:
            raise AnalysisError('%s: template extraction failed (%r)' % (f.site, raised[:1]))
        out = []
        for dec, term, it in res:
            for (path, test, var, pol) in it.preds:
                if path != 'value':
                    raise AnalysisError('%s: condition on %s' % (f.site, path))
            out.append((term, list(it.preds)))
        # a condition that does not change what is written is no condition of the template: two worlds with the same term whose
        # predicates differ in the polarity of exactly one test are one world without that test
        changed = True
        while changed:
            changed = False
            for i in range(len(out)):
                for j in range(i + 1, len(out)):
                    (t1, p1), (t2, p2) = out[i], out[j]
                    if strlang.show(t1) != strlang.show(t2) or len(p1) != len(p2):
                        continue
                    k1 = [(p_[0], norm(p_[1]), p_[2], p_[3]) for p_ in p1]
                    k2 = [(p_[0], norm(p_[1]), p_[2], p_[3]) for p_ in p2]
                    diff = [n for n in range(len(k1)) if k1[n] != k2[n]]
                    if len(diff) == 1 and k1[diff[0]][:3] == k2[diff[0]][:3] and k1[diff[0]][3] != k2[diff[0]][3]:
                        out[i] = (t1, [p_ for n, p_ in enumerate(p1) if n != diff[0]])
                        del out[j]
                        changed = True
                        break
                if changed:
                    break
        return out, f

    def refine(self, lang, preds):
        for (path, test, var, pol) in preds:
            pl = strlang.pred_lang(test, var, self.alpha)
            lang = lang.intersect(pl if pol else pl.complement())
        return lang

    # -- validator
    def validator(self):
        """Deb822.validate_input, helpers inlined, unfolded into paths with locals substituted away.  The
        per-line loop (`for line in <value>.<splitter>()[k:]`) is summarised by the paths of its body."""
        if getattr(self, '_validator', None) is not None:
            return self._validator
        f = self.src.func('deb822:Deb822.validate_input')
        self.rep.saw_func(f)
        params = f.params()
        if len(params) < 3:
            raise AnalysisError('%s: unexpected signature' % f.site)
        val = params[2]
        fnode, _inl = normalize.inline_helpers(f)
        fnode = normalize.iter_skip_to_slice(normalize.islice_to_slice(fnode))
        fnode = normalize.unroll_const_loops(fnode, table_nodes=normalize.class_table_nodes(f.module, f.cls or ''))
        folder = paths.Folder(paths.module_consts(f.module, f.cls or ''))
        loops = []

        def loop_handler(en, st, path):
            if not isinstance(st, ast.For) or not isinstance(st.target, ast.Name) or st.orelse:
                return None
            it = paths.subst(st.iter, path.env)
            skip = 0
            while isinstance(it, ast.Subscript) and isinstance(it.slice, ast.Slice) and it.slice.upper is None and it.slice.step is None:
                lo = it.slice.lower
                k = lo.value if isinstance(lo, ast.Constant) and isinstance(lo.value, int) and lo.value >= 0 else 0 if lo is None else None
                skip = None if (k is None or skip is None) else skip + k
                it = it.value
            if not (isinstance(it, ast.Call) and isinstance(it.func, ast.Attribute) and norm(it.func.value) == val):
                return None
            linevar = st.target.id
            sub = paths.Enumerator(folder)
            p0 = paths.Path()
            p0.env = {k: v for k, v in path.env.items() if k != linevar}
            body = sub.run(st.body, [p0])
            for bp in body:
                if bp.outcome is None:
                    bp.outcome = ('fall', None, None)
                if bp.outcome[0] not in ('raise', 'fall', 'continue'):
                    raise AnalysisError('%s: the per-line loop is left by %s' % (f.site, bp.outcome[0]))
                if any(e[0] in ('store', 'loop') for e in bp.events):
                    raise AnalysisError('%s: the per-line loop has side effects' % f.site)
            info = dict(splitter=norm(it).replace(val, '$'), skip=skip, linevar=linevar, paths=body)
            loops.append(info)
            path.events.append(('lines', info, st))
            return [path]
        ps = paths.function_paths(fnode, folder, loop_handler)
        if not loops:
            raise AnalysisError('%s: no per-line loop found' % f.site)
        first = loops[0]
        if any((l['splitter'], l['linevar']) != (first['splitter'], first['linevar']) for l in loops):
            raise AnalysisError('%s: different per-line loops on different paths' % f.site)
        self._validator = dict(func=f, value=val, splitter=first['splitter'], skip=first['skip'], linevar=first['linevar'], paths=ps, loops=loops)
        return self._validator

    def line_pred_lang(self, test, var):
        """language of single lines for which `test` holds; adds `x[0].isspace()` to the vocabulary"""
        alpha = self.alpha

        def go(t):
            if isinstance(t, ast.BoolOp):
                ls = [go(v) for v in t.values]
                out = ls[0]
                for x in ls[1:]:
                    out = out.intersect(x) if isinstance(t.op, ast.And) else out.union(x)
                return out
            if isinstance(t, ast.UnaryOp) and isinstance(t.op, ast.Not):
                return go(t.operand).complement()
            if isinstance(t, ast.Call) and isinstance(t.func, ast.Attribute) and t.func.attr in ('isspace',) and not t.args:
                recv = t.func.value
                mask = alpha.mask_of(lambda c: c.isspace())
                if isinstance(recv, ast.Subscript) and norm(recv.value) == var and norm(recv.slice) == '0':
                    # first character is whitespace (IndexError on the empty line is not modelled: the empty
                    # line is covered by the preceding `not line` guard, whose presence is checked separately)
                    return rx.from_function(alpha, [], 0, lambda s, sym: (1 if mask >> sym & 1 else 2) if s == 0 else s,
                                            lambda s: s == 1)
                if norm(recv) == var:
                    return rx.from_function(alpha, [], 0, lambda s, sym: (1 if (mask >> sym & 1 and s != 2) else 2),
                                            lambda s: s == 1)
            return strlang.pred_lang(t, var, alpha)
        return go(test)

    def validator_lang(self, dom_extra='\r\n'):
        """accepted values (over the domain) and the language of accepted continuation lines"""
        V = self.validator()
        if V['splitter'] != '$.splitlines()':
            # a different primitive changes what a "line" is: C08.R2 reports it; here we cannot build the model
            raise AnalysisError('validator splits the value with %s, not str.splitlines()' % V['splitter'])
        dom = self.domain(dom_extra)
        # per-line acceptance: no raising path of the loop body is taken
        noboundary = self.pat(r'[^\n\r]*').intersect(dom)
        index_error = None
        lv = V['linevar']
        reject = noboundary.minus(noboundary)
        for bp in V['loops'][0]['paths']:
            cur = noboundary
            for test, pol in bp.conds:
                indexes = any(isinstance(n, ast.Subscript) and norm(n.value) == lv for n in ast.walk(test))
                if indexes and cur.accepts('') and index_error is None:
                    index_error = norm(test)
                pl = self.line_pred_lang(test, lv)
                cur = cur.intersect(pl if pol else pl.complement())
            if bp.outcome[0] == 'raise':
                reject = reject.union(cur)
        ok_line = noboundary.minus(reject)
        # accepted = first (B line)* with every line after the first in ok_line, minus whole-value rejections.
        # boundaries of splitlines inside the domain: \n, \r, \r\n.  A trailing boundary does not open a line.
        first = noboundary
        alpha = self.alpha
        nl, cr = alpha.idx['\n'], alpha.idx['\r']

        # automaton: state = (number of lines closed so far (capped), dfa state, after \r, at line start); the first `skip`
        # lines are not examined, every later line must be acceptable
        def make_lines_ok(skip):
            def step(s, sym):
                if s == 'dead':
                    return s
                ph, q, after_cr, at_start = s
                checked = ph >= skip
                if sym == nl or sym == cr:
                    if sym == nl and after_cr and at_start:
                        # \r\n is one boundary: stay at the start of the new line
                        return (ph, q, False, True)
                    # close the current line
                    if not (ok_line.acc[q] if checked else first.acc[q]):
                        return 'dead'
                    return (min(ph + 1, skip), 0, sym == cr, True)
                if not checked:
                    return (ph, first.trans[q][sym], False, False)
                return (ph, ok_line.trans[q][sym], False, False)

            def accepting(s):
                if s == 'dead':
                    return False
                ph, q, after_cr, at_start = s
                if ph > 0 and at_start:
                    return True      # text ended with a boundary: no further line
                return ok_line.acc[q] if ph >= skip else first.acc[q]
            return rx.from_function(alpha, [], (0, 0, False, True), step, accepting)
        lines_ok_by_skip = {}
        # a value is accepted when it takes a non-raising path: all literals of the path hold and, when the path
        # runs the per-line loop, every continuation line is acceptable
        anyv = rx.sigma_star(alpha)
        accepted = anyv.complement()
        for p_ in V['paths']:
            if p_.outcome[0] == 'raise':
                continue
            lang = anyv
            for test, pol in p_.conds:
                pl = strlang.pred_lang(test, V['value'], self.alpha)
                lang = lang.intersect(pl if pol else pl.complement())
            for e in p_.events:
                if e[0] == 'lines':
                    k = e[1]['skip']
                    if k is None:
                        raise AnalysisError('validator: the number of unchecked leading lines is not a constant')
                    if k not in lines_ok_by_skip:
                        lines_ok_by_skip[k] = make_lines_ok(k)
                    lang = lang.intersect(lines_ok_by_skip[k])
            accepted = accepted.union(lang)
        return dict(V=V, accepted=accepted.intersect(dom), ok_line=ok_line, index_error=index_error)

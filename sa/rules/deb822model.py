"""Model extraction for the classic Deb822 class (shared by C02, C08, C12, C17):
the reader's line regexes and cascade, the dump template, the validator's accepted language."""
import ast
import re

from .. import rx, strlang, paths, normalize
from ..core import AnalysisError, norm, walk_no_nested

MOD = 'deb822'
# oracle: Debian Policy 5.1 field names: US-ASCII 33-57, 59-126, not starting with '#' or '-'
KEY_RE = r'[!"$-,.-9;-~][!-9;-~]*'


class Model:
    def __init__(self, src, rep):
        self.src = src
        self.rep = rep
        self.alpha = rx.alphabet('str')
        self._langs = {}
        self.rx = {}
        for name in ('_single', '_multi', '_multidata', '_gpgre', '_initial_blank_line',
                     '_blank_line_whitespace', '_blank_line_no_whitespace'):
            r = src.regex(MOD, name, cls='Deb822')
            pat, fl = r['pattern'], r['flags']
            if isinstance(pat, bytes):
                pat = rx.bytes_pattern_as_str(pat)
                fl |= re.ASCII
            self.rx[name] = (pat, fl)
            rep.saw_regex('deb822:Deb822.' + name)
        self.cascade = self._cascade()

    # -- languages
    def L(self, name, mode='match'):
        k = (name, mode)
        if k not in self._langs:
            pat, fl = self.rx[name]
            self._langs[k] = rx.regex_lang(pat, fl, mode, alpha=self.alpha)
        return self._langs[k]

    def pat(self, p, flags=0):
        k = ('pat', p, flags)
        if k not in self._langs:
            self._langs[k] = rx.regex_lang(p, flags, 'fullmatch', alpha=self.alpha)
        return self._langs[k]

    def domain(self, extra=''):
        """Σ_D*: printable ASCII, tab, printable non-space non-ASCII classes, plus `extra`"""
        k = ('dom', extra)
        if k not in self._langs:
            ok = set()
            for i, c in enumerate(self.alpha.syms):
                if c in extra or c == '\t' or (0x20 <= ord(c) <= 0x7e):
                    ok.add(i)
                elif ord(c) >= 0x80 and c.isprintable() and not c.isspace() and len(('a' + c + 'b').splitlines()) == 1:
                    ok.add(i)
            self._langs[k] = rx.from_function(self.alpha, [], 0, lambda s, sym: 0 if (s == 0 and sym in ok) else 1,
                                              lambda s: s == 0)
        return self._langs[k]

    def comment_lang(self):
        """language of the raw lines dropped by _skip_useless_lines as comments (str twin)"""
        if ('comment',) in self._langs:
            return self._langs[('comment',)]
        f = self.src.func('deb822:Deb822._skip_useless_lines')
        loops = [s for s in f.node.body if isinstance(s, ast.For)]
        if len(loops) != 1:
            raise AnalysisError('%s: expected one loop' % f.site)
        var = norm(loops[0].target)
        tests = []

        def scan(stmts, in_str_branch):
            for st in stmts:
                if isinstance(st, ast.If):
                    if norm(st.test) == 'isinstance(%s, bytes)' % var:
                        scan(st.orelse, True)
                        continue
                    if norm(st.test) == 'at_beginning':
                        continue
                    if any(isinstance(b, ast.Continue) for b in st.body) and in_str_branch:
                        tests.append(st.test)
                    else:
                        scan(st.body, in_str_branch)
                        scan(st.orelse, in_str_branch)
        scan(loops[0].body, False)
        if not tests:
            raise AnalysisError('%s: comment test not found' % f.site)
        lang = None
        for t in tests:
            pl = strlang.pred_lang(t, var, self.alpha)
            lang = pl if lang is None else lang.union(pl)
        self._langs[('comment',)] = lang
        return lang

    # -- reader cascade of _internal_parser
    def _cascade(self):
        f = self.src.func('deb822:Deb822._internal_parser')
        self.rep.saw_func(f)
        loops = [s for s in f.node.body if isinstance(s, ast.For)]
        if len(loops) != 1:
            raise AnalysisError('%s: expected one line loop' % f.site)
        loop = loops[0]
        self.parser_loop = loop
        self.parser_func = f
        out = []
        body = loop.body
        i = 0
        linevar = None
        while i < len(body):
            st = body[i]
            if isinstance(st, ast.Assign) and isinstance(st.value, ast.Call) and isinstance(st.value.func, ast.Attribute) \
                    and st.value.func.attr in ('match', 'fullmatch', 'search') and isinstance(st.value.func.value, ast.Attribute) \
                    and norm(st.value.func.value.value) in ('self', 'cls', 'Deb822'):
                name = st.value.func.value.attr
                mode = st.value.func.attr
                mvar = norm(st.targets[0])
                subject = norm(st.value.args[0])
                linevar = linevar or subject
                if subject != linevar:
                    raise AnalysisError('%s: cascade regexes are applied to different subjects' % f.site)
                if i + 1 >= len(body) or not (isinstance(body[i + 1], ast.If) and norm(body[i + 1].test) == mvar and not body[i + 1].orelse):
                    raise AnalysisError('%s: `%s` is not followed by `if %s:`' % (f.site, norm(st), mvar))
                blk = body[i + 1]
                kind = 'field' if any(isinstance(s, ast.Assign) and norm(s.targets[0]) == 'curkey' and 'group' in norm(s.value)
                                      for s in walk_no_nested(blk)) else 'cont'
                out.append(dict(name=name, mode=mode, mvar=mvar, block=blk, kind=kind, stmt=st))
                i += 2
                continue
            i += 1
        if len(out) < 3:
            raise AnalysisError('%s: fewer than three regex branches in the line loop' % f.site)
        self.linevar = linevar
        return out

    # -- dump template
    def dump_worlds(self):
        f = self.src.func('deb822:Deb822._dump_format')
        self.rep.saw_func(f)
        loops = [s for s in f.node.body if isinstance(s, ast.For)]
        if len(loops) != 1 or norm(loops[0].iter) != 'self' or not isinstance(loops[0].target, ast.Name):
            raise AnalysisError('%s: expected `for key in self`' % f.site)
        loop = loops[0]
        keyvar = loop.target.id

        def hook(it, call, env):
            if norm(call.func) == 'self.get_as_string' and len(call.args) == 1 and norm(call.args[0]) == keyvar:
                return strlang.Slot('value')
            return NotImplemented

        def run(dec):
            it = strlang.Interp(dec, cls='Deb822', call_hook=hook)
            env = {keyvar: strlang.Slot('key'), 'self': strlang.Obj('self', ('rec', {}))}
            r = it.run(loop.body, env)
            if r is not None:
                raise AnalysisError('%s: return inside the field loop' % f.site)
            if len(it.yields) != 1:
                raise AnalysisError('%s: %d yields per field' % (f.site, len(it.yields)))
            return it.yields[0], it
        res, raised = strlang.worlds(run)
        if raised or not res:
            raise AnalysisError('%s: template extraction failed (%r)' % (f.site, raised[:1]))
        out = []
        for dec, term, it in res:
            for (path, test, var, pol) in it.preds:
                if path != 'value':
                    raise AnalysisError('%s: condition on %s' % (f.site, path))
            out.append((term, list(it.preds)))
        return out, f

    def refine(self, lang, preds):
        for (path, test, var, pol) in preds:
            pl = strlang.pred_lang(test, var, self.alpha)
            lang = lang.intersect(pl if pol else pl.complement())
        return lang

    # -- validator
    def validator(self):
        """Deb822.validate_input, helpers inlined, unfolded into paths with locals substituted away.  The
        per-line loop (`for line in <value>.<splitter>()[k:]`) is summarised by the paths of its body."""
        if getattr(self, '_validator', None) is not None:
            return self._validator
        f = self.src.func('deb822:Deb822.validate_input')
        self.rep.saw_func(f)
        params = f.params()
        if len(params) < 3:
            raise AnalysisError('%s: unexpected signature' % f.site)
        val = params[2]
        fnode, _inl = normalize.inline_helpers(f)
        folder = paths.Folder(paths.module_consts(f.module, f.cls or ''))
        loops = []

        def loop_handler(en, st, path):
            if not isinstance(st, ast.For) or not isinstance(st.target, ast.Name) or st.orelse:
                return None
            it = paths.subst(st.iter, path.env)
            skip = 0
            if isinstance(it, ast.Subscript) and isinstance(it.slice, ast.Slice) and it.slice.upper is None and it.slice.step is None:
                lo = it.slice.lower
                skip = lo.value if isinstance(lo, ast.Constant) else 0 if lo is None else None
                it = it.value
            if not (isinstance(it, ast.Call) and isinstance(it.func, ast.Attribute) and norm(it.func.value) == val):
                return None
            linevar = st.target.id
            sub = paths.Enumerator(folder)
            p0 = paths.Path()
            p0.env = {k: v for k, v in path.env.items() if k != linevar}
            body = sub.run(st.body, [p0])
            for bp in body:
                if bp.outcome is None:
                    bp.outcome = ('fall', None, None)
                if bp.outcome[0] not in ('raise', 'fall', 'continue'):
                    raise AnalysisError('%s: the per-line loop is left by %s' % (f.site, bp.outcome[0]))
                if any(e[0] in ('store', 'loop') for e in bp.events):
                    raise AnalysisError('%s: the per-line loop has side effects' % f.site)
            info = dict(splitter=norm(it).replace(val, '$'), skip=skip, linevar=linevar, paths=body)
            loops.append(info)
            path.events.append(('lines', info, st))
            return [path]
        ps = paths.function_paths(fnode, folder, loop_handler)
        if not loops:
            raise AnalysisError('%s: no per-line loop found' % f.site)
        first = loops[0]
        if any((l['splitter'], l['skip'], l['linevar']) != (first['splitter'], first['skip'], first['linevar']) for l in loops):
            raise AnalysisError('%s: different per-line loops on different paths' % f.site)
        self._validator = dict(func=f, value=val, splitter=first['splitter'], skip=first['skip'], linevar=first['linevar'], paths=ps, loops=loops)
        return self._validator

    def line_pred_lang(self, test, var):
        """language of single lines for which `test` holds; adds `x[0].isspace()` to the vocabulary"""
        alpha = self.alpha

        def go(t):
            if isinstance(t, ast.BoolOp):
                ls = [go(v) for v in t.values]
                out = ls[0]
                for x in ls[1:]:
                    out = out.intersect(x) if isinstance(t.op, ast.And) else out.union(x)
                return out
            if isinstance(t, ast.UnaryOp) and isinstance(t.op, ast.Not):
                return go(t.operand).complement()
            if isinstance(t, ast.Call) and isinstance(t.func, ast.Attribute) and t.func.attr in ('isspace',) and not t.args:
                recv = t.func.value
                mask = alpha.mask_of(lambda c: c.isspace())
                if isinstance(recv, ast.Subscript) and norm(recv.value) == var and norm(recv.slice) == '0':
                    # first character is whitespace (IndexError on the empty line is not modelled: the empty
                    # line is covered by the preceding `not line` guard, whose presence is checked separately)
                    return rx.from_function(alpha, [], 0, lambda s, sym: (1 if mask >> sym & 1 else 2) if s == 0 else s,
                                            lambda s: s == 1)
                if norm(recv) == var:
                    return rx.from_function(alpha, [], 0, lambda s, sym: (1 if (mask >> sym & 1 and s != 2) else 2),
                                            lambda s: s == 1)
            return strlang.pred_lang(t, var, alpha)
        return go(test)

    def validator_lang(self, dom_extra='\r\n'):
        """accepted values (over the domain) and the language of accepted continuation lines"""
        V = self.validator()
        if V['splitter'] != '$.splitlines()':
            # a different primitive changes what a "line" is: C08.R2 reports it; here we cannot build the model
            raise AnalysisError('validator splits the value with %s, not str.splitlines()' % V['splitter'])
        if V['skip'] != 1:
            raise AnalysisError('validator does not skip exactly the first line')
        dom = self.domain(dom_extra)
        # per-line acceptance: no raising path of the loop body is taken
        noboundary = self.pat(r'[^\n\r]*').intersect(dom)
        index_error = None
        lv = V['linevar']
        reject = noboundary.minus(noboundary)
        for bp in V['loops'][0]['paths']:
            cur = noboundary
            for test, pol in bp.conds:
                indexes = any(isinstance(n, ast.Subscript) and norm(n.value) == lv for n in ast.walk(test))
                if indexes and cur.accepts('') and index_error is None:
                    index_error = norm(test)
                pl = self.line_pred_lang(test, lv)
                cur = cur.intersect(pl if pol else pl.complement())
            if bp.outcome[0] == 'raise':
                reject = reject.union(cur)
        ok_line = noboundary.minus(reject)
        # accepted = first (B line)* with every line after the first in ok_line, minus whole-value rejections.
        # boundaries of splitlines inside the domain: \n, \r, \r\n.  A trailing boundary does not open a line.
        first = noboundary
        alpha = self.alpha
        nl, cr = alpha.idx['\n'], alpha.idx['\r']

        # automaton: state = (phase, dfa state)  phase 0: in first line, 1: in a later line, 2: after \r (pending)
        def step(s, sym):
            if s == 'dead':
                return s
            ph, q, after_cr, at_start = s
            if sym == nl or sym == cr:
                if sym == nl and after_cr and at_start:
                    # \r\n is one boundary: stay at the start of the new line
                    return (ph, q, False, True)
                # close the current line
                if ph == 0:
                    if not first.acc[q]:
                        return 'dead'
                else:
                    if not ok_line.acc[q]:
                        return 'dead'
                return (1, 0, sym == cr, True)
            if ph == 0:
                return (0, first.trans[q][sym], False, False)
            return (1, ok_line.trans[q][sym], False, False)

        def accepting(s):
            if s == 'dead':
                return False
            ph, q, after_cr, at_start = s
            if ph == 0:
                return first.acc[q]
            if at_start:
                return True      # text ended with a boundary: no further line
            return ok_line.acc[q]
        lines_ok = rx.from_function(alpha, [], (0, 0, False, True), step, accepting)
        # a value is accepted when it takes a non-raising path: all literals of the path hold and, when the path
        # runs the per-line loop, every continuation line is acceptable
        anyv = rx.sigma_star(alpha)
        accepted = anyv.complement()
        for p_ in V['paths']:
            if p_.outcome[0] == 'raise':
                continue
            lang = anyv
            for test, pol in p_.conds:
                pl = strlang.pred_lang(test, V['value'], self.alpha)
                lang = lang.intersect(pl if pol else pl.complement())
            if any(e[0] == 'lines' for e in p_.events):
                lang = lang.intersect(lines_ok)
            accepted = accepted.union(lang)
        return dict(V=V, accepted=accepted.intersect(dom), ok_line=ok_line, index_error=index_error)

"""helpers shared by the rule modules"""
import ast
import re

from .. import rx
from ..core import AnalysisError, norm, walk_no_nested


def regex_audit(rep, src, pid, modules=None):
    """thorough tier, informational: for every regex literal of the given modules report whether
    `$` lets a trailing newline through and whether \\d admits non-ASCII digits.  Never a violation."""
    n = 0
    for r in src.regexes():
        if modules and r['module'] not in modules:
            continue
        if r['pattern'] is None or isinstance(r['pattern'], bytes):
            continue
        try:
            L = rx.regex_lang(r['pattern'], r['flags'], 'match')
        except AnalysisError as e:
            rep.note('%s regex %s:%s not analysable: %s' % (pid, r['module'], r['binding'], e))
            continue
        n += 1
        alpha = L.alpha
        nl_end = rx.regex_lang(r'(?s:.*)\n', 0, 'fullmatch', alpha=alpha)
        strict = rx.regex_lang(r['pattern'].replace('$', r'\Z') if isinstance(r['pattern'], str) else r['pattern'],
                               r['flags'], 'match') if '$' in r['pattern'] else None
        if strict is not None:
            w = L.intersect(nl_end).not_subset_witness(strict)
            if w is not None:
                rep.note('%s audit: %s:%s `$` accepts a trailing newline, e.g. %r' % (pid, r['module'], r['binding'], w))
        if '\\d' in r['pattern']:
            ascii_only = rx.regex_lang(r['pattern'].replace('\\d', '[0-9]'), r['flags'], 'match')
            w = L.not_subset_witness(ascii_only)
            if w is not None:
                rep.note('%s audit: %s:%s \\d accepts a non-ASCII digit, e.g. %r' % (pid, r['module'], r['binding'], w))
    rep.extra['audited_regexes'] = n


def find_calls(node, pred):
    return [c for c in ast.walk(node) if isinstance(c, ast.Call) and pred(c)]


def call_name(c):
    return norm(c.func)


def is_self_attr(n, attr=None):
    return isinstance(n, ast.Attribute) and isinstance(n.value, ast.Name) and n.value.id == 'self' and (attr is None or n.attr == attr)


def stmts_in_order(fnode):
    """all statements of a function (nested blocks included, nested defs excluded) in source order"""
    out = [n for n in walk_no_nested(fnode) if isinstance(n, ast.stmt)]
    out.sort(key=lambda n: (n.lineno, n.col_offset))
    return out


def const_str(node):
    if isinstance(node, ast.Constant) and isinstance(node.value, (str, bytes)):
        return node.value
    return None


MUTATING_METHODS = {'append', 'extend', 'insert', 'pop', 'remove', 'clear', 'sort', 'reverse', 'update', 'add', 'discard', 'setdefault', 'popitem', '__setitem__'}


def persistent_writes(src, fn, allowed=()):
    """writes of a function to state that outlives the call: attributes/items of self, cls, a class of the module or
    a module-level name (stores, augmented stores, deletes, mutating method calls, `global`).  Private helpers are
    inlined first.  Returns [(text, lineno)]"""
    from .. import normalize
    node, _ = normalize.inline_helpers(fn)
    mod = fn.module
    module_names = set(mod.consts.get('', {})) | set(mod.const_nodes.get('', {}))
    params = {a.arg for a in node.args.args + node.args.kwonlyargs + node.args.posonlyargs} - {'self', 'cls'}
    local = set(params)
    for n in ast.walk(node):
        if isinstance(n, ast.Name) and isinstance(n.ctx, ast.Store):
            local.add(n.id)

    def root(e):
        while isinstance(e, (ast.Attribute, ast.Subscript)):
            e = e.value
        return e

    def persistent(e):
        """e (an attribute/subscript chain) lives in self / cls / a class / a module-level name"""
        r = root(e)
        if not isinstance(r, ast.Name):
            return False
        if r.id in ('self', 'cls') or r.id in mod.classes:
            return isinstance(e, (ast.Attribute, ast.Subscript))
        if r.id in module_names and r.id not in local:
            return True
        return False
    out = []
    for n in ast.walk(node):
        tgts = []
        if isinstance(n, ast.Assign):
            tgts = n.targets
        elif isinstance(n, (ast.AugAssign, ast.AnnAssign)):
            tgts = [n.target]
        elif isinstance(n, ast.Delete):
            tgts = n.targets
        elif isinstance(n, ast.Global):
            out.append(('global ' + ', '.join(n.names), n.lineno))
        for t in tgts:
            for x in ([t] if not isinstance(t, (ast.Tuple, ast.List)) else t.elts):
                if isinstance(x, (ast.Attribute, ast.Subscript)) and persistent(x):
                    out.append((norm(x), n.lineno))
        if isinstance(n, ast.Call) and isinstance(n.func, ast.Attribute) and n.func.attr in MUTATING_METHODS and persistent(n.func.value) \
                and isinstance(n.func.value, (ast.Attribute, ast.Subscript, ast.Name)):
            out.append((norm(n.func) + '(...)', n.lineno))
    return [(t, ln) for t, ln in out if not any(t.startswith(a) for a in allowed)]


def check_no_hidden_state(rep, src, rule, sites, why, allowed=None):
    """frame rule: the listed functions compute their answer from their arguments and the current object state only;
    they write nothing that outlives the call (a memo/cache would make answers depend on the history of calls
    unless every writer of the inputs invalidates it)"""
    for site in sites:
        fn = src.try_func(site)
        if fn is None:
            raise AnalysisError('anchor %s not found' % site)
        rep.saw_func(fn)
        ws = persistent_writes(src, fn, (allowed or {}).get(site, ()))
        what = 'writes nothing that outlives the call'
        # a memoising decorator is such a write (the cache belongs to the function object), and it hands the SAME result object to every
        # caller with equal arguments: a mutable result edited by one caller is what the next one gets
        memo = [d for d in fn.node.decorator_list if any(k in norm(d) for k in ('lru_cache', 'functools.cache', 'cached_property', 'memoize', 'memoise'))
                or norm(d) in ('cache',)]
        if memo:
            rep.fail(rule, fn.site, 'no memo of results', '%s is decorated with %s: every call with equal arguments returns the same result object, so a caller that edits '
                     'what it got (a list, a paragraph) changes what later calls return; %s' % (fn.qual, norm(memo[0])[:60], why), where='%s:%d' % (fn.module.relpath, fn.node.lineno))
        if ws:
            rep.fail(rule, fn.site, what, '%s stores into %s (line %d): %s' % (fn.qual, ws[0][0], ws[0][1], why), where='%s:%d' % (fn.module.relpath, ws[0][1]))
        else:
            rep.ok(rule, fn.site, what, 'no store to self/class/module state, no in-place mutation of it')
        # ... and hands out nothing that outlives it: a mutable object bound at class or module level (a shared "empty result") returned
        # to the caller is one object for all calls -- what one caller adds to its result shows up in everybody's
        shared = []
        mod = fn.module
        for r_ in ast.walk(fn.node):
            if not (isinstance(r_, ast.Return) and r_.value is not None):
                continue
            v_ = r_.value
            node = None
            if isinstance(v_, ast.Attribute) and isinstance(v_.value, ast.Name) and v_.value.id in ('cls', 'self', fn.cls or '') and fn.cls:
                node, _c = mod.class_const_node(fn.cls, v_.attr)
            elif isinstance(v_, ast.Name) and v_.id not in {a.arg for a in fn.node.args.args}:
                local = any(isinstance(n_, ast.Name) and n_.id == v_.id and isinstance(n_.ctx, ast.Store) for n_ in ast.walk(fn.node))
                node = None if local else mod.const_nodes.get('', {}).get(v_.id)
            if isinstance(node, (ast.List, ast.Dict, ast.Set, ast.ListComp, ast.DictComp, ast.SetComp)) or (
                    isinstance(node, ast.Call) and norm(node.func) in ('list', 'dict', 'set', 'collections.defaultdict', 'defaultdict', 'collections.OrderedDict', 'OrderedDict')):
                shared.append((norm(v_), r_.lineno))
        if shared:
            rep.fail(rule, fn.site, 'hands out nothing that outlives the call', '%s returns %s (line %d), a mutable object bound once at class / module level: every call that takes this '
                     'path returns the same object, so a caller that edits its result changes what later calls return' % (fn.qual, shared[0][0], shared[0][1]),
                     where='%s:%d' % (mod.relpath, shared[0][1]))
        else:
            rep.ok(rule, fn.site, 'hands out nothing that outlives the call', 'no class- or module-level mutable object is returned', nontrivial=False)


def check_memo_is_silent(rep, src, rule, modnames, why, minimum=0):
    """a function behind a memoising decorator (functools.lru_cache / cache / cached_property, a hand-written memoize) runs its body ONCE
    per distinct argument tuple: whatever the body does besides computing its result -- a warning, a log record above debug level, a
    report through a helper that warns or raises depending on a mode, a store into an object it was given -- happens on the first call
    only.  Every memoised function of the modules is examined, the functions of the module it calls included (three levels): it may
    compute and it may raise (an exception is not remembered), nothing else."""
    from ..core import norm
    EFFECT_CALLS = ('warnings.warn', 'warn', 'print', 'sys.stderr.write', 'sys.stdout.write')
    n = 0
    for modname in modnames:
        mod = src.mod(modname)

        def effects(fn, depth, seen):
            out = []
            for c in ast.walk(fn.node):
                if not isinstance(c, ast.Call):
                    continue
                nm = norm(c.func)
                if nm in EFFECT_CALLS or (isinstance(c.func, ast.Attribute) and c.func.attr in ('warning', 'warn', 'error', 'critical', 'exception', 'info') and 'log' in norm(c.func.value).lower()):
                    out.append((nm, c.lineno))
                    continue
                callee = None
                if isinstance(c.func, ast.Name):
                    callee = mod.funcs.get(c.func.id)
                elif isinstance(c.func, ast.Attribute) and isinstance(c.func.value, ast.Name):
                    for cn_ in ([fn.cls] if c.func.value.id in ('self', 'cls') and fn.cls else [c.func.value.id] if c.func.value.id in mod.classes else []):
                        callee = mod.method(cn_, c.func.attr)
                if callee is not None and callee.qual not in seen and depth < 3:
                    seen.add(callee.qual)
                    sub = effects(callee, depth + 1, seen)
                    if sub:
                        out.append(('%s, which calls %s' % (nm, sub[0][0]), c.lineno))
            return out
        for q, f in sorted(mod.funcs.items()):
            memo = [d for d in getattr(f.node, 'decorator_list', []) if any(k in norm(d) for k in ('lru_cache', 'functools.cache', 'cached_property', 'memoize', 'memoise')) or norm(d) == 'cache']
            if not memo:
                continue
            n += 1
            what = 'a memoised function does nothing but compute its result'
            eff = effects(f, 0, {f.qual})
            if eff:
                rep.fail(rule, f.site, what, '%s is decorated with %s and calls %s (line %d): the second call with equal arguments returns the remembered result without it; %s' % (
                    f.qual, norm(memo[0])[:50], eff[0][0], eff[0][1], why), where='%s:%d' % (mod.relpath, f.node.lineno))
            else:
                rep.ok(rule, f.site, what, 'no warning, log record or report inside %s or the functions it calls' % f.qual)
    if n < minimum:
        raise AnalysisError('only %d memoised functions found (%d expected)' % (n, minimum))


# ---- line primitive ------------------------------------------------------------------------------------------------------------

_NL_ONLY_PATTERNS = ('\n', '\r?\n', '(?:\r)?\n', '\r\n|\n', '\n|\r\n')


def _nl_only(pattern, flags=0):
    """does the pattern match only line ends, "\n" or "\r\n" (and "\n" at least)?  Decided on the pattern's language."""
    if pattern in _NL_ONLY_PATTERNS:
        return True
    from .. import rx
    from ..core import AnalysisError
    try:
        alpha = rx.alphabet('str')
        lang = rx.regex_lang(pattern, flags, 'fullmatch', alpha=alpha)
        ends = rx.regex_lang('\r?\n', 0, 'fullmatch', alpha=alpha)
        return lang.not_subset_witness(ends) is None and rx.regex_lang('\n', 0, 'fullmatch', alpha=alpha).not_subset_witness(lang) is None
    except AnalysisError:
        return False


def check_line_primitive(rep, src, rule, sites, why, minimum=1):
    """where a whole text (str) is cut into lines, only "\\n" (optionally preceded by "\\r") may end a line.  `str.splitlines()` also
    cuts at VT, FF, FS, GS, RS, NEL (U+0085), LS (U+2028), PS (U+2029) and at a lone CR: text that contains one of these characters
    inside a line is split there, although the same text read from a file object -- where only "\\n" ends a line -- is not.  The
    property quantifies over arbitrary text, so such a character is in the domain.  Accepted primitives: split / partition on
    "\\n", re.split on a newline pattern, iteration of io.StringIO(text).  (bytes.splitlines() cuts at LF, CR and CR LF only and
    is not judged here.)"""
    from ..core import norm, AnalysisError
    from .. import normalize
    n = 0
    for site in sites:
        f = src.func(site)
        rep.saw_func(f)
        fnode, _ = normalize.inline_helpers(f)
        found = 0
        # the function itself and the one-parameter functions of the package it hands a text to (line-splitting helpers)
        nodes = list(ast.walk(fnode))
        for c in list(nodes):
            if isinstance(c, ast.Call) and len(c.args) == 1 and not c.keywords:
                name = c.func.id if isinstance(c.func, ast.Name) else None
                for m in (src.modules.values() if name else []):
                    h = m.funcs.get(name)
                    if h is not None and len(h.params()) == 1 and h.node is not f.node:
                        nodes += [(x, h) for x in ast.walk(h.node)]
        for c in nodes:
            owner = f
            if isinstance(c, tuple):
                c, owner = c
            if not isinstance(c, ast.Call):
                continue
            fn = c.func
            what = None
            okay = None
            if isinstance(fn, ast.Attribute) and fn.attr == 'splitlines':
                recv = norm(fn.value)
                if recv.startswith("b'") or recv.startswith('b"'):
                    continue
                what, okay = norm(c)[:60], False
            elif isinstance(fn, ast.Attribute) and fn.attr in ('split', 'rsplit', 'partition', 'rpartition') and c.args and isinstance(c.args[0], ast.Constant) \
                    and c.args[0].value in ('\n', b'\n'):
                what, okay = norm(c)[:60], True
            elif norm(fn) in ('re.split',) and c.args and isinstance(c.args[0], ast.Constant) and isinstance(c.args[0].value, str) and '\n' in c.args[0].value:
                what, okay = norm(c)[:60], _nl_only(c.args[0].value)
            elif isinstance(fn, ast.Attribute) and fn.attr == 'split' and len(c.args) == 1 and not c.keywords and isinstance(fn.value, (ast.Name, ast.Attribute)):
                # <compiled pattern>.split(text): a pattern of the module / class that folds to a constant and can match a newline
                rname = fn.value.id if isinstance(fn.value, ast.Name) else fn.value.attr
                try:
                    r_ = src.regex(owner.module.name, rname)
                except AnalysisError:
                    r_ = None
                if r_ is not None and '\n' in r_['pattern'] or (r_ is not None and '\\n' in r_['pattern']):
                    what, okay = '%s.split() with %r' % (rname, r_['pattern']), _nl_only(r_['pattern'], r_['flags'])
            elif norm(fn) in ('io.StringIO', 'StringIO') and len(c.args) == 1 and not c.keywords:
                what, okay = norm(c)[:60], True
            if what is None:
                continue
            # the text that is cut is the text itself: a rewriting of it on the way (`text.replace('\r', '')`, translate, re.sub ...) changes
            # the content of lines, not only where they end.  Accepted: the line-end normalisation replace('\r\n', '\n').
            if norm(fn) in ('io.StringIO', 'StringIO'):
                subject = c.args[0]
            elif norm(fn) == 're.split':
                subject = c.args[1] if len(c.args) > 1 else None
            elif isinstance(fn, ast.Attribute) and c.args and isinstance(c.args[0], ast.Constant) and c.args[0].value in ('\n', b'\n'):
                subject = fn.value                      # <text>.split('\n')
            elif isinstance(fn, ast.Attribute) and fn.attr == 'split':
                subject = c.args[0] if c.args else None  # <compiled pattern>.split(<text>)
            else:
                subject = None
            rewritten = None
            e_ = subject
            while isinstance(e_, (ast.Call, ast.Attribute, ast.Subscript)):
                if isinstance(e_, ast.Call) and isinstance(e_.func, ast.Attribute) and e_.func.attr in ('replace', 'translate', 'expandtabs', 'lower', 'upper', 'casefold', 'swapcase', 'title'):
                    a_ = [x.value if isinstance(x, ast.Constant) else None for x in e_.args]
                    if not (e_.func.attr == 'replace' and a_[:2] in (['\r\n', '\n'], [b'\r\n', b'\n'])):
                        rewritten = norm(e_)[-50:]
                if isinstance(e_, ast.Call) and norm(e_.func) in ('re.sub', 're.subn'):
                    rewritten = norm(e_)[:50]
                e_ = e_.func if isinstance(e_, ast.Call) else e_.value
            if rewritten and okay:
                found += 1
                n += 1
                rep.fail(rule, f.site, 'line primitive `%s`' % (('str.' + fn.attr + '()') if isinstance(fn, ast.Attribute) else norm(fn)),
                         '%s: the text is rewritten before it is cut into lines (`%s`): characters inside a line are changed or removed, e.g. a carriage return in the middle '
                         'of a line' % (why, rewritten), where='%s:%d' % (owner.module.relpath, c.lineno))
                continue
            found += 1
            n += 1
            shown = what
            # (the construct is named without the receiver's spelling, so that a renamed local is the same finding)
            what = ('str.' + fn.attr + '()') if isinstance(fn, ast.Attribute) and fn.attr in ('splitlines',) else what
            via = '' if owner is f else ' (in %s, called from %s)' % (owner.qual, f.qual)
            if okay:
                rep.ok(rule, f.site, 'line primitive `%s`%s' % (what, via), 'only a newline ends a line')
            else:
                rep.fail(rule, f.site, 'line primitive `%s`%s' % (what, via), '%s: `%s` also ends a line at VT, FF, FS, GS, RS, U+0085, U+2028, U+2029 and a lone CR, e.g. the text '
                         '"a\\u2028b" is cut into two lines (a file object with the same text yields one)' % (why, shown), where='%s:%d' % (owner.module.relpath, c.lineno))
        if not found:
            raise AnalysisError('%s: no line-splitting primitive found (the anchor moved?)' % f.site)
    if n < minimum:
        raise AnalysisError('only %d line primitives examined' % n)


def is_line_split(src, e):
    """does the expression cut a text into its lines?  `<text>.splitlines(...)`, `<text>.split('\\n')`, or a call of a function of the
    package whose body does one of these to its single parameter (a line-splitting helper)"""
    from ..core import norm
    for c in ast.walk(e):
        if not isinstance(c, ast.Call):
            continue
        if isinstance(c.func, ast.Attribute) and (c.func.attr == 'splitlines' or (c.func.attr == 'split' and c.args and isinstance(c.args[0], ast.Constant)
                                                                                     and c.args[0].value in ('\n', b'\n'))):
            return True
        name = c.func.id if isinstance(c.func, ast.Name) else c.func.attr if isinstance(c.func, ast.Attribute) else None
        if name is None or len(c.args) != 1:
            continue
        for m in src.modules.values() if hasattr(src, 'modules') else []:
            fn = m.funcs.get(name)
            if fn is not None and len(fn.params()) == 1:
                p0 = fn.params()[0]
                if any(isinstance(x, ast.Call) and isinstance(x.func, ast.Attribute) and norm(x.func.value) == p0
                       and (x.func.attr == 'splitlines' or (x.func.attr == 'split' and x.args and isinstance(x.args[0], ast.Constant) and x.args[0].value in ('\n', b'\n')))
                       for x in ast.walk(fn.node)):
                    return True
    return False


def check_error_construction(rep, src, rule, modname, only=None, minimum=1):
    """the error a refusal promises is the error that is raised: in `raise E(<format> % <values>)` the number of conversions of a literal
    format equals the number of values, otherwise building the message raises TypeError and the caller sees that instead of E (a
    fallback that catches E does not take place).  Decided where the right operand is a tuple display, or a single value that cannot be
    a tuple: a constant, a call of len / int / str / repr, or a name that the function compares with a number or a length.
    `only`: function qualnames to look at (default: every function of the module)"""
    import re as _re
    from ..core import norm, AnalysisError, walk_no_nested
    mod = src.mod(modname)
    conv = _re.compile(r'%(?:\((?P<key>[^)]*)\))?[#0\- +]*(?P<w>\*|\d+)?(?:\.(?P<p>\*|\d+))?[hlL]?(?P<c>[diouxXeEfFgGcrsa%])')
    n = 0
    for q, f in sorted(mod.funcs.items()):
        if only is not None and q not in only:
            continue
        numeric = set()
        for c in ast.walk(f.node):
            if isinstance(c, ast.Compare) and len(c.ops) == 1 and isinstance(c.ops[0], (ast.Lt, ast.LtE, ast.Gt, ast.GtE)):
                for a_, b_ in ((c.left, c.comparators[0]), (c.comparators[0], c.left)):
                    if isinstance(a_, ast.Name) and ((isinstance(b_, ast.Constant) and isinstance(b_.value, (int, float)) and not isinstance(b_.value, bool))
                                                     or (isinstance(b_, ast.Call) and norm(b_.func) == 'len')):
                        numeric.add(a_.id)
        for r_ in walk_no_nested(f.node):
            if not (isinstance(r_, ast.Raise) and isinstance(r_.exc, ast.Call)):
                continue
            for a_ in r_.exc.args:
                if isinstance(a_, ast.BinOp) and isinstance(a_.op, ast.Mod) and not isinstance(a_.left, ast.Constant):
                    # the FORMAT is not a literal: when it is put together from data (str.format, an f-string, a concatenation with a
                    # value) a per cent sign in the data is read as a conversion -- TypeError / ValueError instead of the promised error
                    left_ = a_.left
                    if isinstance(left_, ast.Name):
                        binds_ = [st_ for st_ in walk_no_nested(f.node) if isinstance(st_, ast.Assign) and len(st_.targets) == 1 and norm(st_.targets[0]) == left_.id]
                        left_ = binds_[0].value if len(binds_) == 1 else left_
                    from_data = (isinstance(left_, ast.Call) and isinstance(left_.func, ast.Attribute) and left_.func.attr == 'format'
                                 and any(not isinstance(x_, ast.Constant) for x_ in list(left_.args) + [k_.value for k_ in left_.keywords])) \
                        or (isinstance(left_, ast.JoinedStr) and any(isinstance(x_, ast.FormattedValue) for x_ in left_.values)) \
                        or (isinstance(left_, ast.BinOp) and isinstance(left_.op, ast.Add) and any(not isinstance(x_, ast.Constant) for x_ in (left_.left, left_.right)))
                    if from_data:
                        n += 1
                        rep.fail(rule, f.site, 'message of `raise %s(...)`' % norm(r_.exc.func), 'the format of the message, %s, is itself built from data and then used with %%: a '
                                 'per cent sign in that data (a file pattern such as "share/%%s.mo" or "cover-100%%") is read as a conversion, building the message raises TypeError '
                                 'or ValueError, and the refusal reaches the caller as that instead of %s' % (norm(left_)[:70], norm(r_.exc.func)),
                                 where='%s:%d' % (mod.relpath, r_.lineno))
                    continue
                if not (isinstance(a_, ast.BinOp) and isinstance(a_.op, ast.Mod) and isinstance(a_.left, ast.Constant) and isinstance(a_.left.value, str)):
                    continue
                specs = [m_ for m_ in conv.finditer(a_.left.value) if m_.group('c') != '%']
                if any(m_.group('key') is not None for m_ in specs):
                    continue            # a mapping on the right
                want = len(specs) + sum(1 for m_ in specs for g_ in ('w', 'p') if m_.group(g_) == '*')
                rhs = a_.right
                if isinstance(rhs, ast.Tuple) and not any(isinstance(e_, ast.Starred) for e_ in rhs.elts):
                    have = len(rhs.elts)
                elif isinstance(rhs, ast.Constant) or (isinstance(rhs, ast.Call) and norm(rhs.func) in ('len', 'int', 'str', 'repr', 'type')) \
                        or (isinstance(rhs, ast.Name) and rhs.id in numeric) or isinstance(rhs, (ast.JoinedStr, ast.BinOp)):
                    have = 1
                else:
                    continue            # a name that may hold a tuple: not decided
                n += 1
                what = 'message of `raise %s(...)`' % norm(r_.exc.func)
                if have == want:
                    rep.ok(rule, f.site, what, '%d conversion(s), %d value(s)' % (want, have), nontrivial=False)
                else:
                    rep.fail(rule, f.site, what, 'the format %r has %d conversion(s) and is given %d value(s)%s: building the message raises TypeError, so the refusal reaches the '
                             'caller as TypeError instead of %s (and a handler for %s does not take its fallback)' % (
                                 a_.left.value[:60], want, have, ' (the second value is an argument of the exception, not of the format)' if len(r_.exc.args) > 1 else '',
                                 norm(r_.exc.func), norm(r_.exc.func)), where='%s:%d' % (mod.relpath, r_.lineno))
    if n < minimum:
        raise AnalysisError('%s: only %d error messages with a format examined' % (modname, n))
    return n


class SoftErrors:
    """reports of a language-level / shape-level reading go through this: what it *finds* (a witness) is reported as before; that it does
    not *apply* (the code left its vocabulary) is an INFO line as long as `holds()` -- the interpreted scenarios of the same clause on
    the same code all held -- and an analysis error otherwise.  A rule that is skipped this way lowers its minimum instance count."""

    def __init__(self, rep, holds, what):
        self._rep, self._holds, self._what = rep, holds, what
        self.softened = 0

    def error(self, rule, msg):
        if self._holds():
            self.softened += 1
            self._rep.info.append('%s: the language-level reading does not apply (%s); decided on %s' % (rule, msg[:220], self._what))
            self._rep.min_instances[rule] = 0
        else:
            self._rep.error(rule, msg)

    def guard(self, rule, fn, *a, **kw):
        from ..core import AnalysisError as _AE
        try:
            return fn(self, *a, **kw)
        except _AE as e:
            self.error(rule, str(e))
        return None

    def __getattr__(self, name):
        return getattr(self._rep, name)


def check_closure_factories(rep, src, rule, modnames, why, minimum=1):
    """a function that builds and returns a nested function (a stage of a pipeline made at import time, a parser bound to a type) hands out
    ONE function object for all later calls: a mutable object created in the outer function and used by the nested one (directly or through
    another nested function) is state shared by every call -- what one call leaves in it (after an exception, an abandoned iteration)
    is what the next call starts with.  Mutable = a list / dict / set display or constructor, a deque; used = read, mutated or re-bound."""
    from ..core import norm, AnalysisError, walk_no_nested
    n = 0
    for modname in modnames:
        mod = src.mod(modname)
        for q, f in sorted(mod.funcs.items()):
            if '#' in q:
                continue
            nested = [st for st in f.node.body if isinstance(st, ast.FunctionDef)]
            returned = {norm(r_.value) for r_ in walk_no_nested(f.node) if isinstance(r_, ast.Return) and r_.value is not None}
            if not nested or not any(g.name in returned for g in nested):
                continue
            n += 1
            mutable = {}
            for st in f.node.body:
                if isinstance(st, (ast.Assign, ast.AnnAssign)):
                    t_ = st.targets[0] if isinstance(st, ast.Assign) else st.target
                    v_ = st.value
                    if isinstance(t_, ast.Name) and v_ is not None and (
                            isinstance(v_, (ast.List, ast.Dict, ast.Set, ast.ListComp, ast.DictComp, ast.SetComp)) or (
                                isinstance(v_, ast.Call) and norm(v_.func) in ('list', 'dict', 'set', 'collections.deque', 'deque', 'collections.defaultdict', 'defaultdict',
                                                                              'collections.OrderedDict', 'OrderedDict', 'bytearray'))):
                        mutable[t_.id] = st.lineno
            used = None
            for g in nested:
                own = {a_.arg for a_ in g.args.args + g.args.kwonlyargs} | {x_.id for x_ in ast.walk(g) if isinstance(x_, ast.Name) and isinstance(x_.ctx, ast.Store)
                                                                            and not any(isinstance(y_, ast.Nonlocal) and x_.id in y_.names for y_ in ast.walk(g))}
                for x_ in ast.walk(g):
                    if isinstance(x_, ast.Name) and x_.id in mutable and x_.id not in own and used is None:
                        used = (x_.id, g.name, x_.lineno)
            what = 'what %s returns keeps no mutable state between calls' % f.qual
            if used:
                rep.fail(rule, f.site, what, 'the %s `%s` is created once per call of %s (line %d) and used by the nested function %s (line %d) -- the function that is handed out, or a helper of it --: every call of '
                         'the returned function works on the same object; %s' % ('container', used[0], f.qual, mutable[used[0]], used[1], used[2], why),
                         where='%s:%d' % (mod.relpath, mutable[used[0]]))
            else:
                rep.ok(rule, f.site, what, 'no container of the outer function is used by a nested one', nontrivial=False)
    if n < minimum:
        raise AnalysisError('%s: only %d functions that return a nested function found' % (', '.join(modnames), n))
    return n


def check_class_level_mutables(rep, src, rule, modname, why, minimum=0):
    """a list / dict / set bound in a class body is ONE object for the class and all its instances: a method that changes it in place
    through `self` (append, update, item assignment ...) -- while no method of the hierarchy ever binds an object of its own under that
    name -- makes what one object recorded visible to every other object.  (Tables that are only read are fine.)"""
    from ..core import norm, AnalysisError
    mod = src.mod(modname)
    n = 0
    for cname, cnode in sorted(mod.classes.items()):
        tables = {}
        for st in cnode.body:
            if isinstance(st, (ast.Assign, ast.AnnAssign)):
                t_ = st.targets[0] if isinstance(st, ast.Assign) else st.target
                v_ = st.value
                if isinstance(t_, ast.Name) and v_ is not None and (isinstance(v_, (ast.List, ast.Dict, ast.Set)) or (
                        isinstance(v_, ast.Call) and norm(v_.func) in ('list', 'dict', 'set', 'collections.deque', 'deque', 'collections.defaultdict', 'defaultdict'))):
                    tables[t_.id] = st.lineno
        if not tables:
            continue
        family = [c2 for c2 in mod.classes if cname in mod.mro(c2)]
        funcs = [f for q, f in mod.funcs.items() if q.split('.')[0] in family]
        for name, line in sorted(tables.items()):
            n += 1
            attr_names = {name, '_%s%s' % (cname.lstrip('_'), name) if name.startswith('__') and not name.endswith('__') else name}
            rebound = any(isinstance(x_, ast.Attribute) and isinstance(x_.ctx, ast.Store) and norm(x_.value) == 'self' and x_.attr in attr_names for f in funcs for x_ in ast.walk(f.node))
            hit = None
            for f in funcs:
                for x_ in ast.walk(f.node):
                    tgt = None
                    if isinstance(x_, ast.Call) and isinstance(x_.func, ast.Attribute) and x_.func.attr in MUTATING_METHODS and isinstance(x_.func.value, ast.Attribute) \
                            and norm(x_.func.value.value) in ('self', 'cls', cname) and x_.func.value.attr in attr_names:
                        tgt = x_
                    elif isinstance(x_, ast.Subscript) and isinstance(x_.ctx, (ast.Store, ast.Del)) and isinstance(x_.value, ast.Attribute) \
                            and norm(x_.value.value) in ('self', 'cls', cname) and x_.value.attr in attr_names:
                        tgt = x_
                    if tgt is not None and hit is None:
                        hit = (f, tgt.lineno, norm(tgt)[:50])
            what = 'class-level %s.%s is not changed through an instance' % (cname, name)
            if hit and not rebound:
                rep.fail(rule, '%s:%s' % (modname, cname), what, '%s.%s (line %d) is one object for the class and all its instances, and %s changes it in place (line %d: %s) while '
                         'no method binds an object of its own under that name: what one object records there is seen by every later object; %s'
                         % (cname, name, line, hit[0].qual, hit[1], hit[2], why), where='%s:%d' % (mod.relpath, hit[1]))
            else:
                rep.ok(rule, '%s:%s' % (modname, cname), what, 'only read' if not hit else 'every object binds its own', nontrivial=False)
    if n < minimum:
        raise AnalysisError('%s: only %d class-level containers found' % (modname, n))
    return n


def two_readings(rep, rule, interpreted, language_level, what_interpreted, what_language):
    """one clause, two independent readings of the same code: `interpreted(rep)` runs the code on a family of inputs, `language_level(rep)`
    decides it for every input of a grammar when the code is written in its vocabulary.  A WITNESS of either is reported.  That one of
    them does not apply (the code left its vocabulary: an analysis error) is an INFO line as long as the other one applied in full and
    held; when neither applies the clause is undecided."""
    n_v, n_e, n_i = len(rep.violations), len(rep.errors), len(rep.info)
    rep.guard(rule, interpreted)
    i_errs = rep.errors[n_e:]
    i_holds = len(rep.violations) == n_v and not i_errs
    soft = SoftErrors(rep, lambda: i_holds, what_interpreted)
    n_v2, n_e2 = len(rep.violations), len(rep.errors)
    language_level(soft)
    l_clean = len(rep.violations) == n_v2 and len(rep.errors) == n_e2 and soft.softened == 0
    if i_errs and len(rep.violations) == n_v and l_clean:
        del rep.errors[n_e:n_e + len(i_errs)]
        for e_ in i_errs:
            rep.info.append('%s: the interpreted reading does not apply (%s); decided on %s' % (rule, e_[:220], what_language))
        rep.min_instances[rule] = 0
    return i_holds


class SoftAll(SoftErrors):
    """... for a *shape-based* reading (one that recognises how today's code is written): what it reports is an INFO line as long as the
    interpreted scenarios of the same clause hold, whatever it reports"""

    def fail(self, rule, site, construct, msg, detail=None, where=None):
        if self._holds():
            self._rep.info.append('%s %s: the shape-based reading reports "%s" -- not confirmed by %s' % (rule, site, msg[:200], self._what))
            if self._rep.min_instances.get(rule):
                self._rep.min_instances[rule] -= 1          # (an instance that was looked at and is decided elsewhere)
        else:
            self._rep.fail(rule, site, construct, msg, detail, where)


_RE_FLAG_NAMES = {'A', 'ASCII', 'I', 'IGNORECASE', 'L', 'LOCALE', 'M', 'MULTILINE', 'S', 'DOTALL', 'U', 'UNICODE', 'X', 'VERBOSE', 'DEBUG', 'NOFLAG'}


def check_re_positional_flags(rep, src, rule, modname, why, minimum=0):
    """re.split(pattern, string, maxsplit=0, flags=0), re.sub(pattern, repl, string, count=0, flags=0), re.subn likewise, and the methods
    of a compiled pattern split(string, maxsplit) / sub(repl, string, count): a regex FLAG passed at the position of maxsplit / count is
    taken as a number (re.ASCII is 256, re.IGNORECASE is 2) -- the text is cut or rewritten only that many times and the flag is not
    applied.  Every such call of the module is examined; a flag belongs in `flags=` or in re.compile."""
    from ..core import norm
    mod = src.mod(modname)
    n = 0
    for q, f in sorted(mod.funcs.items()):
        for c in ast.walk(f.node):
            if not (isinstance(c, ast.Call) and isinstance(c.func, ast.Attribute) and c.func.attr in ('split', 'sub', 'subn')):
                continue
            is_module_call = norm(c.func.value) == 're'
            pos = {('split', True): 2, ('sub', True): 3, ('subn', True): 3, ('split', False): 1, ('sub', False): 2, ('subn', False): 2}[(c.func.attr, is_module_call)]
            if len(c.args) <= pos:
                continue
            a_ = c.args[pos]
            flags_ = [x_ for x_ in ast.walk(a_) if isinstance(x_, ast.Attribute) and norm(x_.value) == 're' and x_.attr in _RE_FLAG_NAMES]
            if not is_module_call and not flags_:
                continue          # (str.split(sep, maxsplit) and the like)
            n += 1
            what = '%s: no regex flag at the position of %s' % (norm(c.func), 'maxsplit' if c.func.attr == 'split' else 'count')
            if flags_:
                rep.fail(rule, f.site, what, '`%s` passes %s where %s expects %s: the flag is read as a number (re.ASCII = 256, re.IGNORECASE = 2, re.VERBOSE = 64), so the text is '
                         '%s at most that many times and the flag itself is not applied; %s' % (
                             norm(c)[:90], norm(a_), norm(c.func), 'maxsplit' if c.func.attr == 'split' else 'count', 'cut' if c.func.attr == 'split' else 'rewritten', why),
                         where='%s:%d' % (mod.relpath, c.lineno))
            else:
                rep.ok(rule, f.site, what, norm(a_)[:40], nontrivial=False)
    if n < minimum:
        from ..core import AnalysisError
        raise AnalysisError('%s: only %d re.split / re.sub calls with a third argument' % (modname, n))
    return n


def ordered_set_fields(src):
    """(table attribute, order attribute) of _util.OrderedSet as stored on an instance -- read off its constructor: the attribute that is
    set to an empty dictionary (item -> node) and the one that is set to a LinkedList (the order); their private names are the class's
    own business"""
    from ..core import norm, AnalysisError
    mod = src.mod('_util')
    init = mod.method('OrderedSet', '__init__')
    if init is None:
        raise AnalysisError('_util:OrderedSet.__init__ not found')
    table = order = None
    for st in ast.walk(init.node):
        if isinstance(st, (ast.Assign, ast.AnnAssign)):
            tgt = st.targets[0] if isinstance(st, ast.Assign) else st.target
            v = st.value
            if not (isinstance(tgt, ast.Attribute) and norm(tgt.value) == 'self' and v is not None):
                continue
            name = ('_OrderedSet' + tgt.attr) if tgt.attr.startswith('__') and not tgt.attr.endswith('__') else tgt.attr
            if (isinstance(v, ast.Dict) and not v.keys) or (isinstance(v, ast.Call) and norm(v.func) == 'dict' and not v.args):
                table = table or name
            elif isinstance(v, ast.Call) and norm(v.func) == 'LinkedList':
                order = order or name
    if table is None or order is None:
        raise AnalysisError('_util:OrderedSet.__init__: no empty dictionary next to a LinkedList (the representation of the key set changed)')
    return table, order


def list_attr_of(src, modname, cname):
    """the attribute in which an element class keeps the list it is built from (the constructor -- its own or the one it inherits --
    stores its one list parameter there): read off the code, its private name is the class's business"""
    from ..core import norm, AnalysisError
    mod = src.mod(modname)
    for c in mod.mro(cname):
        init = mod.funcs.get(c + '.__init__')
        if init is None:
            continue
        params = init.params()[1:]
        for st in ast.walk(init.node):
            if isinstance(st, (ast.Assign, ast.AnnAssign)):
                tgt = st.targets[0] if isinstance(st, ast.Assign) else st.target
                v = st.value
                if isinstance(tgt, ast.Attribute) and norm(tgt.value) == 'self' and isinstance(v, ast.Name) and v.id in params:
                    return tgt.attr
        # (a constructor that only hands its parameter to the base class: look there)
    raise AnalysisError('%s:%s: no constructor that stores its list parameter in an attribute' % (modname, cname))

"""helpers shared by the rule modules"""
import ast
import re

from .. import rx
from ..core import AnalysisError, norm, walk_no_nested


def regex_audit(rep, src, pid, modules=None):
    """thorough tier, informational: for every regex literal of the given modules report whether
    `$` lets a trailing newline through and whether \\d admits non-ASCII digits.  Never a violation."""
    n = 0
    for r in src.regexes():
        if modules and r['module'] not in modules:
            continue
        if r['pattern'] is None or isinstance(r['pattern'], bytes):
            continue
        try:
            L = rx.regex_lang(r['pattern'], r['flags'], 'match')
        except AnalysisError as e:
            rep.note('%s regex %s:%s not analysable: %s' % (pid, r['module'], r['binding'], e))
            continue
        n += 1
        alpha = L.alpha
        nl_end = rx.regex_lang(r'(?s:.*)\n', 0, 'fullmatch', alpha=alpha)
        strict = rx.regex_lang(r['pattern'].replace('$', r'\Z') if isinstance(r['pattern'], str) else r['pattern'],
                               r['flags'], 'match') if '$' in r['pattern'] else None
        if strict is not None:
            w = L.intersect(nl_end).not_subset_witness(strict)
            if w is not None:
                rep.note('%s audit: %s:%s `$` accepts a trailing newline, e.g. %r' % (pid, r['module'], r['binding'], w))
        if '\\d' in r['pattern']:
            ascii_only = rx.regex_lang(r['pattern'].replace('\\d', '[0-9]'), r['flags'], 'match')
            w = L.not_subset_witness(ascii_only)
            if w is not None:
                rep.note('%s audit: %s:%s \\d accepts a non-ASCII digit, e.g. %r' % (pid, r['module'], r['binding'], w))
    rep.extra['audited_regexes'] = n


def find_calls(node, pred):
    return [c for c in ast.walk(node) if isinstance(c, ast.Call) and pred(c)]


def call_name(c):
    return norm(c.func)


def is_self_attr(n, attr=None):
    return isinstance(n, ast.Attribute) and isinstance(n.value, ast.Name) and n.value.id == 'self' and (attr is None or n.attr == attr)


def stmts_in_order(fnode):
    """all statements of a function (nested blocks included, nested defs excluded) in source order"""
    out = [n for n in walk_no_nested(fnode) if isinstance(n, ast.stmt)]
    out.sort(key=lambda n: (n.lineno, n.col_offset))
    return out


def const_str(node):
    if isinstance(node, ast.Constant) and isinstance(node.value, (str, bytes)):
        return node.value
    return None

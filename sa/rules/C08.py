"""C08 -- an accepted field value can never inject fields or split the paragraph."""
import ast

from .. import rx, strlang, cfg, normalize
from ..core import AnalysisError, norm, walk_no_nested
from .deb822model import Model, KEY_RE

META = {
    'design_ref': 'DESIGN.md §5 C08',
    'technique': 'regular-language emptiness/inclusion: language of the values accepted by validate_input (paths of the function with helpers inlined and locals substituted; per-line loop summarised by the paths of its body; per-path number of unchecked lines) composed with the dump template extracted from _dump_format, split into reader lines (both newline conventions) and intersected with the reader regexes; CFG dominance rule on the __setitem__ resolved through the MRO: the validation (direct or through a hook method) dominates every statement that changes the object; who-may-catch rule: an assignment that runs the validator is not enclosed by a handler for ValueError; who-may-write rule for the value table of the mapping; positional/keyword agreement rule for the *args wrappers of the paragraph constructor (what is read from kwargs by name is read at its position too); hand-over of the wrapped constructor arguments interpreted under five calling conventions; the statement end to end on a family of values built from line classes: a paragraph built by the interpreted constructor, the value assigned through the interpreted __setitem__, the interpreted dump() read back by the interpreted iter_paragraphs under both settings (refused values leave the paragraph as it was; accepted ones give one paragraph with the same field names) -- the language-level rules are a second opinion behind it when the validator leaves their vocabulary',
    'level_text': 'Static decision over all strings of the property\'s domain (printable text, ":", "#", blank, tab, CR, LF '
                  'and printable non-ASCII classes): no line of a dumped accepted value other than the first is read as a '
                  'field, a paragraph end, a PGP header or a comment, and the first line is read as the same key.  Also that '
                  'the validator and the readers use the same line-splitting primitive and that validation precedes the store.',
    'level_note': 'trusted: CPython re parser / leaf sets, the automata engine, the recognised guard vocabulary of '
                  'validate_input (unknown statements are ANALYSIS-ERROR); chardet/decoding not modelled',
}


def reader_line_checks(rep, M, rule, site, label, Te, Tm, mode_name, universal, where, default_blank_exempt):
    """obligations on the reader lines of the dumped-text language Te (Tm: key-marked)"""
    alpha = M.alpha
    single, multi = M.L('_single'), M.L('_multi')
    # --- first line: read as a field line carrying the same key
    l0m = rx.strip_lang(rx.lines_of(Tm, 'first', universal), '\r\n')
    l0 = rx.erase_markers(l0m)
    fieldline = single.union(multi)
    w = l0.not_subset_witness(fieldline)
    what = '%s/%s: first line is a field line' % (label, mode_name)
    if w is not None:
        rep.fail(rule, site, what, 'dumped field whose first line %r is read as neither "key: value" nor "key:"' % w,
                 detail={'witness': w}, where=where)
    else:
        rep.ok(rule, site, what, 'FirstLine(T) ⊆ L(_single) ∪ L(_multi)')
    for name, part in (('_single', l0m.intersect(rx.lift(single, l0m.markers))),
                       ('_multi', l0m.intersect(rx.lift(single.complement().intersect(multi), l0m.markers)))):
        pe = rx.erase_markers(part)
        if pe.is_empty():
            continue
        pat, fl = M.rx[name]
        w1, w2 = rx.agreement(pat, fl, 'match', part, pe, ['key'], alpha=alpha)
        what = '%s/%s: %s captures the written key' % (label, mode_name, name)
        if w1 is not None or w2 is not None:
            rep.fail(rule, site, what, 'the reader splits the dumped first line differently from the writer: %r'
                     % (w2 if w2 is not None else w1), detail={'witness': w2 or w1}, where=where)
        else:
            rep.ok(rule, site, what, 'every parse of %s puts the key group on the written key' % name)
    for nm, bad in (('paragraph separator (no-whitespace rule)', M.L('_blank_line_no_whitespace')),
                    ('paragraph separator (whitespace rule)', M.L('_blank_line_whitespace')),
                    ('PGP armor line', M.L('_gpgre'))):
        w = l0.common_witness(bad)
        what = '%s/%s: first line is not a %s' % (label, mode_name, nm)
        if w is not None:
            rep.fail(rule, site, what, 'dumped first line %r is read as a %s' % (w, nm), detail={'witness': w}, where=where)
        else:
            rep.ok(rule, site, what, 'empty intersection')
    # --- every later line
    raw = rx.lines_of(Te, 'rest', universal)
    rest = rx.strip_lang(raw, '\r\n')
    blankD = M.pat(r'[ \t\r]*')
    checks = [('a new field (_single)', single, rest), ('a new field (_multi)', multi, rest),
              ('a paragraph separator under whitespace-separates-paragraphs=False', M.L('_blank_line_no_whitespace'), rest),
              ('a PGP armor line', M.L('_gpgre'), rest),
              ('a comment', M.comment_lang(), raw)]
    if default_blank_exempt:
        checks.append(('a paragraph separator under the default setting although it is not blank',
                       M.L('_blank_line_whitespace'), rest.minus(blankD)))
    else:
        checks.append(('a paragraph separator under the default setting', M.L('_blank_line_whitespace'), rest))
    for nm, bad, lines in checks:
        w = lines.common_witness(bad)
        what = '%s/%s: no later line is %s' % (label, mode_name, nm)
        if w is not None:
            rep.fail(rule, site, what, 'an accepted value can put the line %r into the dump, which the reader takes as %s'
                     % (w, nm), detail={'witness_line': w}, where=where)
        else:
            rep.ok(rule, site, what, 'empty intersection (line language: %d states)' % lines.nstates())
    return rest


def r1_no_injection(rep, src, M):
    substs = []
    worlds, fdump = M.dump_worlds(substitutions=substs)
    VL = M.validator_lang('\r\n')
    fval = VL['V']['func']
    alpha = M.alpha
    for term, old_, new_, preds, line_ in substs:
        # a substitution on the way out is the identity when no accepted value contains the replaced text; anything else changes the
        # written text in a way this rule does not model
        import re as _re
        if strlang.slots_of(term) != ['value'] or M.refine(VL['accepted'], preds).intersect(M.pat('(?s:.*)' + _re.escape(old_) + '(?s:.*)')).witness() is not None:
            raise AnalysisError('%s: line %d rewrites the value with replace(%r, %r): outside the template vocabulary of this rule' % (fdump.site, line_, old_, new_))
    keyl = M.pat(KEY_RE)
    n = 0
    for term, preds in worlds:
        val = M.refine(VL['accepted'], preds)
        if val.is_empty():
            continue
        n += 1
        label = strlang.show(term)

        def slot(p, val=val):
            if p == 'key':
                return keyl
            if p == 'value':
                return val
            raise AnalysisError('unexpected slot %s in the dump template' % p)
        Tm, Te = strlang.template_langs(term, alpha, slot, {'key': 'key'}, ['key'])
        w = Te.not_subset_witness(M.pat(r'(?s:.*)\n'))
        if w is not None:
            rep.fail('C08.R1', fdump.site, label + ': entry ends with a newline',
                     'the dumped entry %r does not end with a newline: the next field would continue this line' % w, where=fdump.where)
        else:
            rep.ok('C08.R1', fdump.site, label + ': entry ends with a newline', 'T ⊆ Σ*\\n')
        for mode_name, universal in (('splitlines', True), ('file-lines', False)):
            reader_line_checks(rep, M, 'C08.R1', fval.site, label, Te, Tm, mode_name, universal, fval.where, True)
    if n < 2:
        raise AnalysisError('fewer than two feasible dump forms (with and without a blank after the colon)')
    # the empty-line guard must exist as such (the isspace guard alone would raise IndexError, not ValueError)
    ok_line = VL['ok_line']
    if VL['index_error'] is not None:
        rep.fail('C08.R1', fval.site, 'empty continuation line rejected', 'an empty line inside a value reaches the guard `%s`, which '
                 'raises IndexError instead of the documented ValueError' % VL['index_error'], where=fval.where)
    elif ok_line.accepts(''):
        rep.fail('C08.R1', fval.site, 'empty continuation line rejected', 'an empty line inside a value is accepted', where=fval.where)
    else:
        rep.ok('C08.R1', fval.site, 'empty continuation line rejected', 'ε ∉ accepted continuation lines', nontrivial=False)
    return VL


def _split_calls(fnode, param):
    out = []
    for c in ast.walk(fnode):
        if isinstance(c, ast.Call) and isinstance(c.func, ast.Attribute) and norm(c.func.value) == param \
                and c.func.attr in ('splitlines', 'split', 'rsplit', 'partition'):
            out.append(c)
    return out


def r2_same_line_notion(rep, src, M):
    V = M.validator()
    f = V['func']
    if V['splitter'] == '$.splitlines()':
        rep.ok('C08.R2', f.site, 'validator line primitive', 'value.splitlines()', nontrivial=False)
    else:
        rep.fail('C08.R2', f.site, 'validator line primitive',
                 'the validator splits the value with %s while the readers split text with str.splitlines(): a character that '
                 'only one of them treats as a line boundary smuggles a line past the validator' % V['splitter'].replace('$', 'value'),
                 where=f.where)
    n = 0
    for site in ('deb822:Deb822._internal_parser', 'deb822:Deb822.iter_paragraphs'):
        g = src.func(site)
        rep.saw_func(g)
        param = g.params()[1]
        gnode, _inl = normalize.inline_helpers(g)          # private helpers that take the input over belong to the reader
        calls = _split_calls(gnode, param)
        if not calls:
            raise AnalysisError('%s: no line splitting of whole-text input found' % site)
        for c in calls:
            n += 1
            if c.func.attr == 'splitlines' and not c.args and not c.keywords:
                rep.ok('C08.R2', site, 'reader line primitive: ' + norm(c), 'splitlines()', nontrivial=False)
            else:
                rep.fail('C08.R2', site, 'reader line primitive: ' + norm(c),
                         'whole-text input is split with %s, not with the primitive the validator uses' % norm(c),
                         where='%s:%d' % (g.module.relpath, c.lineno))
    rep.analysed['call_sites'] += n


def _reaches_validate(m, call, key, value, depth=0):
    """does this call validate (key, value)?  `self.validate_input(key, value)` itself, or a method of the paragraph class (resolved
    from Deb822 through the MRO) that passes its corresponding parameters to validate_input on every path to its normal exit"""
    if not (isinstance(call.func, ast.Attribute) and norm(call.func.value) == 'self') or call.keywords or depth > 3:
        return False
    if call.func.attr == 'validate_input':
        return [norm(a) for a in call.args] == [key, value]
    fn = m.method('Deb822', call.func.attr)
    if fn is None or [norm(a) for a in call.args] != [key, value]:
        return False
    ps = fn.params()
    if len(ps) != 3:
        return False
    g = cfg.CFG(fn.node)
    inner = [c for c in ast.walk(fn.node) if isinstance(c, ast.Call) and _reaches_validate(m, c, ps[1], ps[2], depth + 1)]
    rebound = any(isinstance(n, ast.Name) and n.id in ps[1:] and isinstance(n.ctx, ast.Store) for n in walk_no_nested(fn.node))
    if not inner or rebound:
        return False
    ids = {g.node_for(c).id for c in inner}
    # no path from the entry to the normal exit avoids all validating statements
    return not g.exists_path(g.entry.id, g.exit.id, avoid=ids)


def _self_mutations(fnode):
    """statements of a method that change the object: stores / deletes through self.<attr>, mutator calls on self.<attr>, and
    delegations to a base class's __setitem__"""
    out = []
    for n in walk_no_nested(fnode):
        if isinstance(n, (ast.Assign, ast.AugAssign, ast.AnnAssign, ast.Delete)):
            tgts = n.targets if isinstance(n, (ast.Assign, ast.Delete)) else [n.target]
            for t in tgts:
                b = t
                while isinstance(b, (ast.Subscript, ast.Attribute)) and not (isinstance(b, ast.Attribute) and norm(b.value) == 'self'):
                    b = b.value
                if isinstance(b, ast.Attribute) and norm(b.value) == 'self':
                    out.append((n, 'store ' + norm(t), n.value if isinstance(n, (ast.Assign, ast.AugAssign, ast.AnnAssign)) else None))
        elif isinstance(n, ast.Call) and isinstance(n.func, ast.Attribute):
            if n.func.attr == '__setitem__' and norm(n.func.value) != 'self':
                out.append((n, 'delegation ' + norm(n.func), None))
            elif n.func.attr in ('add', 'append', 'insert', 'extend', 'update', 'setdefault', 'pop', 'remove', 'discard', 'clear') and \
                    isinstance(n.func.value, ast.Attribute) and norm(n.func.value.value) == 'self':
                out.append((n, 'call ' + norm(n.func), None))
    return out


def _anc_of(n):
    out = []
    n = getattr(n, '_parent', None)
    while n is not None:
        out.append(n)
        n = getattr(n, '_parent', None)
    return out


def r3_check_before_commit(rep, src, M):
    m0 = src.mod('deb822')
    f = m0.method('Deb822', '__setitem__')          # the method a paragraph really runs: the override, or the inherited one
    if f is None:
        raise AnalysisError('deb822:Deb822: no __setitem__ in the class or its bases')
    rep.saw_func(f)
    g = cfg.CFG(f.node)
    params = f.params()
    key, value = params[1], params[2]
    vcalls = [c for c in ast.walk(f.node) if isinstance(c, ast.Call) and _reaches_validate(m0, c, key, value)]
    muts = _self_mutations(f.node)
    if not muts:
        raise AnalysisError('%s: no delegation to the dict store and no store into the object found' % f.site)
    # a rebinding of the validated names matters only after the validation (before it, the validator sees the new binding; in the
    # validating statement itself the name receives what the validating hook returned)
    vids = {g.node_for(v).id for v in vcalls}
    rebound = [n for n in walk_no_nested(f.node) if isinstance(n, ast.Name) and n.id in (key, value) and isinstance(n.ctx, ast.Store)
               and g.node_for(n).id not in vids and any(g.exists_path(vi, g.node_for(n).id) for vi in vids)]
    first_bad = None
    for node, what, rhs in muts:
        mn = g.node_for(node)
        ok_ = False
        for v in vcalls:
            vn = g.node_for(v)
            if vn.id != mn.id and g.dominates(vn.id, mn.id):
                ok_ = True
            elif vn.id == mn.id and rhs is not None and any(x is v for x in ast.walk(rhs)):
                ok_ = True           # the right-hand side (with the check) is evaluated before the store of the same statement
        if not ok_ and first_bad is None:
            first_bad = (node, what)
    if first_bad is None and not rebound:
        rep.ok('C08.R3', f.site, 'validate before store', 'the validation of (key, value) dominates all %d statements that change the paragraph; arguments are not rebound' % len(muts))
    elif first_bad is None:
        rep.fail('C08.R3', f.site, 'validate before store', 'the validated names are rebound (line %d) before the store' % rebound[0].lineno, where=f.where)
    else:
        rep.fail('C08.R3', f.site, 'validate before store', 'line %d (%s) changes the paragraph without the value having been validated first: %s'
                 % (first_bad[0].lineno, first_bad[1], 'a rejected assignment leaves that change behind' if vcalls else 'the value is stored unvalidated'), where=f.where)
    # the validator's verdict reaches the caller: no assignment to a field of self (which runs the validator) sits in a try block whose
    # handlers catch ValueError -- a handler written for another failure of the same block would answer for the validator
    m1 = src.mod('deb822')
    n_st = 0
    for cname in m1.mro('Deb822'):
        for q, fn in sorted(m1.funcs.items()):
            if not q.startswith(cname + '.') or '.' in q[len(cname) + 1:]:
                continue
            for st in ast.walk(fn.node):
                if not (isinstance(st, ast.Assign) and any(isinstance(t_, ast.Subscript) and norm(t_.value) == 'self' for t_ in st.targets)):
                    continue
                n_st += 1
                caught = [a_ for a_ in _anc_of(st) if isinstance(a_, ast.Try) and st in list(ast.walk(ast.Module(body=a_.body, type_ignores=[])))
                          and any(h_.type is None or any(nm in norm(h_.type) for nm in ('ValueError', 'Exception')) for h_ in a_.handlers)]
                if caught:
                    h_ = [h_ for h_ in caught[0].handlers if h_.type is None or any(nm in norm(h_.type) for nm in ('ValueError', 'Exception'))][0]
                    reraises = any(isinstance(x_, ast.Raise) and x_.exc is None for x_ in h_.body)
                    if not reraises:
                        rep.fail('C08.R3', fn.site, 'rejections reach the caller as raised: `%s`' % norm(st)[:40], 'the assignment at line %d runs the validator inside a try block whose handler '
                                 '(line %d) catches ValueError for another purpose: a rejected value is answered by that handler (another message, or another exception when the handler '
                                 'itself fails) instead of the validator\'s ValueError' % (st.lineno, h_.lineno), where='%s:%d' % (fn.module.relpath, st.lineno))
                        continue
                rep.ok('C08.R3', fn.site, 'rejections reach the caller as raised: `%s`' % norm(st)[:40], 'not inside a handler for ValueError', nontrivial=False)
    if n_st < 2:
        raise AnalysisError('only %d field assignments to self found in the Deb822 hierarchy' % n_st)
    # every raise of the validator is ValueError
    fv = src.func('deb822:Deb822.validate_input')
    bad = [r for r in ast.walk(fv.node) if isinstance(r, ast.Raise) and (r.exc is None or not norm(r.exc).startswith('ValueError'))]
    if bad:
        rep.fail('C08.R3', fv.site, 'rejections are ValueError', 'validator raises %s' % norm(bad[0].exc)[:40], where=fv.where)
    else:
        rep.ok('C08.R3', fv.site, 'rejections are ValueError', '%d raise statements' % len([r for r in ast.walk(fv.node) if isinstance(r, ast.Raise)]),
               nontrivial=False)
    # overrides of validate_input delegate for ordinary keys
    m = src.mod('deb822')
    for cname, cdef in m.classes.items():
        if cname == 'Deb822' or 'Deb822' not in m.mro(cname):
            continue
        ov = m.funcs.get('%s.validate_input' % cname)
        if ov is None:
            continue
        rep.saw_func(ov)
        deleg = [c for c in ast.walk(ov.node) if isinstance(c, ast.Call) and isinstance(c.func, ast.Attribute)
                 and c.func.attr == 'validate_input' and not norm(c.func.value) == 'self']
        gg = cfg.CFG(ov.node)
        # the delegation may be skipped only under a test on membership in the structured-field table
        ok = False
        if deleg:
            dn = gg.node_for(deleg[0])
            conds = [n for n in gg.nodes if n.kind == 'test' and gg.exists_path(n.id, dn.id)]
            ok = all('_multivalued_fields' in norm(n.ast) for n in conds) and [norm(a) for a in deleg[0].args] == ov.params()[1:3]
        if ok:
            rep.ok('C08.R3', ov.site, 'override delegates', 'delegates to the base validator except for structured fields')
        else:
            rep.fail('C08.R3', ov.site, 'override delegates', 'the override does not delegate ordinary keys to Deb822.validate_input', where=ov.where)
    only_validated_stores(rep, src, 'C08.R3')


def only_validated_stores(rep, src, rule):
    """who-may-call: no store in the Deb822 hierarchy bypasses __setitem__ of Deb822 (explicit Deb822Dict.__setitem__ calls) -- also
    what the copyright classes rely on for the paragraphs they wrap (C17)"""
    m = src.mod('deb822')
    f = m.method('Deb822', '__setitem__')
    if f is None:
        raise AnalysisError('deb822:Deb822: no __setitem__ in the class or its bases')
    n = 0
    for fn in m.funcs.values():
        for c in ast.walk(fn.node):
            if isinstance(c, ast.Call) and norm(c.func) == 'Deb822Dict.__setitem__':
                n += 1
                if fn.site != f.site:
                    rep.fail(rule, fn.site, 'raw store ' + norm(c), 'stores a field value without validation' + (
                        ': a paragraph built from a mapping (Header(Deb822({...}))) can then hold a text with an empty line, which the dump writes as a paragraph separator'
                        if rule.startswith('C17') else ''), where=fn.where)
    if n == 0 and f.cls == 'Deb822':
        raise AnalysisError('positive control failed: no Deb822Dict.__setitem__ call found at all')
    rep.ok(rule, 'deb822', 'only Deb822.__setitem__ performs the raw store', '%d raw store call(s), all inside Deb822.__setitem__' % n)
    # ... and the raw store itself -- a value put into the private value table of Deb822Dict -- happens in Deb822Dict.__setitem__ only:
    # any other method that writes the table (an "optimised" setdefault / update / pop-and-reinsert) is a way in that the validator
    # of the subclass does not see.  (The table is found as the attribute Deb822Dict.__setitem__ stores its value parameter into.)
    base_set = m.funcs.get('Deb822Dict.__setitem__')
    if base_set is None:
        raise AnalysisError('deb822:Deb822Dict.__setitem__ not found')
    vparam = base_set.params()[2]
    tables = {norm(t_.value) for st in ast.walk(base_set.node) if isinstance(st, ast.Assign) and norm(st.value) == vparam
              for t_ in st.targets if isinstance(t_, ast.Subscript)}
    if len(tables) != 1:
        raise AnalysisError('%s: the value table is not one attribute (%s)' % (base_set.site, sorted(tables)))
    table = next(iter(tables))
    writers = []
    for q, fn in sorted(m.funcs.items()):
        if not q.startswith('Deb822Dict.') or '.' in q[len('Deb822Dict.'):]:
            continue
        for n_ in ast.walk(fn.node):
            wr = (isinstance(n_, ast.Subscript) and isinstance(n_.ctx, ast.Store) and norm(n_.value) == table) or \
                 (isinstance(n_, ast.Call) and isinstance(n_.func, ast.Attribute) and norm(n_.func.value) == table and n_.func.attr in ('update', 'setdefault', '__setitem__'))
            if wr:
                writers.append((fn, n_))
    # the constructor fills the table only with what it was given as already parsed (_parsed) -- it stores nothing under a key
    allowed = ('Deb822Dict.__setitem__',)
    bad_w = [(fn, n_) for fn, n_ in writers if fn.qual not in allowed]
    if not writers:
        raise AnalysisError('positive control failed: no store into %s found' % table)
    if bad_w:
        fn, n_ = bad_w[0]
        rep.fail(rule, fn.site, 'stores into the value table', '%s writes %s directly (line %d): a value set this way reaches no validator -- %s accepts "x\\nInjected: yes" and the dump '
                 'has one field more' % (fn.qual, table, n_.lineno, fn.name), where='%s:%d' % (fn.module.relpath, n_.lineno))
    else:
        rep.ok(rule, 'deb822', 'stores into the value table', '%d store(s) into %s, all in Deb822Dict.__setitem__' % (len(writers), table))


def r4_settings_by_position(rep, src):
    """the parser setting of the statement ("the setting under which whitespace-only lines do not end a paragraph") reaches every pass
    over the text however the caller hands it over.  The classes for signed documents wrap the paragraph constructor with
    `def __init__(self, *args, **kwargs)` and look at some of its arguments themselves: every argument such a wrapper reads from
    `kwargs` by name is also read at the position the wrapped constructor gives it (`args[i]`, or a test on `len(args)` that separates
    i from i + 1) -- otherwise the same call behaves differently with the argument passed by position"""
    mod = src.mod('deb822')
    base = mod.funcs.get('Deb822.__init__')
    if base is None:
        raise AnalysisError('deb822:Deb822.__init__ not found')
    names = [a.arg for a in base.node.args.args][1:]
    n = 0
    for q, f in sorted(mod.funcs.items()):
        if not q.endswith('.__init__') or f.node.args.vararg is None or f.node.args.kwarg is None or f.cls is None:
            continue
        if 'Deb822' not in mod.mro(f.cls):
            continue
        va, kw = f.node.args.vararg.arg, f.node.args.kwarg.arg
        read = {}
        for c in walk_no_nested(f.node):
            key = None
            if isinstance(c, ast.Call) and isinstance(c.func, ast.Attribute) and c.func.attr in ('get', 'pop') and norm(c.func.value) == kw and c.args and isinstance(c.args[0], ast.Constant):
                key = c.args[0].value
            elif isinstance(c, ast.Subscript) and norm(c.value) == kw and isinstance(c.slice, ast.Constant) and isinstance(c.ctx, ast.Load):
                key = c.slice.value
            if isinstance(key, str) and key in names:
                read.setdefault(key, c)
        positions = set()
        for c in walk_no_nested(f.node):
            if isinstance(c, ast.Subscript) and norm(c.value) == va and isinstance(c.slice, ast.Constant) and isinstance(c.slice.value, int):
                positions.add(c.slice.value)
            if isinstance(c, ast.Compare) and len(c.ops) == 1 and isinstance(c.left, ast.Call) and norm(c.left.func) == 'len' and [norm(a_) for a_ in c.left.args] == [va] \
                    and isinstance(c.comparators[0], ast.Constant) and isinstance(c.comparators[0].value, int):
                k_ = c.comparators[0].value
                # len(args) < k / >= k separates position k - 1 from k;  len(args) > k / <= k separates k from k + 1
                positions.add(k_ - 1 if isinstance(c.ops[0], (ast.Lt, ast.GtE)) else k_)
        for key, c in sorted(read.items()):
            i = names.index(key)
            n += 1
            what = '%s reads `%s` by name and by position' % (q, key)
            if i in positions:
                rep.ok('C08.R4', f.site, what, 'position %d is looked at as well' % i)
            else:
                rep.fail('C08.R4', f.site, what, 'the wrapper takes `%s` from %s only; passed by position (argument %d of %s) it is handed on to the paragraph constructor but not seen by '
                         'the wrapper\'s own pass over the text: %s(lines, None, None, "utf-8", {"whitespace-separates-paragraphs": False}) cuts a value with a whitespace-only '
                         'continuation line -- the rest of the value and every later field are lost -- while the same call with strict= works'
                         % (key, kw, i + 1, base.qual, f.cls), where='%s:%d' % (mod.relpath, c.lineno))
    if n < 2:
        raise AnalysisError('fewer than two arguments read by name in *args wrappers (%d)' % n)


def r4b_handover(rep, src):
    """... and what such a wrapper hands on to the wrapped constructor is what it was given: the wrapper interpreted (sa.heap) on a list of
    text lines under every way of passing the arguments (all by keyword, all by position, mixed, the lines as `sequence=`), with the
    wrapped constructor and the armor splitter as observers -- the parser setting and the field filter arrive at both unchanged"""
    from .. import heap as H
    mod = src.mod('deb822')
    base = mod.funcs.get('Deb822.__init__')
    f = mod.funcs.get('_gpg_multivalued.__init__')
    if base is None or f is None:
        raise AnalysisError('deb822: Deb822.__init__ / _gpg_multivalued.__init__ not found')
    rep.saw_func(f)
    names = [a.arg for a in base.node.args.args][1:]
    if names[:5] != ['sequence', 'fields', '_parsed', 'encoding', 'strict']:
        raise AnalysisError('deb822:Deb822.__init__ has the parameters %s' % names)
    base_calls = [c for c in ast.walk(f.node) if isinstance(c, ast.Call) and isinstance(c.func, ast.Attribute) and c.func.attr == '__init__']
    if len(base_calls) != 1:
        raise AnalysisError('%s: %d calls of a wrapped constructor' % (f.site, len(base_calls)))
    bname = norm(base_calls[0].func)
    S, F = ('the strict setting',), ('the field filter',)
    LINES = ['A: b\n']
    conventions = [
        ('lines by position, the rest by keyword', [LINES], {'fields': F, 'strict': S}),
        ('all five by position', [LINES, F, None, 'utf-8', S], {}),
        ('lines and filter by position, encoding and setting by keyword', [LINES, F], {'encoding': 'utf-8', 'strict': S}),
        ('four by position, the setting by keyword', [LINES, F, None, 'utf-8'], {'strict': S}),
        ('everything by keyword', [], {'sequence': LINES, 'fields': F, 'strict': S}),
    ]
    n = 0
    for label, args, kwargs in conventions:
        got = {}

        def base_hook(it, a, k):
            got['base'] = (list(a), dict(k))

        def split_hook(it, a, k):
            got['split'] = (list(a), dict(k))
            for x_ in a[1:2]:
                it.seq(x_)          # (the splitter reads the lines it is given: a generator runs now)
            return (it.h.new_list([]), it.h.new_list([b'A: b']), it.h.new_list([]))
        heap = H.Heap(mod, hooks={bname: base_hook, '.split_gpg_and_payload': split_hook, '._bytes': lambda it, a, k: b'A: b'})
        it = H.Interp(heap)
        me = heap.alloc('_gpg_multivalued', {})
        conv = lambda v: heap.new_list(list(v)) if isinstance(v, list) else v      # noqa: E731
        what = 'what the wrapped constructor receives: ' + label
        try:
            it.call(H.Closure(f.node, {}, me, f.cls), [conv(a) for a in args], {k: conv(v) for k, v in kwargs.items()})
        except H.Raised as x:
            rep.fail('C08.R4', f.site, what, 'raises %s (line %d)' % (x.exc, x.lineno), where=f.where)
            continue
        if 'base' not in got:
            rep.fail('C08.R4', f.site, what, 'the wrapped constructor is not called', where=f.where)
            continue
        n += 1
        a, k = got['base']
        a = a[1:]          # (self)
        eff = {p: (a[i] if i < len(a) else k.get(p)) for i, p in enumerate(names[:5])}
        twice = [p for i, p in enumerate(names[:5]) if i < len(a) and p in k]
        problems = []
        if twice:
            problems.append('`%s` is handed on by position and by keyword (TypeError in the wrapped constructor)' % twice[0])
        if eff['strict'] != S:
            problems.append('the parser setting arrives as %r: the wrapped constructor parses with the default setting, a value with a whitespace-only continuation line '
                            'that the wrapper\'s own pass accepted ends the paragraph there and the fields after it are lost' % (eff['strict'],))
        if eff['fields'] != F:
            problems.append('the field filter arrives as %r' % (eff['fields'],))
        sp = got.get('split')
        if sp is not None and S not in sp[0] and S not in sp[1].values():
            problems.append('the armor splitter is called without the parser setting')
        if problems:
            rep.fail('C08.R4', f.site, what, '; '.join(problems), where=f.where)
        else:
            rep.ok('C08.R4', f.site, what, 'setting and filter arrive unchanged (%d by position, %s by keyword)' % (len(a), sorted(k) or 'none'))
    if n < 3:
        raise AnalysisError('%s: fewer than three calling conventions interpreted' % f.site)


def r5_accept_and_reread(rep, src, tier):
    """the statement on whole values, end to end: a paragraph is built by the interpreted constructor (sa.heap, CPython's regex engine on
    decided lines), three fields are assigned through the interpreted __setitem__ -- the middle one with a value of a family built from
    line classes: a first line (empty, a word, `a: b`, blanks in front) followed by none / one / two continuation lines (indented by a
    blank or a tab, a lone full stop, whitespace only, an indented comment, an indented `Key: v`; NOT indented: a word, `Injected: yes`,
    a comment, an armor line; empty), with and without a newline at the end.  A value that ends in a newline, has an empty line or a
    continuation line that does not start with whitespace must raise ValueError and leave the paragraph as it was; for an accepted
    value the interpreted dump() is read back by the interpreted iter_paragraphs -- with whitespace-only lines not ending a paragraph,
    and with the default setting when no continuation line is blank -- and must give one paragraph with the same field names."""
    from .. import heap as H
    mod = src.mod('deb822')
    need = {n_: mod.method('Deb822', n_) for n_ in ('__init__', '__setitem__', 'dump', 'iter_paragraphs', 'validate_input')}
    for n_, f_ in need.items():
        if f_ is None:
            raise AnalysisError('deb822:Deb822.%s not found' % n_)
    fset, fval = need['__setitem__'], need['validate_input']
    rep.saw_func(fval)

    def world():
        heap = H.Heap(mod, extra_modules=[src.mod('_util')], hooks={'_strI': lambda it, a, k: H.Key(a[0].lower(), a[0]) if isinstance(a[0], str) else a[0]})
        heap.native_regex = True
        return heap, H.Interp(heap)

    def entries(heap, p):
        d_ = heap.objs[p.name].get('_Deb822Dict__dict')
        if not (isinstance(d_, H.Ref) and heap.objs[d_.name]['__class__'] == 'dict'):
            raise AnalysisError('deb822:Deb822Dict: the fields of a paragraph are not kept in self.__dict')
        return [(getattr(k_, 'spelling', k_), v_.concrete() if hasattr(v_, 'concrete') else v_) for k_, v_ in heap.objs[d_.name]['entries']]

    def names(it, p):
        fi = mod.method('Deb822Dict', '__iter__') or mod.method('Deb822', '__iter__')
        return [getattr(k_, 'spelling', k_) for k_ in it.seq(it.call(H.Closure(fi.node, {}, p, fi.cls), []))]
    FIRST = ['', 'one', 'a: b', '  lead']
    GOOD = [' two', '\tthree', ' .', '  ', ' #c', ' Key: v']
    BAD = ['three', 'Injected: yes', '#c', '-----BEGIN PGP SIGNATURE-----', '']
    conts = [[]] + [[c_] for c_ in GOOD + BAD]
    if tier == 'thorough':
        conts += [[c1, c2] for c1 in GOOD + BAD for c2 in GOOD + BAD]
    else:
        conts += [[c1, c2] for c1 in GOOD for c2 in BAD] + [[c1, c2] for c1 in BAD[:2] for c2 in GOOD[:2]] + [[c1, c2] for c1 in GOOD[:4] for c2 in GOOD[:4]]
    values = []
    for f_ in FIRST:
        for cs in conts:
            v = '\n'.join([f_] + cs)
            values.append(v)
            if len(cs) <= 1 and (tier == 'thorough' or f_ in ('', 'one')):
                values.append(v + '\n')
    bad = {'reject': None, 'unchanged': None, 'reread': None, 'other': None}
    n = n_acc = n_rej = 0
    for value in values:
        n += 1
        lines = value.split('\n')
        must_reject = value.endswith('\n') or any(l_ == '' or l_[0] not in ' \t' for l_ in lines[1:])
        heap, it = world()
        p = heap.alloc('Deb822', {})
        it.call(H.Closure(need['__init__'].node, {}, p, need['__init__'].cls), [])
        it.call(H.Closure(fset.node, {}, p, fset.cls), ['Alpha', 'x'])
        it.call(H.Closure(fset.node, {}, p, fset.cls), ['Field', 'old'])
        it.call(H.Closure(fset.node, {}, p, fset.cls), ['Omega', 'y'])
        before = entries(heap, p), names(it, p)
        try:
            it.call(H.Closure(fset.node, {}, p, fset.cls), ['Field', value])
            exc = None
        except H.Raised as x:
            exc = x.exc
        if exc is not None and not exc.endswith('ValueError'):
            bad['other'] = bad['other'] or 'p["Field"] = %r raises %s' % (value, exc)
            continue
        if exc is not None:
            n_rej += 1
            if (entries(heap, p), names(it, p)) != before:
                bad['unchanged'] = bad['unchanged'] or 'p["Field"] = %r raises ValueError and leaves the paragraph with %r (it had %r)' % (value, entries(heap, p), before[0])
            continue
        if must_reject:
            why = 'ends in a newline' if value.endswith('\n') else 'has an empty line' if '' in lines[1:] else 'has a continuation line that does not start with whitespace'
            bad['reject'] = bad['reject'] or 'p["Field"] = %r is accepted: the value %s' % (value, why)
            continue
        n_acc += 1
        try:
            text = it.call(H.Closure(need['dump'].node, {}, p, need['dump'].cls), [])
        except H.Raised as x:
            bad['other'] = bad['other'] or 'after p["Field"] = %r, dump() raises %s' % (value, x.exc)
            continue
        text = text.concrete() if hasattr(text, 'concrete') else text
        if not isinstance(text, str):
            raise AnalysisError('deb822:Deb822.dump: the interpreted dump gives %r' % (text,))
        blank_cont = any(not l_.strip() for l_ in lines[1:])
        for setting in ('whitespace-only lines do not end a paragraph', 'default'):
            if setting == 'default' and blank_cont:
                continue
            heap2, it2 = world()
            sd = None
            if setting != 'default':
                sd = heap2.new_dict()
                heap2.dict_set(sd, 'whitespace-separates-paragraphs', False)
            try:
                paras = it2.seq(it2.call(H.Closure(need['iter_paragraphs'].node, {}, ('class', 'Deb822'), need['iter_paragraphs'].cls),
                                         [heap2.new_list(text.splitlines(True))], {'use_apt_pkg': False, 'strict': sd}))
                got = [names(it2, q_) for q_ in paras]
            except H.Raised as x:
                got = 'raises %s' % x.exc
            if got != [['Alpha', 'Field', 'Omega']]:
                bad['reread'] = bad['reread'] or ('p["Field"] = %r is accepted; the dump %r read back (%s) gives %s, not one paragraph with the fields Alpha, Field, Omega' % (
                    value, text, setting, got if isinstance(got, str) else 'the paragraphs %r' % (got,)))
    # ... and on a paragraph that was made from an input without any field (an empty text, an empty list of lines, blank lines only):
    # the object is a paragraph like any other -- what is refused elsewhere is refused here
    for made_from, arg in (('the empty text', ''), ('an empty list of lines', []), ('a blank line', ['\n'])):
        for value in ('text\n', 'one\nInjected: yes', 'one\n\n two', 'fine\n indented'):
            n += 1
            lines = value.split('\n')
            must_reject = value.endswith('\n') or any(l_ == '' or l_[0] not in ' \t' for l_ in lines[1:])
            heap, it = world()
            p = heap.alloc('Deb822', {})
            try:
                it.call(H.Closure(need['__init__'].node, {}, p, need['__init__'].cls), [heap.new_list(list(arg)) if isinstance(arg, list) else arg])
                it.call(H.Closure(fset.node, {}, p, fset.cls), ['Alpha', 'x'])
                before = entries(heap, p)
                try:
                    it.call(H.Closure(fset.node, {}, p, fset.cls), ['Field', value])
                    exc = None
                except H.Raised as x:
                    exc = x.exc
            except H.Raised as x:
                bad['other'] = bad['other'] or 'a paragraph made from %s: raises %s (line %d)' % (made_from, x.exc, x.lineno)
                continue
            if must_reject and exc is None:
                bad['reject'] = bad['reject'] or 'p = Deb822(<%s>); p["Field"] = %r is accepted (the same value is refused on a paragraph made without input)' % (made_from, value)
            elif must_reject and (not exc.endswith('ValueError') or entries(heap, p) != before):
                bad['unchanged'] = bad['unchanged'] or 'p = Deb822(<%s>); p["Field"] = %r raises %s and leaves %r' % (made_from, value, exc, entries(heap, p))
            elif not must_reject and exc is not None and not exc.endswith('ValueError'):
                bad['other'] = bad['other'] or 'p = Deb822(<%s>); p["Field"] = %r raises %s' % (made_from, value, exc)
    rep.analysed['paths'] += n
    if n_acc < 20 or n_rej < 20:
        raise AnalysisError('deb822:Deb822.__setitem__: %d of %d values accepted, %d refused: the family does not exercise both sides' % (n_acc, n, n_rej))
    for key, what in (('reject', 'a value that ends in a newline, has an empty line or an unindented continuation line is refused'),
                      ('unchanged', 'a refused value leaves the paragraph as it was'),
                      ('reread', 'an accepted value, dumped and read back, gives one paragraph with the same field names'),
                      ('other', 'assignment and dump raise nothing but the ValueError of a refused value')):
        if bad[key]:
            rep.fail('C08.R5', fval.site, what + ' (interpreted values)', bad[key], where=fval.where)
        else:
            rep.ok('C08.R5', fval.site, what + ' (interpreted values)', '%d values, %d accepted, %d refused' % (n, n_acc, n_rej))


def check(src, rep, tier):
    rep.explanation = ('C08: the language of values accepted by Deb822.validate_input is built from its raise-guards; the dump '
                       'template is extracted from _dump_format (two forms); the resulting text language is split into reader '
                       'lines under both newline conventions (str.splitlines and file iteration) and normalised like '
                       'split_gpg_and_payload does; emptiness of its intersection with _single/_multi/blank-line/PGP/comment '
                       'languages and key-capture agreement of the first line are decided on automata.  Plus: same line '
                       'primitive in validator and readers, validation dominates the store, overrides delegate.')
    rep.not_decided = ['characters outside the property domain (NBSP, VT, FF, U+0085, U+2028...)', 'encoding detection (_AutoDecoder/chardet)']
    rep.need('C08.R1', 20)
    rep.need('C08.R2', 3)
    rep.need('C08.R3', 4)
    from . import common
    rep.need('C08.R5', 4)

    def language_level(soft):
        # exact for EVERY value of the domain, CR included, when the validator is written in the vocabulary of the model; where it is
        # not, the interpreted values decide
        M = soft.guard('C08.R1', lambda r_: Model(src, r_))
        if M is not None:
            soft.guard('C08.R2', r2_same_line_notion, src, M)
            soft.guard('C08.R1', r1_no_injection, src, M)
            soft.guard('C08.R3', r3_check_before_commit, src, M)
        elif soft.softened:
            for r_ in ('C08.R1', 'C08.R2', 'C08.R3'):
                rep.min_instances[r_] = 0
    common.two_readings(rep, 'C08.R5', lambda r_: r5_accept_and_reread(r_, src, tier), language_level,
                        'the interpreted values (C08.R5), which are refused or read back as one paragraph with the same fields',
                        'the language-level rules C08.R1 to R3, which apply and hold')
    rep.need('C08.R4', 5)
    n_v, n_e = len(rep.violations), len(rep.errors)
    rep.guard('C08.R4', r4b_handover, src)
    handover_holds = len(rep.violations) == n_v and len(rep.errors) == n_e
    n_r4 = sum(1 for i_ in rep.instances if i_.get('rule') == 'C08.R4')
    common.SoftAll(rep, lambda: handover_holds, 'the interpreted constructor (C08.R4), which hands the setting on under every calling convention').guard(
        'C08.R4', r4_settings_by_position, src)
    if rep.min_instances.get('C08.R4') == 0 or not handover_holds:
        rep.min_instances['C08.R4'] = min(n_r4, 5)

"""C13 -- package relationship fields: format and parse are inverse."""
import ast

from .. import rx, strlang
from ..core import AnalysisError, norm, walk_no_nested
from ..strlang import Obj, ListOf, Join, Slot, Lit, Alt, Cat

META = {
    'design_ref': 'DESIGN.md §5 C13',
    'technique': 'writer template of PkgRelation.str extracted by abstract interpretation and compared with __dep_RE by marked-language capture agreement; join/split agreement of the four separator levels decided on automata; parse_relations interpreted on symbolic strings (structural regex split, stubbed match objects) against the documented structure; frame rule (no memo in parse/format); the empty relationship list through writer and reader, both interpreted; delimiter searches on the text of one dependency against the characters its regex can match; frame rule also for mutable class-level objects handed out as results; PkgRelation.str interpreted on the documented plain pairs and on named tuples; parse_relations and str interpreted on relation fields put together from the grammar, two of them with 300 pieces; the language-level readings are a second opinion where reader or writer leave their vocabulary; restriction formulas of three and four groups',
    'level_text': 'Static decision for all relation structures of the stated domain: every string str() can emit for one dependency is '
                  'matched by __dep_RE (no warning path) and every parse puts name, arch qualifier, operator, version, architecture '
                  'list and restriction formula on exactly the written parts; the separators written between the list levels are split '
                  'by the reader\'s separator regexes and cannot occur inside an element; polarity and tuple order agree.',
    'level_note': 'trusted: CPython re parser, the automata engine, the template extractor (unknown constructs → ANALYSIS-ERROR); '
                  'slot languages are the Policy grammars quoted in the rule (oracle)',
}

M = 'deb822'
SITE = M + ':PkgRelation'
# oracle: Debian Policy 5.6.1/5.6.8/7.1, deb-src-control(5)
PKG = r'[a-z0-9][a-z0-9+.\-]+'
ARCH = r'[a-z0-9][a-z0-9\-]*'
RELOP = r'<<|<=|=|>=|>>'
VER = r'[0-9A-Za-z.+~:\-]+'
PROFILE = r'[a-z0-9][a-z0-9+.\-]*'


def extract_str_template(src, rep):
    f = src.func(SITE + '.str')
    rep.saw_func(f)
    # (pairs that are also named tuples: read by name, by position or by unpacking)
    arch = ('rec', {'enabled': ('bool',), 'arch': ('str',), '__order__': ['enabled', 'arch']})
    br = ('rec', {'enabled': ('bool',), 'profile': ('str',), '__order__': ['enabled', 'profile']})
    dep = ('rec', {'name': ('str',), 'archqual': ('opt', ('str',)), 'version': ('opt', ('tuple', [('str',), ('str',)])),
                   'arch': ('opt', ('list+', arch)), 'restrictions': ('opt', ('list+', ('list+', br)))})
    pname = f.params()[0]
    rels = ListOf(('shape', ('list+', dep), 'rels[]'), 'rels')
    rels.nonempty = True

    # loops over literal tables of (key, render function) pairs are unrolled, the functions applied in place
    from .. import normalize
    fbody = normalize.unroll_const_loops(f.node).body

    def run(dec):
        it = strlang.Interp(dec, cls='PkgRelation', depth=6, methods=strlang.class_helpers(f.module, 'PkgRelation', skip=('str', '__str__')),
                            tables=strlang.class_tables(f.module, 'PkgRelation'))
        env = {pname: rels}
        r = it.run(fbody, env)
        if r is None or r[0] != 'return':
            raise AnalysisError('%s: no return' % f.site)
        return r[1], it
    res, raised = strlang.worlds(run)
    if raised:
        raise AnalysisError('%s raises in some world: %r' % (f.site, raised[0]))
    if not res:
        raise AnalysisError('%s: no template' % f.site)
    return f, res


def split_levels(term, f):
    """top term must be Join(sep1, Join(sep2, atomic))"""
    if not (isinstance(term, Join) and isinstance(term.item, Join)):
        raise AnalysisError('%s: result is not join(join(atomic)) but %s' % (f.site, strlang.show(term)[:80]))
    return term.sep, term.item.sep, term.item.item


def lit_of(t):
    if isinstance(t, Lit):
        return t.v
    raise AnalysisError('separator is not a literal: %r' % (t,))


def r1_agreement(rep, src):
    f, res = extract_str_template(src, rep)
    r = src.regex(M, '__dep_RE', cls='PkgRelation')
    rep.saw_regex('deb822:PkgRelation.__dep_RE')
    alpha = rx.alphabet('str')

    def L(p):
        return rx.regex_lang(p, 0, 'fullmatch', alpha=alpha)
    P = 'rels[][]'
    slots = {P + '.name': L(PKG), P + '.archqual': L(ARCH), P + '.version.0': L(RELOP), P + '.version.1': L(VER),
             P + '.arch[].arch': L(ARCH), P + '.restrictions[][].profile': L(PROFILE)}
    tags = {P + '.name': 'name', P + '.archqual': 'archqual', P + '.version.0': 'relop', P + '.version.1': 'version',
            'join(%s.arch)' % P: 'archs', 'join(%s.restrictions)' % P: 'restrictions'}
    seps = set()
    atomics = []
    for dec, term, it in res:
        s1, s2, atomic = split_levels(term, f)
        seps.add((lit_of(s1), lit_of(s2)))
        atomics.append((dec, atomic))
    if len(seps) != 1:
        raise AnalysisError('%s: separators differ between worlds' % f.site)
    n = 0
    union_e = None
    for dec, atomic in atomics:
        present = []
        for key, g in (('archqual', 'archqual'), ('version', 'relop'), ('version', 'version'), ('arch', 'archs'), ('restrictions', 'restrictions')):
            if dec.get(('present', '%s.%s' % (P, key))):
                present.append(g)
        groups = ['name'] + present

        def slot(p):
            if p not in slots:
                raise AnalysisError('%s: unexpected slot %s in the template' % (f.site, p))
            return slots[p]
        tg = {k: v for k, v in tags.items() if v in groups}
        Tm, Te = strlang.template_langs(atomic, alpha, slot, tg, groups)
        w1, w2 = rx.agreement(r['pattern'], r['flags'], 'match', Tm, Te, groups, alpha=alpha)
        n += 1
        label = 'dependency with ' + ('+'.join(present) if present else 'name only')
        if w1 is not None:
            rep.fail('C13.R1', f.site, label + ': always parsed', 'str() can emit %r, which __dep_RE does not match: parse_relations warns and returns it raw'
                     % w1, detail={'witness': w1, 'template': strlang.show(atomic)}, where=f.where)
        else:
            rep.ok('C13.R1', f.site, label + ': always parsed', 'template %s ⊆ L(__dep_RE)' % strlang.show(atomic)[:90])
        if w2 is not None:
            rep.fail('C13.R1', f.site, label + ': groups capture the written parts', 'a parse of __dep_RE splits the written text differently: %r' % w2,
                     detail={'witness': w2, 'template': strlang.show(atomic)}, where=f.where)
        else:
            rep.ok('C13.R1', f.site, label + ': groups capture the written parts', 'every parse puts %s on the written slots' % '/'.join(groups))
        # optional groups that were not written must not participate
        absent = [g for g in ('archqual', 'relop', 'version', 'archs', 'restrictions') if g not in groups]
        if absent:
            allg = groups + absent
            markers = [(k, g) for g in allg for k in ('open', 'close')]
            Rm = rx.regex_lang(r['pattern'], r['flags'], 'match', allg, markers, alpha)
            only = rx.lift(Te, markers)
            bad = None
            for g in absent:
                wbad = Rm.intersect(only).intersect(rx.has_group(alpha, markers, g)).witness()
                if wbad is not None:
                    bad = (g, wbad)
                    break
            what = label + ': unwritten parts stay None'
            if bad:
                rep.fail('C13.R1', f.site, what, 'the reader finds a %s in a dependency written without one: %r' % bad, where=f.where)
            else:
                rep.ok('C13.R1', f.site, what, 'groups %s cannot participate' % ', '.join(absent))
        union_e = Te if union_e is None else union_e.union(Te)
    rep.analysed['paths'] += n
    if n < 16:
        raise AnalysisError('%s: only %d optional-part combinations analysed (16 expected)' % (f.site, n))
    return f, seps.pop(), union_e, res


def r2_separators(rep, src, f, seps, atomic_lang, res):
    alpha = rx.alphabet('str')
    sep1, sep2 = seps
    m = src.mod(M)
    fp = src.func(SITE + '.parse_relations')
    rep.saw_func(fp)
    levels = [('conjunction', sep1, '__comma_sep_RE', atomic_lang), ('alternatives', sep2, '__pipe_sep_RE', atomic_lang)]
    for name, lit, rxname, elems in levels:
        r = src.regex(M, rxname, cls='PkgRelation')
        rep.saw_regex('deb822:PkgRelation.' + rxname)
        full = rx.regex_lang(r['pattern'], r['flags'], 'fullmatch', alpha=alpha)
        if full.accepts(lit):
            rep.ok('C13.R2', f.site, '%s separator %r is split by %s' % (name, lit, rxname), 'literal ∈ L_full(%s)' % r['pattern'])
        else:
            rep.fail('C13.R2', f.site, '%s separator %r is split by %s' % (name, lit, rxname),
                     'str() joins the %s with %r, which the reader\'s %s = %r does not match as one separator' % (name, lit, rxname, r['pattern']), where=f.where)
        srch = rx.regex_lang(r['pattern'], r['flags'], 'search', alpha=alpha)
        w = elems.common_witness(srch)
        what = 'no %s separator inside a dependency' % name
        if w is not None:
            rep.fail('C13.R2', f.site, what, 'a single formatted dependency %r contains a match of %s: the reader splits it apart' % (w, rxname),
                     detail={'witness': w}, where=f.where)
        else:
            rep.ok('C13.R2', f.site, what, 'L(atomic) ∩ L_search(%s) = ∅' % rxname)
    # (the nesting of the two splits -- commas first, pipes second -- is decided by C13.R3, which interprets the reader on "D1, D2 | D3")
    # arch list and restriction formula: separators written vs split regexes
    blank = src.regex(M, '__blank_sep_RE', cls='PkgRelation')
    rsep = src.regex(M, '__restriction_sep_RE', cls='PkgRelation')
    rre = src.regex(M, '__restriction_RE', cls='PkgRelation')
    for nm in ('__blank_sep_RE', '__restriction_sep_RE', '__restriction_RE'):
        rep.saw_regex('deb822:PkgRelation.' + nm)
    # find the join separators inside the template (any world with both parts present)
    arch_sep = restr_in_sep = restr_out_sep = None
    P = 'rels[][]'
    for dec, term, it in res:
        if dec.get(('present', P + '.arch')) and dec.get(('present', P + '.restrictions')):
            _s1, _s2, atomic = split_levels(term, f)
            for j in _joins(atomic):
                if j.src == P + '.arch':
                    arch_sep = lit_of(j.sep)
                elif j.src == P + '.restrictions':
                    restr_out_sep = lit_of(j.sep)
                    for jj in _joins(j.item):
                        restr_in_sep = lit_of(jj.sep)
                    item = j.item
            break
    if None in (arch_sep, restr_in_sep, restr_out_sep):
        raise AnalysisError('%s: separators of the architecture list / restriction formula not found in the template' % f.site)
    bl = rx.regex_lang(blank['pattern'], blank['flags'], 'fullmatch', alpha=alpha)
    for what, lit in (('architecture list', arch_sep), ('restriction terms', restr_in_sep)):
        if bl.accepts(lit):
            rep.ok('C13.R2', f.site, '%s separator %r is split by __blank_sep_RE' % (what, lit), 'ok')
        else:
            rep.fail('C13.R2', f.site, '%s separator %r is split by __blank_sep_RE' % (what, lit), 'the reader splits the %s with %r' % (what, blank['pattern']), where=f.where)
    # between two restriction groups the text is  '>' + outer sep + '<'
    glue = '>' + restr_out_sep + '<'
    if rx.regex_lang(rsep['pattern'], rsep['flags'], 'fullmatch', alpha=alpha).accepts(glue):
        rep.ok('C13.R2', f.site, 'restriction groups %r are split by __restriction_sep_RE' % glue, 'ok')
    else:
        rep.fail('C13.R2', f.site, 'restriction groups %r are split by __restriction_sep_RE' % glue,
                 'consecutive restriction groups are written as %r, which %r does not split' % (glue, rsep['pattern']), where=f.where)
    # one restriction term vs __restriction_RE
    tmpl = r'(?P<enabled>!)?(?P<profile>%s)' % PROFILE
    for present, t in ((['enabled', 'profile'], r'(?P<enabled>!)(?P<profile>%s)' % PROFILE), (['profile'], r'(?P<profile>%s)' % PROFILE)):
        w1, w2 = rx.capture_agreement(rre['pattern'], rre['flags'], 'match', t, 0, present, alpha=alpha)
        what = 'restriction term %s' % ('with !' if 'enabled' in present else 'plain')
        if w1 or w2:
            rep.fail('C13.R2', fp.site, what, '__restriction_RE does not read back the written term: %r' % (w2 or w1), where=fp.where)
        else:
            rep.ok('C13.R2', fp.site, what, 'enabled/profile captured')
    _ = tmpl
    # bracket stripping: strip('<> ') removes exactly the outer brackets written by '<%s>'
    cls_funcs = [g_.node for q_, g_ in fp.module.funcs.items() if q_.split('.')[0] == (fp.cls or '')] or [fp.node]
    strips = [c for fnode_ in cls_funcs for c in ast.walk(fnode_) if isinstance(c, ast.Call) and isinstance(c.func, ast.Attribute) and c.func.attr == 'strip'
              and c.args and isinstance(c.args[0], ast.Constant) and isinstance(c.args[0].value, str) and '<' in c.args[0].value]
    if strips and set(strips[0].args[0].value) <= set('<> ') and {'<', '>'} <= set(strips[0].args[0].value):
        rep.ok('C13.R2', fp.site, 'outer brackets of the formula are stripped', repr(strips[0].args[0].value), nontrivial=False)
    elif strips:
        rep.fail('C13.R2', fp.site, 'outer brackets of the formula are stripped', 'the reader strips %r from the restriction formula: more (or less) than the outer < > and blanks '
                 'that the writer puts around it' % (strips[0].args[0].value,), where=fp.where)
    else:
        # (the brackets are removed some other way: what the reader makes of one and of several groups is decided on the interpreted fields, C13.R8)
        rep.info.append('C13.R2 %s: no strip() of the outer < > found; decided by the interpreted restriction formulas of C13.R8' % fp.site)


def _joins(t):
    out = []
    if isinstance(t, Join):
        out.append(t)
        out += _joins(t.item)
    elif isinstance(t, (Cat, Alt)):
        for x in t.items:
            out += _joins(x)
    elif isinstance(t, strlang.Star):
        out += _joins(t.item)
    return out


def _regex_named(src, groups):
    """the name under which deb822 binds the compiled pattern that has these named groups (the pattern of one dependency, of one
    restriction term): wherever it is kept -- in the class or in the module -- and whatever it is called"""
    found = [r_ for r_ in src.regexes() if r_['module'] == 'deb822' and r_['binding'] and isinstance(r_.get('pattern'), str)
             and all('(?P<%s>' % g_ in r_['pattern'] for g_ in groups)]
    if len(found) != 1:
        raise AnalysisError('deb822: %d compiled patterns with the groups %s' % (len(found), ', '.join(groups)))
    return found[0]['binding'].split('.')[-1]


def r3_mapping(rep, src, rep_raise=None):
    """parse_relations interpreted on symbolic strings.  The text of one field is  D1 ", " D2 " | " D3  (pieces free of
    separators); __dep_RE.match is replaced by a stub whose groupdict() holds one symbolic atom per group (what the groups
    capture is decided by R1/R2), the other regexes are applied structurally (split) or per scenario (restriction term).
    The resulting structure must be the documented one: name / archqual from their groups, version = (operator, version),
    architectures and build profiles with the polarity of their "!" prefix, in reading order."""
    from .. import heap as H, symstr
    from ..symstr import SStr
    from . import common
    common.check_no_hidden_state(rep, src, 'C13.R3', [SITE + '.parse_relations', SITE + '.str'],
                                 'a parse result handed out from (or shared with) a memo is the same object for equal texts: when a caller edits one '
                                 'result in place, a later format→parse of an equal relation returns a different structure')
    fp = src.func(SITE + '.parse_relations')
    rep.saw_func(fp)
    mod = src.mod('deb822')
    word = r'[a-z0-9][a-z0-9+.-]*'
    D = [symstr.atom('dep%d' % i, r'[^\s,|]+') for i in (1, 2, 3)]
    A1, A2 = symstr.atom('arch1', word), symstr.atom('arch2', word)
    P1, P2, P3 = (symstr.atom('profile%d' % i, word) for i in (1, 2, 3))
    NAME, QUAL, OP, VER = (symstr.atom(n, r'[^\s]+') for n in ('name', 'archqual', 'relop', 'version'))
    archs_text = A1 + ' ' + SStr(['!']) + A2
    restr_text = SStr(['<']) + P1 + ' !' + P2 + '> <!' + P3 + '>'
    scen = {D[0].key(): {'name': NAME, 'archqual': QUAL, 'relop': OP, 'version': VER, 'archs': archs_text, 'restrictions': restr_text},
            D[1].key(): {'name': NAME, 'archqual': None, 'relop': None, 'version': None, 'archs': None, 'restrictions': None},
            D[2].key(): None}
    warned = []

    def dep_match(it, args, kw):
        s_ = symstr.lift(args[0])
        lowered = False
        if s_.key() not in scen and len(s_.parts) == 1 and isinstance(s_.parts[0], symstr.Fn) and s_.parts[0].name in ('lower', 'upper', 'casefold') \
                and s_.parts[0].arg.key() in scen:
            # the dependency text was case-folded before matching: every group is the folded spelling of what was written
            lowered = s_.parts[0].name
            s_ = s_.parts[0].arg
        if s_.key() not in scen:
            raise AnalysisError('parse_relations applies __dep_RE to %r, not to a single dependency' % (s_,))
        g = scen[s_.key()]
        if g is None:
            return None
        d = it.h.new_dict()
        for k, v in g.items():
            if lowered and v is not None:
                v = getattr(symstr.lift(v), lowered)() if hasattr(symstr.lift(v), lowered) else symstr.SStr([symstr.Fn(lowered, symstr.lift(v), None, ())])
            it.h.objs[d.name]['entries'].append((k, v))
        return it.h.alloc('Match', {'groups': d})

    def restriction_match(it, args, kw):
        s_ = symstr.lift(args[0])
        for p_, neg in ((P1, False), (P2, True), (P3, True)):
            if s_.same((SStr(['!']) + p_) if neg else p_):
                d = it.h.new_dict()
                it.h.objs[d.name]['entries'] += [('enabled', '!' if neg else None), ('profile', p_)]
                return it.h.alloc('Match', {'groups': d})
        raise AnalysisError('__restriction_RE is applied to %r, which is not a single restriction term of the scenario' % (s_,))
    dep_name, restr_name = _regex_named(src, ('name', 'archqual')), _regex_named(src, ('enabled', 'profile'))
    heap = H.Heap(mod, hooks={'regex:%s.match' % dep_name: dep_match, 'regex:%s.match' % restr_name: restriction_match,
                              '.groupdict': lambda it, args, kw: it.h.objs[args[0].name]['groups'],
                              # Match.group(name): the group; group(n1, n2, ...): the tuple of them
                              '.group': lambda it, args, kw: it.h.dict_get(it.h.objs[args[0].name]['groups'], args[1]) if len(args) == 2
                              else tuple(it.h.dict_get(it.h.objs[args[0].name]['groups'], a_) for a_ in args[1:]),
                              'warnings.warn': lambda it, args, kw: warned.append(args[0])})
    heap.symbolic_strings = True
    it = H.Interp(heap)
    raw = D[0] + ', ' + D[1] + ' | ' + D[2]
    try:
        res = it.call(H.Closure(fp.node, {}, None, fp.cls), [('class', 'PkgRelation'), raw])
    except H.Raised as x:
        # (the scenario stands on stand-ins for the two patterns as they are used today: when the reader cuts a formula some other way
        # it ends in an exception of the stand-ins, not of the reader -- decided on the interpreted fields then)
        (rep_raise or rep).fail('C13.R3', fp.site, 'parse_relations on "D1, D2 | D3"', 'raises %s (line %d)' % (x.exc, x.lineno), where=fp.where)
        return

    def plain(v):
        """heap value -> python structure with symbolic strings as their repr"""
        if isinstance(v, H.Ref):
            o = heap.objs[v.name]
            if o['__class__'] == 'dict':
                return {plain(k): plain(x) for k, x in o['entries']}
            if o['__class__'] == 'list':
                return [plain(x) for x in o['items']]
            return v.name
        if isinstance(v, (list,)):
            return [plain(x) for x in v]
        if isinstance(v, tuple) and v and v[0] == 'record':
            return (v[1],) + tuple(plain(x) for x in v[3])
        if isinstance(v, tuple):
            return tuple(plain(x) for x in v)
        if isinstance(v, SStr):
            c = v.concrete()
            return c if c is not None else repr(v)
        return v
    got = plain(res)
    r = repr
    full = {'name': r(NAME), 'archqual': r(QUAL), 'version': (r(OP), r(VER)),
            'arch': [('ArchRestriction', True, r(A1)), ('ArchRestriction', False, r(A2))],
            'restrictions': [[('BuildRestriction', True, r(P1)), ('BuildRestriction', False, r(P2))], [('BuildRestriction', False, r(P3))]]}
    bare = {'name': r(NAME), 'archqual': None, 'version': None, 'arch': None, 'restrictions': None}
    rawd = {'name': r(D[2]), 'archqual': None, 'version': None, 'arch': None, 'restrictions': None}
    want = [[full], [bare, rawd]]
    checks = [('AND/OR structure: "," separates alternatives groups, "|" alternatives', lambda g: isinstance(g, list) and [len(x) for x in g] == [1, 2]),
              ('name / archqual from their groups', lambda g: (g[0][0]['name'], g[0][0]['archqual'], g[1][0]['name'], g[1][0]['archqual']) == (r(NAME), r(QUAL), r(NAME), None)),
              ('version = (operator, version)', lambda g: g[0][0]['version'] == full['version'] and g[1][0]['version'] is None),
              ('architectures: "!" prefix ⟺ disabled, per item, in order', lambda g: g[0][0]['arch'] == full['arch'] and g[1][0]['arch'] is None),
              ('build profiles: groups and terms in reading order with their polarity', lambda g: g[0][0]['restrictions'] == full['restrictions'] and g[1][0]['restrictions'] is None),
              ('an unparsable alternative is returned raw with a warning', lambda g: g[1][1] == rawd and len(warned) == 1)]
    for what, pred in checks:
        try:
            ok = pred(got)
        except (KeyError, IndexError, TypeError):
            ok = False
        if ok:
            rep.ok('C13.R3', fp.site, what, 'as specified')
        else:
            rep.fail('C13.R3', fp.site, what, 'parse_relations("D1, D2 | D3") builds %s; specified: %s' % (str(got)[:300], str(want)[:300]), where=fp.where)
    # the empty conjunction (what `relations` gives for an absent field): str([]) and parse_relations of that text, both interpreted
    fs = src.func(SITE + '.str')
    warned2 = []
    heap2 = H.Heap(mod, hooks={'regex:%s.match' % dep_name: lambda it_, a, k: None, 'warnings.warn': lambda it_, a, k: warned2.append(a[0])})
    heap2.symbolic_strings = True
    heap2.native_regex = True
    it2 = H.Interp(heap2)
    what = 'the empty relationship list round-trips'
    try:
        text = it2.call(H.Closure(fs.node, {}, None, fs.cls), [heap2.new_list([])])
        text = text.concrete() if isinstance(text, SStr) else text
        back = it2.call(H.Closure(fp.node, {}, None, fp.cls), [('class', 'PkgRelation'), text])
        items = it2.seq(back)
        if text == '' and not items and not warned2:
            rep.ok('C13.R3', fp.site, what, "str([]) = '' and parse_relations('') = [] without a warning")
        else:
            rep.fail('C13.R3', fp.site, what, 'str([]) gives %r, which parse_relations reads as %d group(s)%s instead of the empty list: the relations of an absent field do not '
                     'survive format → parse' % (text, len(items), ' with the warning %r' % (str(warned2[0])[:60],) if warned2 else ''), where=fp.where)
    except H.Raised as x:
        rep.fail('C13.R3', fp.site, what, 'raises %s (line %d)' % (x.exc, x.lineno), where=fp.where)
    # the writer side of the polarity: decided by the template rules R1/R2 (the "!" literal is part of the extracted template)


def r7_documented_encoding(rep, src):
    """the structure is documented with `arch` as a list of pairs <enabled, arch> and `restrictions` as lists of tuples
    <enabled, profile> ("available as named tuples"): PkgRelation.str interpreted (sa.heap) on a relation whose pairs are plain
    tuples and on the same relation with named tuples -- both give the same text, neither raises"""
    from .. import heap as H
    mod = src.mod('deb822')
    fs = src.func(SITE + '.str')
    rep.saw_func(fs)
    texts = {}
    for label in ('plain tuples', 'named tuples'):
        heap = H.Heap(mod)
        it = H.Interp(heap)

        def pair(names, vals):
            return tuple(vals) if label == 'plain tuples' else ('record', names[0], tuple(names[1:]), tuple(vals))
        dep = heap.new_dict()
        for k_, v_ in (('name', 'pkg'), ('archqual', None), ('version', ('>=', '1.0')),
                       ('arch', heap.new_list([pair(('ArchRestriction', 'enabled', 'arch'), (True, 'amd64')), pair(('ArchRestriction', 'enabled', 'arch'), (False, 'i386'))])),
                       ('restrictions', heap.new_list([heap.new_list([pair(('BuildRestriction', 'enabled', 'profile'), (True, 'stage1')),
                                                                     pair(('BuildRestriction', 'enabled', 'profile'), (False, 'nocheck'))])]))):
            heap.dict_set(dep, k_, v_)
        rels = heap.new_list([heap.new_list([dep])])
        try:
            r = it.call(H.Closure(fs.node, {}, None, fs.cls), [rels])
            texts[label] = r.concrete() if hasattr(r, 'concrete') else r
        except H.Raised as x:
            texts[label] = ('raises', x.exc, x.lineno)
    what = 'the writer reads the pairs of arch / restrictions as pairs'
    want = 'pkg (>= 1.0) [amd64 !i386] <stage1 !nocheck>'
    if texts['plain tuples'] == texts['named tuples'] == want:
        rep.ok('C13.R7', fs.site, what, 'plain tuples and named tuples give %r' % want)
    elif isinstance(texts['plain tuples'], tuple):
        rep.fail('C13.R7', fs.site, what, 'a relation whose architecture list / restriction formula holds plain pairs (True, "amd64") -- the documented encoding, equal to what the parser '
                 'returns -- makes str() raise %s (line %d): the pairs are read through attribute names that only the parser\'s named tuples have'
                 % (texts['plain tuples'][1], texts['plain tuples'][2]), where='%s:%d' % (mod.relpath, texts['plain tuples'][2] or fs.node.lineno))
    else:
        rep.fail('C13.R7', fs.site, what, 'str() gives %r for plain pairs and %r for named tuples; expected %r' % (texts['plain tuples'], texts['named tuples'], want), where=fs.where)


def r8_inverse_by_interpretation(rep, src, tier):
    """parse_relations and str interpreted (sa.heap, CPython's regex engine on decided texts) on a family of relation fields put together
    from the grammar -- names x version constraints x architecture qualifiers x architecture lists x restriction formulas, as
    alternatives and conjunctions, with the spacing variants the reader allows, and LONG fields (300 conjunctions, 300 alternatives: a
    bound on the number of pieces is a defect that short fields do not show) -- against the structure the field was put together from:
    parse gives that structure without a warning, str of it gives the canonical text, and parse of that text gives it again."""
    import itertools
    from .. import heap as H
    mod = src.mod('deb822')
    fp = src.func(SITE + '.parse_relations')
    fs = src.func(SITE + '.str')
    rep.saw_func(fp)
    NAMES = ['a', 'lib-x2.0+y', 'p.q']
    VERS = [None, ('>=', '1.0'), ('<<', '2:1.0-1~b+c'), ('=', '0')]
    QUALS = [None, 'any', 'native']
    ARCHS = [None, [(True, 'amd64')], [(False, 'i386'), (False, 'hurd-any')], [(True, 'linux-any'), (True, 'amd64')]]
    RESTR = [None, [[(True, 'stage1')]], [[(False, 'nocheck'), (True, 'cross')]], [[(True, 'a')], [(False, 'b'), (False, 'c')]]]

    def text_of(d):
        t = d['name'] + ((':' + d['archqual']) if d['archqual'] else '')
        if d['version']:
            t += ' (%s %s)' % d['version']
        if d['arch']:
            t += ' [%s]' % ' '.join(('' if e_ else '!') + a_ for e_, a_ in d['arch'])
        if d['restrictions']:
            t += ' ' + ' '.join('<%s>' % ' '.join(('' if e_ else '!') + p_ for e_, p_ in g_) for g_ in d['restrictions'])
        return t

    def dep(name, ver=None, qual=None, arch=None, restr=None):
        return {'name': name, 'archqual': qual, 'version': ver, 'arch': arch, 'restrictions': restr}
    atoms = [dep(n_, v_, q_, a_, r_) for n_, (v_, q_, a_, r_) in zip(itertools.cycle(NAMES), itertools.product(VERS, QUALS, ARCHS, RESTR))]
    if tier != 'thorough':
        atoms = atoms[::7] + [dep('a', ('>=', '1.0'), 'any', ARCHS[2], RESTR[3])]
    # (formulas of three and four groups, with one and with several terms: what stands in the middle is neither the first nor the last)
    atoms += [dep('gcc', None, None, None, [[(True, 'a')], [(True, 'b')], [(True, 'c')]]),
              dep('gcc', ('>=', '12'), 'native', [(True, 'amd64')], [[(True, 'a'), (False, 'x')], [(False, 'b')], [(True, 'c'), (True, 'y')], [(False, 'd')]])]
    fields = [[[a_]] for a_ in atoms]
    fields += [[[atoms[0], atoms[1]]], [[atoms[2]], [atoms[3], atoms[4]], [atoms[5]]]]
    fields.append([[dep('p%d' % i)] for i in range(300)])
    fields.append([[dep('q%d' % i) for i in range(300)]])
    spaced = [('a,b', [[dep('a')], [dep('b')]]), ('a ,  b|c', [[dep('a')], [dep('b'), dep('c')]]), ('a (>=1.0)', [[dep('a', ('>=', '1.0'))]]),
              ('a\n , b', [[dep('a')], [dep('b')]]), (' a (>= 1.0) ,\tb ', [[dep('a', ('>=', '1.0'))], [dep('b')]])]

    def run_parse(text):
        warned = []
        heap = H.Heap(mod, hooks={'warnings.warn': lambda it, a, k: warned.append(a[0]), 'logger.warning': lambda it, a, k: warned.append(a[0])})
        heap.native_regex = True
        it = H.Interp(heap)
        decos = [norm(d_) for d_ in fp.node.decorator_list]
        args = [('class', 'PkgRelation'), text] if 'classmethod' in decos and fp.params() and fp.params()[0] in ('cls', 'klass') else [text]
        try:
            r = it.call(H.Closure(fp.node, {}, None, fp.cls), args)
        except H.Raised as x:
            return 'raises %s (line %d)' % (x.exc, x.lineno), warned, heap, None

        def plain(v):
            if heap.is_list(v):
                return [plain(x) for x in heap.items(v)]
            if isinstance(v, H.Ref) and heap.objs[v.name]['__class__'] == 'dict':
                return {k_: plain(x) for k_, x in heap.objs[v.name]['entries']}
            if isinstance(v, tuple) and len(v) == 4 and v[0] == 'record':
                return tuple(plain(x) for x in v[3])
            if isinstance(v, (list, tuple)):
                return type(v)(plain(x) for x in v)
            return v
        return plain(r), warned, heap, (it, r)

    def norm_struct(st_):
        return [[{k_: (tuple(v_) if k_ == 'version' and v_ is not None else [tuple(x_) for x_ in v_] if k_ == 'arch' and v_ is not None else
                       [[tuple(x_) for x_ in g_] for g_ in v_] if k_ == 'restrictions' and v_ is not None else v_) for k_, v_ in d_.items()} for d_ in alt_] for alt_ in st_]
    bad = {'parse': None, 'str': None, 'again': None}
    n = 0
    for want in fields:
        text = ', '.join(' | '.join(text_of(d_) for d_ in alt_) for alt_ in want)
        got, warned, heap, live = run_parse(text)
        n += 1
        short = text if len(text) < 90 else text[:60] + ' ... (%d characters)' % len(text)
        if isinstance(got, str) or warned or norm_struct(got) != norm_struct(want):
            why = got if isinstance(got, str) else ('warns %r' % warned[0]) if warned else None
            if why is None:
                g_, w_ = norm_struct(got), norm_struct(want)
                k_ = next((i for i in range(min(len(g_), len(w_))) if g_[i] != w_[i]), min(len(g_), len(w_)))
                why = 'gives %d item(s) where %d were written%s' % (len(g_), len(w_), '' if k_ >= len(g_) else '; item %d is %r' % (k_ + 1, g_[k_]))
            bad['parse'] = bad['parse'] or 'parse_relations(%r) %s' % (short, why)
            continue
        it, r = live
        try:
            out = it.call(H.Closure(fs.node, {}, None, fs.cls), [r])
            out = out.concrete() if hasattr(out, 'concrete') else out
        except H.Raised as x:
            out = ('raises', x.exc, x.lineno)
        if out != text:
            bad['str'] = bad['str'] or 'str() of the parsed %r gives %s' % (short, ('%r' % (out if not isinstance(out, str) or len(out) < 90 else out[:60] + ' ...',)))
    for text, want in spaced:
        got, warned, heap, live = run_parse(text)
        n += 1
        if isinstance(got, str) or warned or norm_struct(got) != norm_struct(want):
            bad['again'] = bad['again'] or 'parse_relations(%r) %s; the field reads as %r' % (text, got if isinstance(got, str) else ('warns %r' % warned[0]) if warned else 'gives %r' % (got,), want)
    rep.analysed['paths'] += n
    for key, what in (('parse', 'parse gives the structure that was written'), ('str', 'str gives the canonical text back'), ('again', 'spacing variants read as the same structure')):
        if bad[key]:
            rep.fail('C13.R8', fp.site if key != 'str' else fs.site, what + ' (interpreted fields)', bad[key], where=(fp if key != 'str' else fs).where)
        else:
            rep.ok('C13.R8', fp.site if key != 'str' else fs.site, what + ' (interpreted fields)', '%d fields, two of them with 300 pieces' % n)


def r6_delimiter_searches(rep, src):
    """where the reader cuts the text of one dependency at the first occurrence of a character (find / index / partition / split with
    a constant) and matches a regex against the part in front of the cut, that character must not be one the regex can match: else
    the cut falls inside the part the regex is meant to read ("pkg (<< 1.0) <profile>" cut at the first '<' ends in the middle of
    the version constraint).  Decided on the set of characters that can occur inside a match of the regex."""
    from .. import symstr
    f = src.func(SITE + '.parse_relations')
    rep.saw_func(f)
    mod = src.mod('deb822')
    n = 0
    for fn in [f.node] + [x for x in ast.walk(f.node) if isinstance(x, ast.FunctionDef) and x is not f.node]:
        if fn is f.node:
            continue
        params = [a.arg for a in fn.args.args]
        if len(params) != 1:
            continue
        raw = params[0]
        cuts = []
        for c in ast.walk(fn):
            if isinstance(c, ast.Call) and isinstance(c.func, ast.Attribute) and c.func.attr in ('find', 'index', 'partition', 'split') and c.args \
                    and isinstance(c.args[0], ast.Constant) and isinstance(c.args[0].value, str) and len(c.args[0].value) == 1 \
                    and any(isinstance(x, ast.Name) and x.id == raw for x in ast.walk(c.func.value)):
                cuts.append(c)
        matches = [c for c in ast.walk(fn) if isinstance(c, ast.Call) and isinstance(c.func, ast.Attribute) and c.func.attr in ('match', 'fullmatch', 'search')
                   and isinstance(c.func.value, ast.Attribute) and c.func.value.attr.endswith('_RE')]
        for cut in cuts:
            ch = cut.args[0].value
            for m_ in matches:
                try:
                    r = src.regex('deb822', m_.func.value.attr.lstrip('_'), cls='PkgRelation')
                except AnalysisError:
                    try:
                        r = src.regex('deb822', m_.func.value.attr, cls='PkgRelation')
                    except AnalysisError:
                        continue
                n += 1
                a = symstr.alpha()
                mask = symstr.regex_chars(r['pattern'], r['flags'])
                what = '`%s` in %s against %s' % (norm(cut)[:40], fn.name, m_.func.value.attr)
                if ch in a.idx and mask >> a.idx[ch] & 1:
                    import re as _re
                    al_ = rx.alphabet('str')
                    wit = rx.regex_lang(r['pattern'], r['flags'], 'fullmatch', alpha=al_).intersect(
                        rx.regex_lang('(?s:.*%s.*)' % _re.escape(ch), 0, 'fullmatch', alpha=al_)).witness()
                    rep.fail('C13.R6', f.site, what, 'the dependency text is cut at the first %r, but %r can occur inside what %s matches (it matches %r): a dependency with that '
                             'part and more text after it is cut inside the part, the front does not match and the relation is returned raw with a warning'
                             % (ch, ch, m_.func.value.attr, wit), where='%s:%d' % (mod.relpath, cut.lineno))
                else:
                    rep.ok('C13.R6', f.site, what, '%r cannot occur inside a match' % ch)
    if n == 0:
        rep.ok('C13.R6', f.site, 'delimiter searches on the text of one dependency', 'none: the dependency is read by its regex alone', nontrivial=False)


def check(src, rep, tier):
    rep.explanation = ('C13: the template of PkgRelation.str is extracted for the 16 combinations of optional parts (closures pp_arch, '
                       'pp_restrictions, pp_atomic_dep inlined; per-item "!" polarity as alternation).  For each combination: the template '
                       'language ⊆ L_match(__dep_RE) (no warning path); marked-language inclusion shows every parse puts the six groups on the '
                       'written slots; groups of unwritten parts cannot participate.  Separators: the literals written between conjunctions, '
                       'alternatives, architectures, restriction terms and restriction groups are fully matched by the corresponding split regex '
                       'and cannot occur inside an element.  AST rules: tuple order, conditional construction, polarity.')
    rep.not_decided = ['nothing of substance for the stated domain; Policy validity of names is the oracle, not checked by the library']
    rep.need('C13.R1', 40)
    rep.need('C13.R2', 10)
    rep.need('C13.R3', 5)
    from . import common
    rep.need('C13.R8', 3)
    n_v, n_e = len(rep.violations), len(rep.errors)
    rep.guard('C13.R8', r8_inverse_by_interpretation, src, tier)
    fields_hold = len(rep.violations) == n_v and len(rep.errors) == n_e
    # (the language-level readings: exact for every name, version and profile the grammar allows, when reader and writer are in their vocabulary)
    soft = common.SoftErrors(rep, lambda: fields_hold, 'the interpreted relation fields (C13.R8), which hold')
    out = soft.guard('C13.R1', r1_agreement, src)
    if out is not None:
        soft.guard('C13.R2', r2_separators, src, *out)
    elif fields_hold:
        rep.min_instances['C13.R2'] = 0
    # (the symbolic reading of the mapping -- for EVERY name, qualifier, operator, version, architecture and profile -- rests on stand-ins
    # for the two patterns as they are used today; the interpreted fields decide when the reader cuts a formula some other way)
    n_r3 = sum(1 for i_ in rep.instances if i_.get('rule') == 'C13.R3')
    soft3 = common.SoftAll(rep, lambda: fields_hold, 'the interpreted relation fields (C13.R8), which are read as written')
    rep.guard('C13.R3', r3_mapping, src, soft3)
    rep.guard('C13.R6', r6_delimiter_searches, src)
    rep.guard('C13.R7', r7_documented_encoding, src)
    from . import common as _common_flags
    rep.guard('C13.R2', _common_flags.check_re_positional_flags, src, 'C13.R2', 'deb822', 'a relation field with more pieces than that comes back truncated (the rest as one raw name)')

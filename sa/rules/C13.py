"""C13 -- package relationship fields: format and parse are inverse."""
import ast

from .. import rx, strlang
from ..core import AnalysisError, norm, walk_no_nested
from ..strlang import Obj, ListOf, Join, Slot, Lit, Alt, Cat

META = {
    'design_ref': 'DESIGN.md §3 C13',
    'technique': 'writer template of PkgRelation.str extracted by abstract interpretation (closures inlined, optional parts as worlds, '
                 'per-item polarity as alternation) and compared with __dep_RE by marked-language capture agreement; join/split '
                 'agreement of the four separator levels decided on automata; AST mapping rules for parse_rel / parse_archs',
    'level_text': 'Static decision for all relation structures of the stated domain: every string str() can emit for one dependency is '
                  'matched by __dep_RE (no warning path) and every parse puts name, arch qualifier, operator, version, architecture '
                  'list and restriction formula on exactly the written parts; the separators written between the list levels are split '
                  'by the reader\'s separator regexes and cannot occur inside an element; polarity and tuple order agree.',
    'level_note': 'trusted: CPython re parser, the automata engine, the template extractor (unknown constructs → ANALYSIS-ERROR); '
                  'slot languages are the Policy grammars quoted in the rule (oracle)',
}

M = 'deb822'
SITE = M + ':PkgRelation'
# oracle: Debian Policy 5.6.1/5.6.8/7.1, deb-src-control(5)
PKG = r'[a-z0-9][a-z0-9+.\-]+'
ARCH = r'[a-z0-9][a-z0-9\-]*'
RELOP = r'<<|<=|=|>=|>>'
VER = r'[0-9A-Za-z.+~:\-]+'
PROFILE = r'[a-z0-9][a-z0-9+.\-]*'


def extract_str_template(src, rep):
    f = src.func(SITE + '.str')
    rep.saw_func(f)
    arch = ('rec', {'enabled': ('bool',), 'arch': ('str',)})
    br = ('rec', {'enabled': ('bool',), 'profile': ('str',)})
    dep = ('rec', {'name': ('str',), 'archqual': ('opt', ('str',)), 'version': ('opt', ('tuple', [('str',), ('str',)])),
                   'arch': ('opt', ('list+', arch)), 'restrictions': ('opt', ('list+', ('list+', br)))})
    pname = f.params()[0]
    rels = ListOf(('shape', ('list+', dep), 'rels[]'), 'rels')
    rels.nonempty = True

    def run(dec):
        it = strlang.Interp(dec, cls='PkgRelation', depth=6)
        env = {pname: rels}
        r = it.run(f.node.body, env)
        if r is None or r[0] != 'return':
            raise AnalysisError('%s: no return' % f.site)
        return r[1], it
    res, raised = strlang.worlds(run)
    if raised:
        raise AnalysisError('%s raises in some world: %r' % (f.site, raised[0]))
    if not res:
        raise AnalysisError('%s: no template' % f.site)
    return f, res


def split_levels(term, f):
    """top term must be Join(sep1, Join(sep2, atomic))"""
    if not (isinstance(term, Join) and isinstance(term.item, Join)):
        raise AnalysisError('%s: result is not join(join(atomic)) but %s' % (f.site, strlang.show(term)[:80]))
    return term.sep, term.item.sep, term.item.item


def lit_of(t):
    if isinstance(t, Lit):
        return t.v
    raise AnalysisError('separator is not a literal: %r' % (t,))


def r1_agreement(rep, src):
    f, res = extract_str_template(src, rep)
    r = src.regex(M, '__dep_RE', cls='PkgRelation')
    rep.saw_regex('deb822:PkgRelation.__dep_RE')
    alpha = rx.alphabet('str')

    def L(p):
        return rx.regex_lang(p, 0, 'fullmatch', alpha=alpha)
    P = 'rels[][]'
    slots = {P + '.name': L(PKG), P + '.archqual': L(ARCH), P + '.version.0': L(RELOP), P + '.version.1': L(VER),
             P + '.arch[].arch': L(ARCH), P + '.restrictions[][].profile': L(PROFILE)}
    tags = {P + '.name': 'name', P + '.archqual': 'archqual', P + '.version.0': 'relop', P + '.version.1': 'version',
            'join(%s.arch)' % P: 'archs', 'join(%s.restrictions)' % P: 'restrictions'}
    seps = set()
    atomics = []
    for dec, term, it in res:
        s1, s2, atomic = split_levels(term, f)
        seps.add((lit_of(s1), lit_of(s2)))
        atomics.append((dec, atomic))
    if len(seps) != 1:
        raise AnalysisError('%s: separators differ between worlds' % f.site)
    n = 0
    union_e = None
    for dec, atomic in atomics:
        present = []
        for key, g in (('archqual', 'archqual'), ('version', 'relop'), ('version', 'version'), ('arch', 'archs'), ('restrictions', 'restrictions')):
            if dec.get(('present', '%s.%s' % (P, key))):
                present.append(g)
        groups = ['name'] + present

        def slot(p):
            if p not in slots:
                raise AnalysisError('%s: unexpected slot %s in the template' % (f.site, p))
            return slots[p]
        tg = {k: v for k, v in tags.items() if v in groups}
        Tm, Te = strlang.template_langs(atomic, alpha, slot, tg, groups)
        w1, w2 = rx.agreement(r['pattern'], r['flags'], 'match', Tm, Te, groups, alpha=alpha)
        n += 1
        label = 'dependency with ' + ('+'.join(present) if present else 'name only')
        if w1 is not None:
            rep.fail('C13.R1', f.site, label + ': always parsed', 'str() can emit %r, which __dep_RE does not match: parse_relations warns and returns it raw'
                     % w1, detail={'witness': w1, 'template': strlang.show(atomic)}, where=f.where)
        else:
            rep.ok('C13.R1', f.site, label + ': always parsed', 'template %s ⊆ L(__dep_RE)' % strlang.show(atomic)[:90])
        if w2 is not None:
            rep.fail('C13.R1', f.site, label + ': groups capture the written parts', 'a parse of __dep_RE splits the written text differently: %r' % w2,
                     detail={'witness': w2, 'template': strlang.show(atomic)}, where=f.where)
        else:
            rep.ok('C13.R1', f.site, label + ': groups capture the written parts', 'every parse puts %s on the written slots' % '/'.join(groups))
        # optional groups that were not written must not participate
        absent = [g for g in ('archqual', 'relop', 'version', 'archs', 'restrictions') if g not in groups]
        if absent:
            allg = groups + absent
            markers = [(k, g) for g in allg for k in ('open', 'close')]
            Rm = rx.regex_lang(r['pattern'], r['flags'], 'match', allg, markers, alpha)
            only = rx.lift(Te, markers)
            bad = None
            for g in absent:
                wbad = Rm.intersect(only).intersect(rx.has_group(alpha, markers, g)).witness()
                if wbad is not None:
                    bad = (g, wbad)
                    break
            what = label + ': unwritten parts stay None'
            if bad:
                rep.fail('C13.R1', f.site, what, 'the reader finds a %s in a dependency written without one: %r' % bad, where=f.where)
            else:
                rep.ok('C13.R1', f.site, what, 'groups %s cannot participate' % ', '.join(absent))
        union_e = Te if union_e is None else union_e.union(Te)
    rep.analysed['paths'] += n
    if n < 16:
        raise AnalysisError('%s: only %d optional-part combinations analysed (16 expected)' % (f.site, n))
    return f, seps.pop(), union_e, res


def r2_separators(rep, src, f, seps, atomic_lang, res):
    alpha = rx.alphabet('str')
    sep1, sep2 = seps
    m = src.mod(M)
    fp = src.func(SITE + '.parse_relations')
    rep.saw_func(fp)
    levels = [('conjunction', sep1, '__comma_sep_RE', atomic_lang), ('alternatives', sep2, '__pipe_sep_RE', atomic_lang)]
    for name, lit, rxname, elems in levels:
        r = src.regex(M, rxname, cls='PkgRelation')
        rep.saw_regex('deb822:PkgRelation.' + rxname)
        full = rx.regex_lang(r['pattern'], r['flags'], 'fullmatch', alpha=alpha)
        if full.accepts(lit):
            rep.ok('C13.R2', f.site, '%s separator %r is split by %s' % (name, lit, rxname), 'literal ∈ L_full(%s)' % r['pattern'])
        else:
            rep.fail('C13.R2', f.site, '%s separator %r is split by %s' % (name, lit, rxname),
                     'str() joins the %s with %r, which the reader\'s %s = %r does not match as one separator' % (name, lit, rxname, r['pattern']), where=f.where)
        srch = rx.regex_lang(r['pattern'], r['flags'], 'search', alpha=alpha)
        w = elems.common_witness(srch)
        what = 'no %s separator inside a dependency' % name
        if w is not None:
            rep.fail('C13.R2', f.site, what, 'a single formatted dependency %r contains a match of %s: the reader splits it apart' % (w, rxname),
                     detail={'witness': w}, where=f.where)
        else:
            rep.ok('C13.R2', f.site, what, 'L(atomic) ∩ L_search(%s) = ∅' % rxname)
    # the reader applies the regexes in this nesting
    txt = norm(fp.node)
    if 'cls.__comma_sep_RE.split(raw.strip())' in txt and 'map(cls.__pipe_sep_RE.split' in txt:
        rep.ok('C13.R2', fp.site, 'split nesting', 'comma level, then pipe level', nontrivial=False)
    else:
        rep.fail('C13.R2', fp.site, 'split nesting', 'the reader does not split on commas first and on pipes second', where=fp.where)
    # arch list and restriction formula: separators written vs split regexes
    blank = src.regex(M, '__blank_sep_RE', cls='PkgRelation')
    rsep = src.regex(M, '__restriction_sep_RE', cls='PkgRelation')
    rre = src.regex(M, '__restriction_RE', cls='PkgRelation')
    for nm in ('__blank_sep_RE', '__restriction_sep_RE', '__restriction_RE'):
        rep.saw_regex('deb822:PkgRelation.' + nm)
    # find the join separators inside the template (any world with both parts present)
    arch_sep = restr_in_sep = restr_out_sep = None
    P = 'rels[][]'
    for dec, term, it in res:
        if dec.get(('present', P + '.arch')) and dec.get(('present', P + '.restrictions')):
            _s1, _s2, atomic = split_levels(term, f)
            for j in _joins(atomic):
                if j.src == P + '.arch':
                    arch_sep = lit_of(j.sep)
                elif j.src == P + '.restrictions':
                    restr_out_sep = lit_of(j.sep)
                    for jj in _joins(j.item):
                        restr_in_sep = lit_of(jj.sep)
                    item = j.item
            break
    if None in (arch_sep, restr_in_sep, restr_out_sep):
        raise AnalysisError('%s: separators of the architecture list / restriction formula not found in the template' % f.site)
    bl = rx.regex_lang(blank['pattern'], blank['flags'], 'fullmatch', alpha=alpha)
    for what, lit in (('architecture list', arch_sep), ('restriction terms', restr_in_sep)):
        if bl.accepts(lit):
            rep.ok('C13.R2', f.site, '%s separator %r is split by __blank_sep_RE' % (what, lit), 'ok')
        else:
            rep.fail('C13.R2', f.site, '%s separator %r is split by __blank_sep_RE' % (what, lit), 'the reader splits the %s with %r' % (what, blank['pattern']), where=f.where)
    # between two restriction groups the text is  '>' + outer sep + '<'
    glue = '>' + restr_out_sep + '<'
    if rx.regex_lang(rsep['pattern'], rsep['flags'], 'fullmatch', alpha=alpha).accepts(glue):
        rep.ok('C13.R2', f.site, 'restriction groups %r are split by __restriction_sep_RE' % glue, 'ok')
    else:
        rep.fail('C13.R2', f.site, 'restriction groups %r are split by __restriction_sep_RE' % glue,
                 'consecutive restriction groups are written as %r, which %r does not split' % (glue, rsep['pattern']), where=f.where)
    # one restriction term vs __restriction_RE
    tmpl = r'(?P<enabled>!)?(?P<profile>%s)' % PROFILE
    for present, t in ((['enabled', 'profile'], r'(?P<enabled>!)(?P<profile>%s)' % PROFILE), (['profile'], r'(?P<profile>%s)' % PROFILE)):
        w1, w2 = rx.capture_agreement(rre['pattern'], rre['flags'], 'match', t, 0, present, alpha=alpha)
        what = 'restriction term %s' % ('with !' if 'enabled' in present else 'plain')
        if w1 or w2:
            rep.fail('C13.R2', fp.site, what, '__restriction_RE does not read back the written term: %r' % (w2 or w1), where=fp.where)
        else:
            rep.ok('C13.R2', fp.site, what, 'enabled/profile captured')
    _ = tmpl
    # bracket stripping: strip('<> ') removes exactly the outer brackets written by '<%s>'
    strips = [c for c in ast.walk(fp.node) if isinstance(c, ast.Call) and isinstance(c.func, ast.Attribute) and c.func.attr == 'strip'
              and c.args and isinstance(c.args[0], ast.Constant) and '<' in c.args[0].value]
    if strips and set(strips[0].args[0].value) <= set('<> ') and {'<', '>'} <= set(strips[0].args[0].value):
        rep.ok('C13.R2', fp.site, 'outer brackets of the formula are stripped', repr(strips[0].args[0].value), nontrivial=False)
    else:
        rep.fail('C13.R2', fp.site, 'outer brackets of the formula are stripped', 'the reader does not strip the outer < > of the restriction formula', where=fp.where)


def _joins(t):
    out = []
    if isinstance(t, Join):
        out.append(t)
        out += _joins(t.item)
    elif isinstance(t, (Cat, Alt)):
        for x in t.items:
            out += _joins(x)
    elif isinstance(t, strlang.Star):
        out += _joins(t.item)
    return out


def r3_mapping(rep, src):
    fp = src.func(SITE + '.parse_relations')
    inner = {n.name: n for n in fp.node.body if isinstance(n, ast.FunctionDef)}
    for nm in ('parse_archs', 'parse_restrictions', 'parse_rel'):
        if nm not in inner:
            raise AnalysisError('%s: helper %s not found' % (fp.site, nm))
    pr = inner['parse_rel']
    d = [n for n in ast.walk(pr) if isinstance(n, ast.Dict)]
    d = [x for x in d if any(norm(v) == "parts['name']" for v in x.values)] or d
    first = d[0] if d else None
    want = {'name': "parts['name']", 'archqual': "parts['archqual']"}
    got = {ast.literal_eval(k): norm(v) for k, v in zip(first.keys, first.values)} if first else {}
    if all(got.get(k) == v for k, v in want.items()) and set(got) >= {'name', 'archqual', 'version', 'arch', 'restrictions'}:
        rep.ok('C13.R3', fp.site + '.parse_rel', 'name / archqual from their groups', 'ok', nontrivial=False)
    else:
        rep.fail('C13.R3', fp.site + '.parse_rel', 'name / archqual from their groups', 'the parsed structure does not take name/archqual from the groups of the same name',
                 where=fp.where)
    vers = [s for s in ast.walk(pr) if isinstance(s, ast.Assign) and norm(s.targets[0]) == "d['version']"]
    if len(vers) == 1 and isinstance(vers[0].value, ast.Tuple) and [norm(e) for e in vers[0].value.elts] == ["parts['relop']", "parts['version']"]:
        rep.ok('C13.R3', fp.site + '.parse_rel', 'version = (operator, version)', 'same order as written by " (%s %s)" % v')
    else:
        rep.fail('C13.R3', fp.site + '.parse_rel', 'version = (operator, version)', 'the version constraint is not rebuilt as (relop, version) from the two groups',
                 where='%s:%d' % (fp.module.relpath, pr.lineno))
    for key, grp, helper in (('arch', 'archs', 'parse_archs'), ('restrictions', 'restrictions', 'parse_restrictions')):
        asg = [s for s in ast.walk(pr) if isinstance(s, ast.Assign) and norm(s.targets[0]) == "d['%s']" % key]
        ok = len(asg) == 1 and norm(asg[0].value).replace('\n', '').replace(' ', '') == "%s(parts['%s'])" % (helper, grp) \
            and isinstance(asg[0]._parent, ast.If) and norm(asg[0]._parent.test) == "parts['%s']" % grp
        if ok:
            rep.ok('C13.R3', fp.site + '.parse_rel', '%s parsed only when written' % key, "if parts['%s']: %s(...)" % (grp, helper), nontrivial=False)
        else:
            rep.fail('C13.R3', fp.site + '.parse_rel', '%s parsed only when written' % key, 'the %s list is not built from group %s exactly when it participated' % (key, grp),
                     where='%s:%d' % (fp.module.relpath, pr.lineno))
    # polarity agreement for architectures: writer '' if enabled else '!' ; reader not (first char == '!'), name without it
    pa = inner['parse_archs']
    t = norm(pa)
    reader_ok = "disabled = arch[0] == '!'" in t and 'arch = arch[1:]' in t and 'cls.ArchRestriction(not disabled, arch)' in t \
        and 'cls.__blank_sep_RE.split(raw.strip())' in t
    f = src.func(SITE + '.str')
    wt = norm(f.node)
    writer_ok = "'' if arch_spec.enabled else '!'" in wt and "'' if term.enabled else '!'" in wt
    if reader_ok and writer_ok:
        rep.ok('C13.R3', fp.site + '.parse_archs', 'polarity of architectures and profiles', "'!' prefix ⟺ not enabled on both sides; per-item")
    else:
        rep.fail('C13.R3', fp.site + '.parse_archs', 'polarity of architectures and profiles',
                 'the "!" prefix is not written for exactly the disabled items and read back per item (reader ok: %s, writer ok: %s)' % (reader_ok, writer_ok),
                 where='%s:%d' % (fp.module.relpath, pa.lineno))
    prs = inner['parse_restrictions']
    t = norm(prs)
    if "parts['enabled'] != '!'" in t and "parts['profile']" in t and 'restrictions.append(group)' in t and 'group.append(' in t:
        rep.ok('C13.R3', fp.site + '.parse_restrictions', 'restriction terms rebuilt in order', 'BuildRestriction(enabled != "!", profile) appended per term/group', nontrivial=False)
    else:
        rep.fail('C13.R3', fp.site + '.parse_restrictions', 'restriction terms rebuilt in order', 'terms/groups are not appended in reading order with the polarity from the "!" group',
                 where='%s:%d' % (fp.module.relpath, prs.lineno))


def check(src, rep, tier):
    rep.explanation = ('C13: the template of PkgRelation.str is extracted for the 16 combinations of optional parts (closures pp_arch, '
                       'pp_restrictions, pp_atomic_dep inlined; per-item "!" polarity as alternation).  For each combination: the template '
                       'language ⊆ L_match(__dep_RE) (no warning path); marked-language inclusion shows every parse puts the six groups on the '
                       'written slots; groups of unwritten parts cannot participate.  Separators: the literals written between conjunctions, '
                       'alternatives, architectures, restriction terms and restriction groups are fully matched by the corresponding split regex '
                       'and cannot occur inside an element.  AST rules: tuple order, conditional construction, polarity.')
    rep.not_decided = ['nothing of substance for the stated domain; Policy validity of names is the oracle, not checked by the library']
    rep.need('C13.R1', 40)
    rep.need('C13.R2', 10)
    rep.need('C13.R3', 5)
    out = rep.guard('C13.R1', r1_agreement, src)
    if out is not None:
        rep.guard('C13.R2', r2_separators, src, *out)
    rep.guard('C13.R3', r3_mapping, src)

"""E0 -- source model, constant folding, regex registry, verdict protocol.

Everything here works on the *text* of /repo's working tree (ast only).  Nothing
under /repo is imported or executed.
"""
import ast
import glob
import hashlib
import json
import os
import re
import sys
import time
import traceback

REPO = os.environ.get('SA_REPO', '/repo')
PKG = os.path.join(REPO, 'lib', 'debian')
VERIF = os.path.dirname(os.path.dirname(os.path.abspath(__file__)))
EVIDENCE_DIR = os.environ.get('SA_EVIDENCE') or os.path.join(VERIF, 'evidence')
KNOWN_FINDINGS = os.path.join(VERIF, 'known_findings.txt')

RE_FLAGS = {'IGNORECASE': re.I, 'I': re.I, 'VERBOSE': re.X, 'X': re.X, 'MULTILINE': re.M,
            'M': re.M, 'DOTALL': re.S, 'S': re.S, 'ASCII': re.A, 'A': re.A, 'UNICODE': re.U, 'U': re.U}


class AnalysisError(Exception):
    """The analyser cannot apply a rule (anchor vanished, construct outside the subset...)."""


class Unfoldable(Exception):
    pass


def norm(node):
    """normalised text of an ast node (position independent)"""
    if node is None:
        return ''
    if isinstance(node, str):
        return node
    return ast.unparse(node)


def flat(node):
    """normalised text with indentation removed (one statement per line)"""
    return '\n'.join(l.strip() for l in norm(node).splitlines())


def set_parents(tree):
    for p in ast.walk(tree):
        for ch in ast.iter_child_nodes(p):
            ch._parent = p
    tree._parent = None


def clone(node):
    """deep copy of a syntax tree that does not follow the _parent back-links"""
    if isinstance(node, list):
        return [clone(x) for x in node]
    if not isinstance(node, ast.AST):
        return node
    new = type(node)()
    for f in node._fields:
        if hasattr(node, f):
            setattr(new, f, clone(getattr(node, f)))
    for a in ('lineno', 'col_offset', 'end_lineno', 'end_col_offset'):
        if hasattr(node, a):
            setattr(new, a, getattr(node, a))
    return new


def mangle(cls, attr):
    """Python private-name mangling"""
    if cls and attr.startswith('__') and not attr.endswith('__'):
        return '_%s%s' % (cls.lstrip('_'), attr)
    return attr


def _expand_factory(factory, call, name):
    """factory: def F(p1, ..): [doc]; def inner(...): ...; [inner.attr = ...]; return inner.  Returns a copy of inner
    named `name` in which p1.. are replaced by the arguments of `call` (plain names, attributes and constants only), or None."""
    body = [s_ for s_ in factory.body if not (isinstance(s_, ast.Expr) and isinstance(s_.value, ast.Constant))]
    if len(body) < 2 or not isinstance(body[0], ast.FunctionDef) or not isinstance(body[-1], ast.Return) \
            or not isinstance(body[-1].value, ast.Name) or body[-1].value.id != body[0].name:
        return None
    inner = body[0]
    for s_ in body[1:-1]:
        # only decorations of the product (inner.__name__ = ..., inner.__doc__ = ...)
        if not (isinstance(s_, ast.Assign) and len(s_.targets) == 1 and isinstance(s_.targets[0], ast.Attribute)
                and isinstance(s_.targets[0].value, ast.Name) and s_.targets[0].value.id == inner.name):
            return None
    a = factory.args
    if a.vararg or a.kwarg or a.kwonlyargs or call.keywords or len(call.args) != len(a.args) or a.defaults:
        return None
    if not all(isinstance(x, (ast.Name, ast.Attribute, ast.Constant)) for x in call.args):
        return None
    env = {p.arg: x for p, x in zip(a.args, call.args)}
    bound = {p.arg for p in inner.args.args} | {t.id for n in ast.walk(inner) for t in ([n] if isinstance(n, ast.Name) and isinstance(n.ctx, ast.Store) else [])}
    if bound & set(env):
        return None

    class Sub(ast.NodeTransformer):
        def visit_Name(self, n):
            if isinstance(n.ctx, ast.Load) and n.id in env:
                return ast.copy_location(clone(env[n.id]), n)
            return n
    made = Sub().visit(clone(inner))
    made.name = name
    ast.fix_missing_locations(made)
    return made


class Func:
    """a function or method definition"""

    def __init__(self, module, node, qual, cls):
        self.module = module
        self.node = node
        self.qual = qual        # 'Class.method', 'function', 'function.inner'
        self.cls = cls          # enclosing class name or None
        self.name = node.name

    @property
    def site(self):
        return '%s:%s' % (self.module.name, self.qual)

    @property
    def where(self):
        return '%s:%d' % (self.module.relpath, self.node.lineno)

    def params(self):
        a = self.node.args
        return [x.arg for x in a.posonlyargs + a.args]

    def __repr__(self):
        return '<Func %s>' % self.site


class Module:
    def __init__(self, path):
        self.path = path
        self.relpath = os.path.relpath(path, REPO)
        self.name = os.path.relpath(path, PKG)[:-3].replace(os.sep, '.')
        with open(path, encoding='utf-8') as f:
            self.text = f.read()
        self.tree = undataclass(unenum_numbers(unalias_callees(unwalrus(ast.parse(self.text, filename=path)))))
        set_parents(self.tree)
        self.funcs = {}      # qual -> Func
        self.classes = {}    # name -> ClassDef
        self.consts = {}     # scope ('' or class name) -> {name: value}
        self.const_nodes = {}  # scope -> {name: ast value node}
        self._index(self.tree.body, '', None)
        self._scan_consts(self.tree.body, '')
        self._drop_mutated_consts()

    def _drop_mutated_consts(self):
        """a module- or class-level table that some function of the module changes (NAME[k] = v, NAME.append(...), del NAME[k],
        `global NAME` with a store, cls.NAME[...] = ..., self.NAME.update(...)) is not a constant of the model: what it holds depends
        on what ran before.  (Rebinding an instance attribute of the same name, `self.NAME = ...`, creates an instance attribute and leaves the
        class-level object alone; it is not a mutation of the table.)"""
        MUT = ('append', 'extend', 'insert', 'remove', 'pop', 'clear', 'sort', 'reverse', 'update', 'add', 'discard', 'setdefault', 'popitem',
               'difference_update', 'intersection_update', 'symmetric_difference_update', 'appendleft')
        for fn in self.funcs.values():
            globs = {n_ for st in ast.walk(fn.node) if isinstance(st, ast.Global) for n_ in st.names}
            local = {a.arg for a in fn.node.args.args + fn.node.args.kwonlyargs} | {n.id for n in ast.walk(fn.node) if isinstance(n, ast.Name) and isinstance(n.ctx, ast.Store)}
            local -= globs

            def base_of(e):
                # NAME / cls.NAME / self.NAME / Class.NAME -> (scope, name)
                if isinstance(e, ast.Name):
                    return ('', e.id) if e.id not in local else None
                if isinstance(e, ast.Attribute) and isinstance(e.value, ast.Name):
                    if e.value.id in ('self', 'cls') and fn.cls:
                        return (fn.cls, e.attr)
                    if e.value.id in self.classes:
                        return (e.value.id, e.attr)
                return None
            hit = []
            for n in ast.walk(fn.node):
                if isinstance(n, ast.Subscript) and isinstance(n.ctx, (ast.Store, ast.Del)):
                    hit.append(base_of(n.value))
                elif isinstance(n, ast.Call) and isinstance(n.func, ast.Attribute) and n.func.attr in MUT:
                    hit.append(base_of(n.func.value))
                elif isinstance(n, ast.AugAssign):
                    hit.append(base_of(n.target) if not isinstance(n.target, ast.Subscript) else base_of(n.target.value))
                elif isinstance(n, ast.Name) and isinstance(n.ctx, ast.Store) and n.id in globs:
                    hit.append(('', n.id))
                elif isinstance(n, ast.Attribute) and isinstance(n.ctx, ast.Store) and isinstance(n.value, ast.Name) and (n.value.id == 'cls' or n.value.id in self.classes):
                    hit.append((fn.cls if n.value.id == 'cls' else n.value.id, n.attr))
            for h_ in hit:
                if h_ is None:
                    continue
                scope, name = h_
                scopes = [scope]
                if scope and scope in self.classes:
                    # the table may be defined in a base class of the module
                    scopes += [b.id for b in self.classes[scope].bases if isinstance(b, ast.Name)]
                for sc in scopes:
                    if isinstance(self.consts.get(sc, {}).get(name), (dict, list, set)):
                        self.consts[sc].pop(name, None)
                        self.__dict__.setdefault('mutated_tables', set()).add((sc, name))

    # -- indexing
    def _index(self, body, prefix, cls):
        for st in body:
            if isinstance(st, (ast.FunctionDef, ast.AsyncFunctionDef)):
                q = prefix + st.name
                # keep the *last* definition under the plain name (runtime semantics), but
                # also record earlier ones (overloads under `if TYPE_CHECKING`, try/except).
                if q in self.funcs:
                    k = 2
                    while '%s#%d' % (q, k) in self.funcs:
                        k += 1
                    self.funcs['%s#%d' % (q, k)] = self.funcs[q]
                self.funcs[q] = Func(self, st, q, cls)
                self._index(st.body, q + '.', cls)
            elif isinstance(st, ast.ClassDef):
                if not prefix or cls is None:
                    self.classes[prefix + st.name] = st
                self._index(st.body, prefix + st.name + '.', st.name)
            elif isinstance(st, ast.Assign) and len(st.targets) == 1 and isinstance(st.targets[0], ast.Name) and isinstance(st.value, ast.Call) \
                    and isinstance(st.value.func, ast.Name) and (prefix + st.value.func.id) in self.funcs:
                # NAME = factory(args): a function made by a closure factory of the same scope -- the inner definition with the
                # factory's parameters replaced by the argument expressions is indexed as NAME
                made = _expand_factory(self.funcs[prefix + st.value.func.id].node, st.value, st.targets[0].id)
                if made is not None:
                    set_parents(made)
                    made._parent = getattr(st, '_parent', None)
                    q = prefix + st.targets[0].id
                    self.funcs[q] = Func(self, made, q, cls)
            elif isinstance(st, (ast.If, ast.Try, ast.With, ast.For, ast.While)):
                for fld in ('body', 'orelse', 'finalbody'):
                    self._index(getattr(st, fld, []) or [], prefix, cls)
                for h in getattr(st, 'handlers', []) or []:
                    self._index(h.body, prefix, cls)

    # -- constants
    def _scan_consts(self, body, scope):
        for st in body:
            if isinstance(st, ast.Assign) and len(st.targets) == 1 and isinstance(st.targets[0], ast.Name):
                self._bind(scope, st.targets[0].id, st.value)
            elif isinstance(st, ast.AnnAssign) and isinstance(st.target, ast.Name) and st.value is not None:
                self._bind(scope, st.target.id, st.value)
            elif isinstance(st, ast.Assign) and len(st.targets) == 1 and isinstance(st.targets[0], ast.Subscript) \
                    and isinstance(st.targets[0].value, ast.Name) and isinstance(self.consts.get(scope, {}).get(st.targets[0].value.id), dict):
                # TABLE[key] = value  right after the table was built
                from . import consteval
                try:
                    k = consteval.evaluate(st.targets[0].slice, self._const_lookup(scope))
                    v = consteval.evaluate(st.value, self._const_lookup(scope))
                    d = dict(self.consts[scope][st.targets[0].value.id])
                    d[k] = v
                    self.consts[scope][st.targets[0].value.id] = d
                except consteval.NotConstant:
                    self.consts[scope].pop(st.targets[0].value.id, None)
            elif isinstance(st, ast.Expr) and isinstance(st.value, ast.Call) and isinstance(st.value.func, ast.Attribute) \
                    and isinstance(st.value.func.value, ast.Name) and st.value.func.value.id in self.consts.get(scope, {}):
                # TABLE.update(...) / .append(...) / .extend(...) / .add(...) right after the table was built: the table is what
                # it is after these statements -- evaluated when the argument is computed from literals, otherwise the name is
                # not a constant of the model
                from . import consteval
                nm, meth, c = st.value.func.value.id, st.value.func.attr, st.value
                cur = self.consts[scope][nm]
                try:
                    if c.keywords and not (meth == 'update' and isinstance(cur, dict) and all(k.arg for k in c.keywords)):
                        raise consteval.NotConstant('keywords')
                    args = [consteval.evaluate(a, self._const_lookup(scope)) for a in c.args]
                    if meth == 'update' and isinstance(cur, dict) and len(args) <= 1:
                        d = dict(cur)
                        d.update(*[dict(a) if not isinstance(a, dict) else a for a in args])
                        d.update({k.arg: consteval.evaluate(k.value, self._const_lookup(scope)) for k in c.keywords})
                        self.consts[scope][nm] = d
                    elif meth == 'append' and isinstance(cur, list) and len(args) == 1:
                        self.consts[scope][nm] = cur + [args[0]]
                    elif meth == 'extend' and isinstance(cur, list) and len(args) == 1:
                        self.consts[scope][nm] = cur + list(args[0])
                    elif meth == 'add' and isinstance(cur, (set, frozenset)) and len(args) == 1:
                        self.consts[scope][nm] = type(cur)(set(cur) | {args[0]})
                    elif meth == 'update' and isinstance(cur, (set, frozenset)) and len(args) == 1:
                        self.consts[scope][nm] = type(cur)(set(cur) | set(args[0]))
                    elif isinstance(cur, (dict, list, set)):
                        raise consteval.NotConstant(meth)       # some other method of a mutable table: not modelled
                except (consteval.NotConstant, TypeError, ValueError):
                    self.consts[scope].pop(nm, None)
            elif isinstance(st, (ast.AugAssign, ast.Delete)):
                for t_ in ([st.target] if isinstance(st, ast.AugAssign) else st.targets):
                    b_ = t_
                    while isinstance(b_, (ast.Subscript, ast.Attribute)):
                        b_ = b_.value
                    if isinstance(b_, ast.Name):
                        self.consts.get(scope, {}).pop(b_.id, None)
            elif isinstance(st, ast.ClassDef) and scope == '':
                self._scan_consts(st.body, st.name)
            elif isinstance(st, (ast.If, ast.Try)):
                for fld in ('body', 'orelse', 'finalbody'):
                    self._scan_consts(getattr(st, fld, []) or [], scope)

    def _bind(self, scope, name, value):
        self.const_nodes.setdefault(scope, {})[name] = value
        try:
            self.consts.setdefault(scope, {})[name] = self.fold(value, scope)
        except Unfoldable:
            self.consts.get(scope, {}).pop(name, None)
            # tables computed from literals (comprehensions, enumerate, string.* ...)
            from . import consteval
            try:
                self.consts.setdefault(scope, {})[name] = consteval.evaluate(value, self._const_lookup(scope))
            except consteval.NotConstant:
                pass
            except RecursionError:
                pass

    def _const_lookup(self, scope):
        def look(name):
            for sc in ([scope] if scope else []) + ['']:
                d = self.consts.get(sc, {})
                if name in d:
                    return (d[name],)
            parts = name.split('.')
            if len(parts) == 2 and parts[0] in ('cls', 'self') and scope:
                for c in self.mro(scope):
                    if parts[1] in self.consts.get(c, {}):
                        return (self.consts[c][parts[1]],)
            if len(parts) == 2 and parts[0] in self.classes:
                for c in self.mro(parts[0]):
                    if parts[1] in self.consts.get(c, {}):
                        return (self.consts[c][parts[1]],)
            return None

        def funcs(name):
            f = self.funcs.get(name)
            return f.node if f is not None and isinstance(f.node, ast.FunctionDef) else None
        look.funcs = funcs
        return look

    def fold(self, e, scope='', env=None):
        """constant folding of an expression in class scope `scope` ('' = module); falls back to the pure-expression
        evaluator (comprehensions, str.format with keywords, string.* ...)"""
        try:
            return self._fold(e, scope, env)
        except Unfoldable as u:
            from . import consteval
            try:
                return consteval.evaluate(e, self._const_lookup(scope), env)
            except consteval.NotConstant:
                raise u
            except RecursionError:
                raise u

    def _fold(self, e, scope='', env=None):
        if isinstance(e, ast.Constant):
            return e.value
        if isinstance(e, ast.Name):
            if env and e.id in env:
                return env[e.id]
            for sc in (scope, ''):
                if e.id in self.consts.get(sc, {}):
                    return self.consts[sc][e.id]
            raise Unfoldable(e.id)
        if isinstance(e, ast.Attribute):
            if isinstance(e.value, ast.Name) and e.value.id == 're' and e.attr in RE_FLAGS:
                return RE_FLAGS[e.attr]
            if isinstance(e.value, ast.Name) and e.value.id in ('self', 'cls') and scope:
                for cname in self.mro(scope):
                    if e.attr in self.consts.get(cname, {}):
                        return self.consts[cname][e.attr]
            if isinstance(e.value, ast.Name) and e.value.id in self.classes:
                for cname in self.mro(e.value.id):
                    if e.attr in self.consts.get(cname, {}):
                        return self.consts[cname][e.attr]
            if e.attr in ('value', 'name') and isinstance(e.value, ast.Attribute) and isinstance(e.value.value, ast.Name) \
                    and self.enum_members(e.value.value.id) is not None:
                # EnumClass.MEMBER.value / .name: what the class body assigns to the member
                mem = dict(self.enum_members(e.value.value.id))
                if e.value.attr in mem:
                    return e.value.attr if e.attr == 'name' else mem[e.value.attr]
            raise Unfoldable(norm(e))
        if isinstance(e, ast.BinOp):
            l, r = self.fold(e.left, scope, env), self.fold(e.right, scope, env)
            try:
                if isinstance(e.op, ast.Add):
                    return l + r
                if isinstance(e.op, ast.Mod):
                    return l % (tuple(r) if isinstance(r, list) else r)
                if isinstance(e.op, ast.BitOr):
                    return l | r
                if isinstance(e.op, ast.Mult):
                    return l * r
                if isinstance(e.op, ast.Sub):
                    return l - r
            except Exception as ex:   # pylint: disable=broad-except
                raise Unfoldable(str(ex))
            raise Unfoldable(type(e.op).__name__)
        if isinstance(e, ast.Dict):
            return {self._hashable(self.fold(k, scope, env)): self.fold(v, scope, env)
                    for k, v in zip(e.keys, e.values)}
        if isinstance(e, ast.Tuple):
            return tuple(self.fold(x, scope, env) for x in e.elts)
        if isinstance(e, ast.List):
            return [self.fold(x, scope, env) for x in e.elts]
        if isinstance(e, ast.Set):
            return frozenset(self._hashable(self.fold(x, scope, env)) for x in e.elts)
        if isinstance(e, ast.Call):
            f = e.func
            if isinstance(f, ast.Attribute) and f.attr == 'encode':
                return self.fold(f.value, scope, env).encode(*[self.fold(a, scope, env) for a in e.args])
            if isinstance(f, ast.Attribute) and f.attr == 'format' and not e.keywords:
                return self.fold(f.value, scope, env).format(*[self.fold(a, scope, env) for a in e.args])
            if isinstance(f, ast.Attribute) and f.attr == 'join' and len(e.args) == 1:
                return self.fold(f.value, scope, env).join(self.fold(e.args[0], scope, env))
            if isinstance(f, ast.Name) and f.id in ('frozenset', 'set', 'tuple', 'list') and len(e.args) == 1:
                v = self.fold(e.args[0], scope, env)
                return {'frozenset': frozenset, 'set': frozenset, 'tuple': tuple, 'list': list}[f.id](v)
            if isinstance(f, ast.Attribute) and norm(f) == 're.escape' and len(e.args) == 1:
                return re.escape(self.fold(e.args[0], scope, env))
            raise Unfoldable('call ' + norm(f))
        if isinstance(e, ast.JoinedStr):
            out = ''
            for v in e.values:
                if isinstance(v, ast.Constant):
                    out += v.value
                elif isinstance(v, ast.FormattedValue) and v.conversion == -1 and v.format_spec is None:
                    out += str(self.fold(v.value, scope, env))
                else:
                    raise Unfoldable('fstring')
            return out
        if isinstance(e, ast.UnaryOp) and isinstance(e.op, ast.USub):
            return -self.fold(e.operand, scope, env)
        raise Unfoldable(type(e).__name__)

    @staticmethod
    def _hashable(v):
        return tuple(v) if isinstance(v, list) else v

    def mro(self, cname):
        """in-module linearisation (depth first, left to right; good enough here)"""
        out, todo = [], [cname]
        while todo:
            c = todo.pop(0)
            if c in out or c not in self.classes:
                continue
            out.append(c)
            bases = []
            for b in self.classes[c].bases:
                if isinstance(b, ast.Subscript):
                    b = b.value          # Generic[T] / Base[str]: the subscripted class
                if isinstance(b, ast.Name):
                    bases.append(b.id)
                elif isinstance(b, ast.Attribute):
                    bases.append(b.attr)
            todo = bases + todo
        return out

    def method(self, cname, mname):
        """resolve a method through the in-module class hierarchy"""
        for c in self.mro(cname):
            f = self.funcs.get('%s.%s' % (c, mname))
            if f is not None:
                return f
        return None

    def enum_members(self, cname):
        """[(member name, value)] in definition order when `cname` is an enum.Enum class of this module whose members are assigned
        folded constants (enum.auto(): 1, 2, ...); None when it is no such class"""
        cd = self.classes.get(cname)
        if cd is None or not any(norm(b) in ('enum.Enum', 'Enum', 'enum.IntEnum', 'IntEnum', 'enum.StrEnum', 'StrEnum') for b in cd.bases):
            return None
        out, auto = [], 0
        for st in cd.body:
            if isinstance(st, ast.Assign) and len(st.targets) == 1 and isinstance(st.targets[0], ast.Name) and not st.targets[0].id.startswith('_'):
                if isinstance(st.value, ast.Call) and norm(st.value.func) in ('enum.auto', 'auto') and not st.value.args:
                    auto += 1
                    out.append((st.targets[0].id, auto))
                    continue
                try:
                    v = self.fold(st.value, cname)
                except Unfoldable:
                    return None
                if isinstance(v, int) and not isinstance(v, bool):
                    auto = v
                out.append((st.targets[0].id, v))
        return out

    def class_const_node(self, cname, name):
        for c in self.mro(cname):
            n = self.const_nodes.get(c, {}).get(name)
            if n is not None:
                return n, c
        return None, None


def _first_walrus(test):
    """the assignment expression that a test evaluates FIRST and unconditionally -- the test itself, the operand of `not`, the left
    side of a comparison, the first operand of and / or (recursively) -- as (NamedExpr, replace) or None"""
    if isinstance(test, ast.NamedExpr) and isinstance(test.target, ast.Name):
        return test
    if isinstance(test, ast.UnaryOp) and isinstance(test.op, ast.Not):
        return _first_walrus(test.operand)
    if isinstance(test, ast.Compare):
        return _first_walrus(test.left)
    if isinstance(test, ast.BoolOp):
        return _first_walrus(test.values[0])
    return None


def undataclass(tree):
    """`@dataclasses.dataclass class R: a: T; b: T = <constant>`: the class gets the `__init__` (one parameter per annotated field, in
    order, stored to the attribute of that name) and the `__eq__` (same class and equal field tuples, else NotImplemented) the decorator
    generates, written out, unless the class body defines them.  Classes with `field(...)` defaults, `InitVar` / `ClassVar` annotations,
    `__post_init__`, decorator arguments other than frozen / slots / eq=True / repr / order=False / kw_only=False, or dataclass bases
    are left alone (an object of such a class is outside the evaluator's vocabulary)."""
    for st in ast.walk(tree):
        if not isinstance(st, ast.ClassDef):
            continue
        deco = [d for d in st.decorator_list if norm(d.func if isinstance(d, ast.Call) else d) in ('dataclasses.dataclass', 'dataclass')]
        if len(deco) != 1 or st.bases:
            continue
        d = deco[0]
        if isinstance(d, ast.Call) and (d.args or not all(
                isinstance(k.value, ast.Constant) and (k.arg in ('frozen', 'slots', 'repr', 'unsafe_hash') or (k.arg == 'eq' and k.value.value is True)
                                                       or (k.arg in ('order', 'kw_only', 'match_args') and k.value.value is False)) for k in d.keywords)):
            continue
        fields, ok = [], True
        for b in st.body:
            if isinstance(b, ast.AnnAssign):
                if not isinstance(b.target, ast.Name) or 'ClassVar' in norm(b.annotation) or 'InitVar' in norm(b.annotation) \
                        or (b.value is not None and not isinstance(b.value, ast.Constant)):
                    ok = False
                else:
                    fields.append((b.target.id, b.value))
            elif isinstance(b, ast.FunctionDef) and b.name == '__post_init__':
                ok = False
        seen_default = False
        for _n, v in fields:
            if v is None and seen_default:
                ok = False
            seen_default = seen_default or v is not None
        if not ok or not fields:
            continue
        have = {b.name for b in st.body if isinstance(b, ast.FunctionDef)}
        src = []
        if '__init__' not in have:
            src.append('def __init__(self, %s):\n%s' % (', '.join(n if v is None else '%s=%s' % (n, norm(v)) for n, v in fields),
                                                        ''.join('    self.%s = %s\n' % (n, n) for n, _v in fields)))
        if '__eq__' not in have:
            tup = lambda o: '(%s,)' % ', '.join('%s.%s' % (o, n) for n, _v in fields)      # noqa: E731
            src.append('def __eq__(self, other):\n    if other.__class__ is self.__class__:\n        return %s == %s\n    return NotImplemented\n' % (tup('self'), tup('other')))
        for text in src:
            fn = ast.parse(text).body[0]
            for n in ast.walk(fn):
                if hasattr(n, 'lineno'):
                    n.lineno = n.end_lineno = st.lineno
                    n.col_offset = n.end_col_offset = 0
            st.body.append(fn)
    return tree


def unenum_numbers(tree):
    """`class K(enum.IntEnum): A = 97` at module level and `x == K.A` / `x < K.A` / `x + K.A`: a member of an IntEnum *is* the number
    in every comparison by value and in arithmetic, so as an operand of one it is read as the number (`is`, formatting, .name, use
    as a value to store or return are left alone).  Classes whose members are not all integer constants are left alone."""
    enums = {}
    for st in tree.body:
        if isinstance(st, ast.ClassDef) and len(st.bases) == 1 and norm(st.bases[0]) in ('enum.IntEnum', 'IntEnum'):
            mem, ok = {}, True
            for b in st.body:
                if isinstance(b, ast.Expr) and isinstance(b.value, ast.Constant):
                    continue
                if isinstance(b, ast.Assign) and len(b.targets) == 1 and isinstance(b.targets[0], ast.Name) and isinstance(b.value, ast.Constant) \
                        and isinstance(b.value.value, int) and not isinstance(b.value.value, bool):
                    mem[b.targets[0].id] = b.value.value
                elif isinstance(b, (ast.FunctionDef, ast.Assign, ast.AnnAssign)):
                    ok = False
            if ok and mem:
                enums[st.name] = mem
    if not enums:
        return tree

    def member(n):
        return isinstance(n, ast.Attribute) and isinstance(n.value, ast.Name) and n.value.id in enums and n.attr in enums[n.value.id] and isinstance(n.ctx, ast.Load)

    def const(n):
        return ast.copy_location(ast.Constant(value=enums[n.value.id][n.attr]), n)
    for fn in ast.walk(tree):
        if isinstance(fn, (ast.FunctionDef, ast.AsyncFunctionDef, ast.Lambda)) and any(
                isinstance(a, ast.arg) and a.arg in enums for a in ast.walk(fn.args)):
            return tree          # a parameter shadows the class name somewhere: leave the module alone
    for n in ast.walk(tree):
        if isinstance(n, ast.Compare) and all(isinstance(o, (ast.Eq, ast.NotEq, ast.Lt, ast.LtE, ast.Gt, ast.GtE)) for o in n.ops):
            if member(n.left):
                n.left = const(n.left)
            n.comparators = [const(c) if member(c) else c for c in n.comparators]
        elif isinstance(n, ast.BinOp):
            if member(n.left):
                n.left = const(n.left)
            if member(n.right):
                n.right = const(n.right)
    return tree


def unwalrus(tree):
    """`if (x := e) ...:` is `x = e` followed by `if x ...:` (an `elif` is an `if` in the else branch, so the assignment goes there);
    `while (x := e) ...:` is `while True: x = e; if not (x ...): break; ...`.  Only the assignment a test evaluates first and
    unconditionally is moved: the statement does the same things in the same order, and every rule sees the plain form."""
    class T(ast.NodeTransformer):
        def _block(self, stmts):
            out = []
            for st in stmts:
                st = self.visit(st)
                if isinstance(st, list):
                    out.extend(st)
                else:
                    out.append(st)
            return out

        def generic_visit(self, node):
            for fld in ('body', 'orelse', 'finalbody'):
                v = getattr(node, fld, None)
                if isinstance(v, list) and v and isinstance(v[0], ast.stmt):
                    setattr(node, fld, self._block(v))
            for h in getattr(node, 'handlers', []) or []:
                h.body = self._block(h.body)
            for c in getattr(node, 'cases', []) or []:
                c.body = self._block(c.body)
            return node

        def _hoist(self, test):
            w = _first_walrus(test)
            if w is None:
                return None, test
            assign = ast.copy_location(ast.Assign(targets=[ast.copy_location(ast.Name(id=w.target.id, ctx=ast.Store()), w)], value=w.value), w)
            name = ast.copy_location(ast.Name(id=w.target.id, ctx=ast.Load()), w)

            class R(ast.NodeTransformer):
                def visit_NamedExpr(self, n):
                    return name if n is w else n
            return assign, R().visit(test)

        def visit_If(self, node):
            self.generic_visit(node)
            assign, test = self._hoist(node.test)
            if assign is None:
                return node
            node.test = test
            return [assign, node]

        def visit_While(self, node):
            self.generic_visit(node)
            if node.orelse:
                return node
            assign, test = self._hoist(node.test)
            if assign is None:
                return node
            brk = ast.copy_location(ast.If(test=ast.copy_location(ast.UnaryOp(op=ast.Not(), operand=test), node), body=[ast.copy_location(ast.Break(), node)], orelse=[]), node)
            node.test = ast.copy_location(ast.Constant(value=True), node)
            node.body = [assign, brk] + node.body
            return node
    t = T()
    tree.body = t._block(tree.body)
    ast.fix_missing_locations(tree)
    return tree


def unalias_callees(tree):
    """`match = pattern.match` / `append = items.append` / `read_header = ArMember.from_file` in front of a loop, and `match(line)` inside:
    a local that is bound ONCE in its function to an attribute chain `base.a.b`, where neither `base` nor a prefix of the chain is re-bound
    anywhere in the function, and that is only ever CALLED, is replaced by what it stands for (the look-up it saves gives the same
    function each time; changing the CONTENT of an object on the chain -- `self[key] = value`, `items.append(x)` -- re-binds nothing).
    Every rule sees the plain call."""
    import copy as _copy

    def chain_of(v):
        parts = []
        while isinstance(v, ast.Attribute):
            parts.append(v.attr)
            v = v.value
        if isinstance(v, ast.Call) and isinstance(v.func, ast.Name) and v.func.id == 'super' and all(isinstance(a, ast.Name) for a in v.args) and not v.keywords:
            return ('super()',) + tuple(reversed(parts))
        if isinstance(v, ast.Name):
            return (v.id,) + tuple(reversed(parts))
        return None

    def process(fn):
        if any(isinstance(n, (ast.Global, ast.Nonlocal)) for n in ast.walk(fn)):
            return
        name_stores, attr_stores, store_lines = {}, set(), {}
        for n in ast.walk(fn):
            if isinstance(n, ast.Name) and isinstance(n.ctx, (ast.Store, ast.Del)):
                name_stores[n.id] = name_stores.get(n.id, 0) + 1
                store_lines.setdefault(n.id, []).append(getattr(n, 'lineno', 0))
            elif isinstance(n, ast.Attribute) and isinstance(n.ctx, (ast.Store, ast.Del)):
                c = chain_of(n)
                if c:
                    attr_stores.add(c)
            elif isinstance(n, ast.arg):
                name_stores[n.arg] = name_stores.get(n.arg, 0) + 1
        params = {a.arg for a in fn.args.posonlyargs + fn.args.args + fn.args.kwonlyargs} | ({fn.args.vararg.arg} if fn.args.vararg else set()) | ({fn.args.kwarg.arg} if fn.args.kwarg else set())
        callees = {id(c.func) for c in ast.walk(fn) if isinstance(c, ast.Call)}
        subst = {}

        def blocks(body, in_loop):
            for st in body:
                if isinstance(st, (ast.FunctionDef, ast.AsyncFunctionDef, ast.ClassDef)):
                    continue
                if not in_loop and isinstance(st, ast.Assign) and len(st.targets) == 1 and isinstance(st.targets[0], ast.Name) and isinstance(st.value, ast.Attribute):
                    name, c = st.targets[0].id, chain_of(st.value)
                    uses = [n for n in ast.walk(fn) if isinstance(n, ast.Name) and n.id == name and isinstance(n.ctx, ast.Load)]
                    if c and name_stores.get(name) == 1 and name not in params and uses and all(id(u) in callees for u in uses) \
                            and (c[0] == 'super()' or name_stores.get(c[0], 0) <= (1 if c[0] in params else 0)
                                 or (c[0] not in params and name_stores.get(c[0]) == 1 and store_lines[c[0]][0] < st.lineno)) \
                            and not any(c[:k] in attr_stores for k in range(2, len(c) + 1)) \
                            and all(getattr(u, 'lineno', 0) >= st.lineno for u in uses):
                        subst[name] = (st, st.value)
                inner = in_loop or isinstance(st, (ast.For, ast.While, ast.AsyncFor))
                for fld in ('body', 'orelse', 'finalbody'):
                    v = getattr(st, fld, None)
                    if isinstance(v, list) and v and isinstance(v[0], ast.stmt):
                        blocks(v, inner)
                for h in getattr(st, 'handlers', []) or []:
                    blocks(h.body, inner)
        blocks(fn.body, False)
        if not subst:
            return

        class R(ast.NodeTransformer):
            def visit_Name(self, n):
                if isinstance(n.ctx, ast.Load) and n.id in subst:
                    return ast.copy_location(_copy.deepcopy(subst[n.id][1]), n)
                return n

            def visit_Assign(self, n):
                if any(n is st_ for st_, _v in subst.values()):
                    return None
                self.generic_visit(n)
                return n
        R().visit(fn)
        for blk in ast.walk(fn):
            for fld in ('body', 'orelse', 'finalbody'):
                v = getattr(blk, fld, None)
                if isinstance(v, list) and not v and fld == 'body':
                    v.append(ast.Pass())
        ast.fix_missing_locations(fn)
    for n in ast.walk(tree):
        if isinstance(n, ast.FunctionDef):
            process(n)
    return tree


class Source:
    """all analysed modules of the package (tests excluded)"""

    def __init__(self, root=None):
        root = root or PKG
        self.modules = {}
        paths = sorted(glob.glob(os.path.join(root, '**', '*.py'), recursive=True))
        for p in paths:
            if os.sep + 'tests' + os.sep in p:
                continue
            m = Module(p)
            self.modules[m.name] = m
        if not self.modules:
            raise AnalysisError('no modules found under %s' % root)
        self._regexes = None

    def mod(self, name):
        if name not in self.modules:
            raise AnalysisError('module %s not found' % name)
        return self.modules[name]

    def func(self, site):
        """'module:Qual.name' -> Func, AnalysisError when the anchor vanished"""
        mname, qual = site.split(':')
        m = self.mod(mname)
        f = m.funcs.get(qual)
        if f is None:
            # method inherited?  Class.method
            if '.' in qual:
                c, meth = qual.rsplit('.', 1)
                f = m.method(c, meth) if c in m.classes else None
        if f is None:
            raise AnalysisError('anchor %s not found' % site)
        return f

    def try_func(self, site):
        try:
            return self.func(site)
        except AnalysisError:
            return None

    def cls(self, site):
        mname, c = site.split(':')
        m = self.mod(mname)
        if c not in m.classes:
            raise AnalysisError('class %s not found' % site)
        return m.classes[c]

    def const(self, mname, name, scope=''):
        m = self.mod(mname)
        for sc in (m.mro(scope) if scope else []) + ['']:
            if name in m.consts.get(sc, {}):
                return m.consts[sc][name]
        raise AnalysisError('constant %s:%s%s does not fold' % (mname, scope + '.' if scope else '', name))

    # -- regex registry
    def regexes(self):
        if self._regexes is None:
            self._regexes = []
            for m in self.modules.values():
                self._scan_regexes(m)
        return self._regexes

    def _scan_regexes(self, m):
        for node in ast.walk(m.tree):
            if not (isinstance(node, ast.Call) and norm(node.func) == 're.compile' and node.args):
                continue
            # enclosing scopes
            p = node
            cls = None
            fn = None
            while getattr(p, '_parent', None) is not None:
                p = p._parent
                if isinstance(p, ast.ClassDef) and cls is None:
                    cls = p.name
                if isinstance(p, (ast.FunctionDef, ast.AsyncFunctionDef)) and fn is None:
                    fn = p
            par = node._parent
            binding = None
            if isinstance(par, ast.Assign) and len(par.targets) == 1:
                binding = norm(par.targets[0])
            elif isinstance(par, ast.AnnAssign):
                binding = norm(par.target)
            entry = dict(module=m.name, cls=cls, fn=fn.name if fn else None, binding=binding,
                         lineno=node.lineno, node=node, pattern=None, flags=None, why=None)
            env = {}
            if fn is not None:
                # names bound once to constants in the enclosing function
                for st in ast.walk(fn):
                    if isinstance(st, ast.Assign) and len(st.targets) == 1 and isinstance(st.targets[0], ast.Name):
                        try:
                            env[st.targets[0].id] = m.fold(st.value, cls or '', env)
                        except Unfoldable:
                            pass
            try:
                entry['pattern'] = m.fold(node.args[0], cls or '', env)
                fl = 0
                if len(node.args) > 1:
                    fl = m.fold(node.args[1], cls or '', env)
                for kw in node.keywords:
                    if kw.arg == 'flags':
                        fl = m.fold(kw.value, cls or '', env)
                entry['flags'] = fl
                if not isinstance(entry['pattern'], (str, bytes)):
                    raise Unfoldable('pattern is %s' % type(entry['pattern']).__name__)
            except Unfoldable as u:
                entry['pattern'] = None
                entry['why'] = str(u)
            self._regexes.append(entry)

    def regex(self, mname, binding, cls=None, fn=None, _alias=False):
        """the regex bound to `binding` (possibly mangled) in module/class/function"""
        cands = []
        for r in self.regexes():
            if r['module'] != mname or r['binding'] is None:
                continue
            b = r['binding']
            names = {b, b.split('.')[-1]}
            if binding in names and (cls is None or r['cls'] == cls) and (fn is None or r['fn'] == fn):
                cands.append(r)
        if not cands and not _alias:
            # an alias of another compiled regex:  NAME = OTHER
            m = self.mod(mname)
            for scope in ([cls] if cls else []) + ['']:
                node = m.const_nodes.get(scope, {}).get(binding)
                if isinstance(node, ast.Name):
                    return self.regex(mname, node.id, cls=cls if node.id in m.const_nodes.get(cls or '', {}) else None, fn=fn, _alias=True)
                if isinstance(node, ast.Attribute) and isinstance(node.value, ast.Name) and node.value.id in m.classes:
                    return self.regex(mname, node.attr, cls=node.value.id, fn=fn, _alias=True)
        if len(cands) != 1:
            raise AnalysisError('regex %s:%s%s: %d candidates' % (mname, (cls + '.') if cls else '', binding, len(cands)))
        r = cands[0]
        if r['pattern'] is None:
            raise AnalysisError('regex %s:%s does not fold to a constant (%s)' % (mname, binding, r['why']))
        return r


def walk_no_nested(node):
    """ast.walk that does not descend into nested function/class definitions/lambdas"""
    todo = list(ast.iter_child_nodes(node))
    while todo:
        n = todo.pop()
        yield n
        if isinstance(n, (ast.FunctionDef, ast.AsyncFunctionDef, ast.ClassDef, ast.Lambda)):
            continue
        todo.extend(ast.iter_child_nodes(n))


def calls_in(node, nested=True):
    it = ast.walk(node) if nested else walk_no_nested(node)
    return [c for c in it if isinstance(c, ast.Call)]


def enclosing_stmt(node):
    while not isinstance(node, ast.stmt):
        node = node._parent
    return node


def ancestors(node):
    node = getattr(node, '_parent', None)
    while node is not None:
        yield node
        node = getattr(node, '_parent', None)


def lineno(node):
    return getattr(node, 'lineno', 0)


# ---------------------------------------------------------------------------------------------
# verdict protocol


class Report:
    def __init__(self, pid, tier):
        self.pid = pid
        self.tier = tier
        self.t0 = time.time()
        self.instances = []      # dicts: rule, site, what, verdict, detail
        self.violations = []     # dicts: rule, key, site, msg, detail
        self.errors = []
        self.known = []
        self.analysed = {'files': set(), 'functions': set(), 'regexes': set(), 'call_sites': 0, 'paths': 0}
        self.not_decided = []
        self.explanation = ''
        self.assumptions = []
        self.extra = {}
        self.nontrivial = set()
        self.obligations = 0
        self.discharged = 0
        self.min_instances = {}
        self.info = []

    # -- bookkeeping
    def saw_func(self, f):
        self.analysed['functions'].add(f.site)
        self.analysed['files'].add(f.module.relpath)

    def saw_regex(self, name):
        self.analysed['regexes'].add(name)

    def ok(self, rule, site, what, detail=None, nontrivial=True):
        self.instances.append(dict(rule=rule, site=site, what=what, verdict='holds', detail=detail))
        self.obligations += 1
        self.discharged += 1
        if nontrivial:
            self.nontrivial.add((rule, site, what))

    def fail(self, rule, site, construct, msg, detail=None, where=None):
        """a rule instance fails; key = rule|site|construct (no line numbers)"""
        key = '%s|%s|%s' % (rule, site, ' '.join(str(construct).split()))
        self.instances.append(dict(rule=rule, site=site, what=construct, verdict='FAILS', detail=msg))
        self.obligations += 1
        self.nontrivial.add((rule, site, construct))
        self.violations.append(dict(rule=rule, key=key, site=site, where=where, msg=msg, detail=detail))

    def error(self, rule, msg):
        self.errors.append('%s: %s' % (rule, msg))

    def note(self, msg):
        self.info.append(msg)

    def need(self, rule, n):
        """the run must evaluate at least n instances of `rule` (never pass vacuously)"""
        self.min_instances[rule] = n

    def guard(self, rule, fn, *a, **kw):
        """run one rule; AnalysisError -> error (fail closed), other exceptions too"""
        try:
            return fn(self, *a, **kw)
        except AnalysisError as e:
            self.error(rule, str(e))
        except RecursionError as e:
            self.error(rule, 'recursion limit: %s' % e)
        except Exception as e:   # pylint: disable=broad-except
            tb = traceback.extract_tb(sys.exc_info()[2])[-1]
            self.error(rule, 'internal error %s: %s (%s:%d)' % (type(e).__name__, e, os.path.basename(tb.filename), tb.lineno))
        return None


def load_known_findings():
    """lines 'finding: property=Cxx key=<key> :: text' and 'fixed: property=Cxx <commit> text'"""
    out = {}
    if not os.path.exists(KNOWN_FINDINGS):
        return out
    with open(KNOWN_FINDINGS, encoding='utf-8') as f:
        for line in f:
            line = line.strip()
            if not line.startswith('finding:'):
                continue
            m = re.match(r'finding:\s+property=(\S+)\s+key=(.*?)\s+::\s+(.*)$', line)
            if m:
                out.setdefault(m.group(1), {})[' '.join(m.group(2).split())] = m.group(3)
    return out


def finish(rep):
    """print the verdict, write evidence, return exit code"""
    pid = rep.pid
    for rule, n in sorted(rep.min_instances.items()):
        got = sum(1 for i in rep.instances if i['rule'] == rule)
        if got < n and not any(e.startswith(rule + ':') for e in rep.errors):
            rep.error(rule, 'only %d instances evaluated, %d were confirmed on the pinned tree (rule would pass vacuously)' % (got, n))
    known = load_known_findings().get(pid, {})
    new = []
    for v in rep.violations:
        if v['key'] in known:
            rep.known.append(v)
        else:
            new.append(v)
    os.makedirs(EVIDENCE_DIR, exist_ok=True)
    for old in glob.glob(os.path.join(EVIDENCE_DIR, '%s.violation-*.json' % pid)):
        os.unlink(old)
    for v in rep.known:
        print('KNOWN-FINDING: property=%s %s :: %s' % (pid, v['key'], v['msg']))
    for i in rep.info:
        print('INFO: ' + i)
    code = 0
    if rep.errors:
        code = 2
        for e in rep.errors:
            print('ANALYSIS-ERROR property=%s %s' % (pid, e))
    if new:
        code = 1
    replay_paths = []
    if len(new) > 25:
        print('(%d violations; the first 25 are listed, all are in the evidence file)' % len(new))
    for n, v in enumerate(new[:25]):
        path = os.path.join(EVIDENCE_DIR, '%s.violation-%d.json' % (pid, n))
        with open(path, 'w', encoding='utf-8') as f:
            json.dump(dict(property=pid, rule=v['rule'], key=v['key'], site=v['site'], where=v['where'],
                           message=v['msg'], detail=v['detail'], tier=rep.tier), f, indent=1, default=str)
        replay_paths.append(path)
        print('FAIL %s %s%s: %s' % (v['rule'], v['site'], (' (%s)' % v['where']) if v['where'] else '', v['msg']))
        print('VIOLATION property=%s replay=%s' % (pid, path))
    wall = time.time() - rep.t0
    samples = []
    seen_rules = set()
    for i in rep.instances:          # one sample per rule first, then fill up
        if i['rule'] not in seen_rules:
            seen_rules.add(i['rule'])
            samples.append(i)
    for i in rep.instances:
        if len(samples) >= 40:
            break
        if i not in samples:
            samples.append(i)
    ev = {
        'property_id': pid,
        'tier': rep.tier,
        'seed': int(os.environ.get('VERIF_SEED', '0') or 0),
        'level': 'other',
        'coverage': {
            'explanation': rep.explanation or 'static analysis of the source tree',
            'evaluations': len(rep.instances),
            'distinct_nontrivial': len(rep.nontrivial),
            'rule': 'one evaluation = one rule instance (a language decision between automata built from the '
                    'source, a path query on a CFG, a table row, a typestate/shape case) evaluated on /repo\'s '
                    'current tree; distinct = distinct (rule, site, construct); non-trivial = needed an automaton '
                    'product, a path enumeration or a computed table comparison (pure presence checks excluded)',
            'obligations': rep.obligations,
            'discharged': rep.discharged,
            'samples': samples,
            'analysed': {k: (sorted(v) if isinstance(v, set) else v) for k, v in rep.analysed.items()},
            'rules': sorted(seen_rules),
            'not_decided': rep.not_decided,
            'known_findings_reported': [v['key'] for v in rep.known],
            'analysis_errors': rep.errors,
            'exhaustive': False,
        },
        'assumptions': rep.assumptions or [
            'CPython 3.12 ast / re._parser / re._compiler (leaf character sets) are correct',
            'the analyser itself (/verif/sa), including its evaluator of the Python subset the analysed modules use (sa.heap; compared with CPython on tools/interp_cases)',
            'CPython 3.12 re engine and str / bytes methods are correct where the evaluator applies them to decided texts of its model scenarios',
            'behaviour of third-party and stdlib callees is as documented'],
        'wall_s': round(wall, 3),
        'violations': len(new),
    }
    ev['coverage'].update(rep.extra)
    with open(os.path.join(EVIDENCE_DIR, '%s.json' % pid), 'w', encoding='utf-8') as f:
        json.dump(ev, f, indent=1, default=str)
    print('%s tier=%s: %d rule instances, %d hold, %d new violations, %d known findings, %d analysis errors, %.2fs'
          % (pid, rep.tier, len(rep.instances), rep.discharged, len(new), len(rep.known), len(rep.errors), wall))
    return code


def tree_digest():
    h = hashlib.sha256()
    for p in sorted(glob.glob(os.path.join(PKG, '**', '*.py'), recursive=True)):
        if os.sep + 'tests' + os.sep in p:
            continue
        h.update(p.encode())
        with open(p, 'rb') as f:
            h.update(f.read())
    return h.hexdigest()[:16]

"""E2 -- regular-language engine.

Regex literals (as parsed by the interpreter's own re._parser) are compiled to NFAs over a
finite *symbolic* alphabet and determinised; language questions (inclusion, equivalence,
emptiness, capture agreement) are decided on the automata and answered with a shortest
witness.  No regex is ever *run* on generated input: the only use of the compiled `re`
machinery is the evaluation of single-character leaves on the alphabet symbols.
"""
import re
import re._compiler as _C
import re._constants as _K
import re._parser as _P
from collections import deque

from .core import AnalysisError

MAXREPEAT = _K.MAXREPEAT
_WS = re.compile(r'\s')
_DG = re.compile(r'\d')
_WD = re.compile(r'\w')


class Alphabet:
    """str: 128 ASCII code points + one representative per signature class of the other BMP
    code points; bytes: the 256 byte values."""

    def __init__(self, kind='str', extra=''):
        self.kind = kind
        if kind == 'bytes':
            self.syms = [bytes([i]) for i in range(256)]
        else:
            syms = [chr(i) for i in range(128)]
            seen = {}
            for ch in extra:
                if ord(ch) >= 128 and ch not in syms:
                    syms.append(ch)
            for cp in range(128, 0x10000):
                if 0xD800 <= cp <= 0xDFFF:
                    continue
                c = chr(cp)
                lo, up = c.lower(), c.upper()
                sig = (bool(_WS.fullmatch(c)), bool(_DG.fullmatch(c)), bool(_WD.fullmatch(c)), c.isspace(),
                       len(('a' + c + 'b').splitlines()) > 1,
                       lo if len(lo) == 1 and ord(lo) < 128 else None,
                       up if len(up) == 1 and ord(up) < 128 else None,
                       c.isdigit(), c.isalpha(), c.isalnum(), c.isprintable())
                if sig not in seen:
                    seen[sig] = c
                    if c not in syms:
                        syms.append(c)
            self.syms = syms
        self.n = len(self.syms)
        self.idx = {c: i for i, c in enumerate(self.syms)}
        self.full = (1 << self.n) - 1
        self._leaf = {}

        def rank(i):
            c = self.syms[i]
            o = c[0] if isinstance(c, bytes) else ord(c)
            ch = chr(o)
            if o < 128 and ch.isalnum():
                return (0, o)
            if 33 <= o < 127:
                return (1, o)
            if o == 32:
                return (2, o)
            return (3, o)
        self.rank = [rank(i) for i in range(self.n)]

    def rep_of(self, mask):
        """nicest symbol of a non-empty class given as a bitmask"""
        best = None
        i = 0
        m = mask
        while m:
            if m & 1 and (best is None or self.rank[i] < self.rank[best]):
                best = i
            m >>= 1
            i += 1
        return best

    def mask_of(self, pred):
        m = 0
        for i, c in enumerate(self.syms):
            if pred(c):
                m |= 1 << i
        return m

    def leaf(self, item, flags):
        key = (repr(item), flags & (re.I | re.S | re.A | re.U | re.M | re.L))
        m = self._leaf.get(key)
        if m is None:
            st = _P.State()
            st.flags = flags
            if self.kind == 'bytes':
                st.str = b''
            sp = _P.SubPattern(st, [item])
            try:
                pat = _C.compile(sp, flags)
            except Exception as e:   # pylint: disable=broad-except
                raise AnalysisError('cannot compile regex leaf %r: %s' % (item, e))
            m = 0
            for i, c in enumerate(self.syms):
                if pat.fullmatch(c):
                    m |= 1 << i
            self._leaf[key] = m
        return m

    def show(self, i):
        return self.syms[i]


_ALPHA = {}


def alphabet(kind='str'):
    if kind not in _ALPHA:
        _ALPHA[kind] = Alphabet(kind)
    return _ALPHA[kind]


# ------------------------------------------------------------------------------------------------
# NFA from the parse tree


class NFA:
    def __init__(self):
        self.eps = []
        self.tr = []     # [(mask, dst)]
        self.mk = []     # [(marker, dst)]   marker = ('open'|'close', group) or ('at', name)

    def new(self):
        self.eps.append([])
        self.tr.append([])
        self.mk.append([])
        return len(self.eps) - 1


def _one_char_mask(sub, flags, alpha):
    """symbol mask when the sequence is a single one-character item, else None"""
    items = list(sub)
    if len(items) == 1 and str(items[0][0]) in ('LITERAL', 'NOT_LITERAL', 'ANY', 'IN'):
        return alpha.leaf(items[0], flags)
    return None


def _compile_seq(nfa, seq, flags, cur, wanted, alpha):
    look = None          # (mask, positive) of a one-character look-ahead that restricts the next consumed character
    for op, av in seq:
        ops = str(op)
        if ops in ('ASSERT', 'ASSERT_NOT') and av[0] == 1:
            # (?=[set]) / (?![set]) in front of an item that consumes a character: that character is taken from the restricted set.
            # Only this one-character form is modelled.
            m = _one_char_mask(av[1], flags, alpha)
            if m is None:
                raise AnalysisError('unsupported regex construct: %s of more than one character' % ops)
            if look is not None:
                n = nfa.new()
                nfa.mk[cur].append((('look', look[0], look[1]), n))
                cur = n
            look = (m, ops == 'ASSERT')
            continue
        if look is not None:
            m, positive = look
            look = None
            restrict = (lambda x: x & m) if positive else (lambda x: x & ~m)
            if ops in ('LITERAL', 'NOT_LITERAL', 'ANY', 'IN'):
                n = nfa.new()
                nfa.tr[cur].append((restrict(alpha.leaf((op, av), flags)), n))
                cur = n
                continue
            if ops in ('MAX_REPEAT', 'MIN_REPEAT') and av[0] >= 1 and _one_char_mask(av[2], flags, alpha) is not None:
                lo, hi, sub = av
                n = nfa.new()
                nfa.tr[cur].append((restrict(_one_char_mask(sub, flags, alpha)), n))
                cur = n
                rest = (op, (lo - 1, hi if hi == MAXREPEAT else hi - 1, sub))
                cur = _compile_seq(nfa, [rest], flags, cur, wanted, alpha)
                continue
            # in front of anything else (an item that may be empty, a group): an edge that leaves a promise about the next character of
            # the rest of the input, whoever consumes it
            n = nfa.new()
            nfa.mk[cur].append((('look', m, positive), n))
            cur = n
        if ops in ('LITERAL', 'NOT_LITERAL', 'ANY', 'IN'):
            n = nfa.new()
            nfa.tr[cur].append((alpha.leaf((op, av), flags), n))
            cur = n
        elif ops == 'SUBPATTERN':
            g, addf, delf, sub = av
            f2 = (flags | addf) & ~delf
            n0 = nfa.new()
            if g is not None and g in wanted:
                nfa.mk[cur].append((('open', g), n0))
            else:
                nfa.eps[cur].append(n0)
            e = _compile_seq(nfa, sub, f2, n0, wanted, alpha)
            n1 = nfa.new()
            if g is not None and g in wanted:
                nfa.mk[e].append((('close', g), n1))
            else:
                nfa.eps[e].append(n1)
            cur = n1
        elif ops == 'BRANCH':
            end = nfa.new()
            for alt in av[1]:
                a0 = nfa.new()
                nfa.eps[cur].append(a0)
                e = _compile_seq(nfa, alt, flags, a0, wanted, alpha)
                nfa.eps[e].append(end)
            cur = end
        elif ops in ('MAX_REPEAT', 'MIN_REPEAT', 'POSSESSIVE_REPEAT'):
            if ops == 'POSSESSIVE_REPEAT':
                raise AnalysisError('unsupported regex construct: possessive repeat')
            lo, hi, sub = av
            if lo > 64 or (hi != MAXREPEAT and hi > 64):
                raise AnalysisError('repeat bound too large for the analyser')
            if wanted and hi > 1 and _has_wanted_group(sub, wanted):
                # a capturing group that is the whole body of a repeat keeps the text of its LAST iteration:
                # (G){lo,hi}  ==  [ (?:G){max(lo-1,0),hi-1} (G) ]  (the bracket optional when lo == 0)
                items = list(sub)
                if not (len(items) == 1 and str(items[0][0]) == 'SUBPATTERN' and items[0][1][0] in wanted
                        and not _has_wanted_group(items[0][1][3], wanted)):
                    raise AnalysisError('a group that is read by the code sits inside a repeat')
                end = nfa.new()
                if lo == 0:
                    nfa.eps[cur].append(end)
                lo2 = max(lo - 1, 0)
                for _ in range(lo2):
                    cur = _compile_seq(nfa, sub, flags, cur, frozenset(), alpha)
                if hi == MAXREPEAT:
                    loop = nfa.new()
                    nfa.eps[cur].append(loop)
                    e = _compile_seq(nfa, sub, flags, loop, frozenset(), alpha)
                    nfa.eps[e].append(loop)
                    cur = loop
                    last = _compile_seq(nfa, sub, flags, cur, wanted, alpha)
                    nfa.eps[last].append(end)
                else:
                    starts = [cur]
                    for _ in range(hi - 1 - lo2):
                        cur = _compile_seq(nfa, sub, flags, cur, frozenset(), alpha)
                        starts.append(cur)
                    for s0 in starts:
                        last = _compile_seq(nfa, sub, flags, s0, wanted, alpha)
                        nfa.eps[last].append(end)
                cur = end
                continue
            for _ in range(lo):
                cur = _compile_seq(nfa, sub, flags, cur, wanted, alpha)
            if hi == MAXREPEAT:
                loop = nfa.new()
                nfa.eps[cur].append(loop)
                e = _compile_seq(nfa, sub, flags, loop, wanted, alpha)
                nfa.eps[e].append(loop)
                cur = loop
            else:
                end = nfa.new()
                nfa.eps[cur].append(end)
                for _ in range(hi - lo):
                    cur = _compile_seq(nfa, sub, flags, cur, wanted, alpha)
                    nfa.eps[cur].append(end)
                cur = end
        elif ops == 'AT':
            n = nfa.new()
            nfa.mk[cur].append((('at', str(av)), n))
            cur = n
        else:
            raise AnalysisError('unsupported regex construct: %s' % ops)
    if look is not None:
        n = nfa.new()
        nfa.mk[cur].append((('look', look[0], look[1]), n))
        cur = n
    return cur


def _has_wanted_group(seq, wanted):
    for op, av in seq:
        ops = str(op)
        if ops == 'SUBPATTERN':
            if av[0] in wanted or _has_wanted_group(av[3], wanted):
                return True
        elif ops == 'BRANCH':
            if any(_has_wanted_group(a, wanted) for a in av[1]):
                return True
        elif ops in ('MAX_REPEAT', 'MIN_REPEAT'):
            if av[1] > 1 and _has_wanted_group(av[2], wanted):
                return True
    return False


def parse(pattern, flags=0):
    try:
        return _P.parse(pattern, flags)
    except re.error as e:
        raise AnalysisError('regex does not parse: %r: %s' % (pattern, e))


# ------------------------------------------------------------------------------------------------
# DFA


def split_classes(classes, masks):
    """refine a partition (list of bitmasks) by every mask"""
    for m in masks:
        new = []
        for c in classes:
            a = c & m
            b = c & ~m
            if a:
                new.append(a)
            if b:
                new.append(b)
        classes = new
    return classes


def members(mask):
    out = []
    i = 0
    while mask:
        if mask & 1:
            out.append(i)
        mask >>= 1
        i += 1
    return out


class Lang:
    """complete DFA over alpha.n + len(markers) symbols; state 0 is initial"""

    def __init__(self, trans, acc, alpha, markers=()):
        self.trans = trans
        self.acc = acc
        self.alpha = alpha
        self.markers = list(markers)
        self.nsyms = alpha.n + len(self.markers)
        self._classes = None

    def classes(self):
        """partition of Σ (bitmasks) into symbols with identical behaviour in every state"""
        if self._classes is None:
            nA = self.alpha.n
            by = {}
            cols = list(zip(*[row[:nA] for row in self.trans])) if self.trans else []
            for sym, col in enumerate(cols):
                by[col] = by.get(col, 0) | (1 << sym)
            self._classes = list(by.values())
        return self._classes

    def _groups_with(self, o=None):
        """[(representative symbol, [member symbols])] for Σ, refined with the classes of `o`; markers singly"""
        cl = self.classes()
        if o is None and getattr(self, '_groups0', None) is not None:
            return self._groups0
        if o is not None:
            cl = split_classes(cl, o.classes())
        out = [(self.alpha.rep_of(c), members(c)) for c in cl]
        out.sort(key=lambda g: self.alpha.rank[g[0]])
        for k in range(len(self.markers)):
            out.append((self.alpha.n + k, [self.alpha.n + k]))
        if o is None:
            self._groups0 = out
        return out

    # -- presentation
    def symname(self, i):
        if i < self.alpha.n:
            return self.alpha.show(i)
        k, g = self.markers[i - self.alpha.n]
        return ('⟨%s:' % g) if k == 'open' else (':%s⟩' % g)

    def render(self, syms):
        if self.alpha.kind == 'bytes':
            out = []
            for s in syms:
                n = self.symname(s)
                out.append(n.decode('latin-1') if isinstance(n, bytes) else n)
            return ''.join(out)
        return ''.join(self.symname(s) for s in syms)

    # -- algebra
    def _compat(self, o):
        if self.alpha is not o.alpha or self.markers != o.markers:
            raise AnalysisError('internal: incompatible automata')

    def complement(self):
        return Lang(self.trans, [not a for a in self.acc], self.alpha, self.markers)

    def product(self, o, f):
        self._compat(o)
        idx = {(0, 0): 0}
        order = [(0, 0)]
        trans, acc = [], []
        i = 0
        ta, tb = self.trans, o.trans
        n = self.nsyms
        groups = self._groups_with(o)
        while i < len(order):
            a, b = order[i]
            i += 1
            row = [0] * n
            ra, rb = ta[a], tb[b]
            for r, mem in groups:
                q = (ra[r], rb[r])
                k = idx.get(q)
                if k is None:
                    k = idx[q] = len(order)
                    order.append(q)
                for s in mem:
                    row[s] = k
            trans.append(row)
            acc.append(f(self.acc[a], o.acc[b]))
        res = Lang(trans, acc, self.alpha, self.markers)
        return res

    def intersect(self, o):
        return self.product(o, lambda x, y: x and y)

    def union(self, o):
        return self.product(o, lambda x, y: x or y)

    def minus(self, o):
        return self.product(o, lambda x, y: x and not y)

    def witness(self):
        """shortest accepted string (as text) or None when the language is empty"""
        seen = {0: None}
        dq = deque([0])
        groups = self._groups_with()
        while dq:
            p = dq.popleft()
            if self.acc[p]:
                out = []
                while seen[p] is not None:
                    p, s = seen[p]
                    out.append(s)
                return self.render(reversed(out))
            row = self.trans[p]
            for s, _mem in groups:
                q = row[s]
                if q not in seen:
                    seen[q] = (p, s)
                    dq.append(q)
        return None

    def is_empty(self):
        return self.witness() is None

    def not_subset_witness(self, o):
        """shortest string in self \\ o, or None if self ⊆ o"""
        self._compat(o)
        seen = {(0, 0): None}
        dq = deque([(0, 0)])
        ta, tb, aa, ab = self.trans, o.trans, self.acc, o.acc
        groups = self._groups_with(o)
        while dq:
            p = dq.popleft()
            if aa[p[0]] and not ab[p[1]]:
                out = []
                while seen[p] is not None:
                    p, s = seen[p]
                    out.append(s)
                return self.render(reversed(out))
            ra, rb = ta[p[0]], tb[p[1]]
            for s, _mem in groups:
                q = (ra[s], rb[s])
                if q not in seen:
                    seen[q] = (p, s)
                    dq.append(q)
        return None

    def common_witness(self, o):
        return self.intersect(o).witness()

    def equiv_witness(self, o):
        w = self.not_subset_witness(o)
        if w is not None:
            return ('left-only', w)
        w = o.not_subset_witness(self)
        if w is not None:
            return ('right-only', w)
        return None

    def accepts(self, text):
        """membership of a concrete string over the symbolic alphabet (analyser self-test only)"""
        q = 0
        for ch in (text if self.alpha.kind == 'str' else [bytes([b]) for b in text]):
            i = self.alpha.idx.get(ch)
            if i is None:
                raise KeyError(ch)
            q = self.trans[q][i]
        return self.acc[q]

    def nstates(self):
        return len(self.trans)


def _determinise(alpha, markers, start, step, accepting, classes=None):
    """subset-construction driver.  `classes`: partition of Σ (bitmasks) into symbols on which `step`
    is known to behave identically (None: every symbol on its own)"""
    nA = alpha.n
    nsyms = nA + len(markers)
    if classes is None:
        groups = [(i, [i]) for i in range(nA)]
    else:
        groups = [(alpha.rep_of(c), members(c)) for c in classes]
        if sum(len(m) for _, m in groups) != nA:
            raise AnalysisError('internal: symbol classes do not partition the alphabet')
    groups += [(nA + k, [nA + k]) for k in range(len(markers))]
    states = {start: 0}
    order = [start]
    trans, acc = [], []
    i = 0
    while i < len(order):
        S = order[i]
        i += 1
        row = [0] * nsyms
        cache = {}
        for r, mem in groups:
            T = step(S, r, cache)
            k = states.get(T)
            if k is None:
                k = states[T] = len(order)
                order.append(T)
                if len(order) > 200000:
                    raise AnalysisError('automaton too large')
            for sym in mem:
                row[sym] = k
        trans.append(row)
        acc.append(accepting(S))
    return Lang(trans, acc, alpha, markers)


_RL_CACHE = {}


def regex_lang(pattern, flags=0, mode='match', groups=(), markers=None, alpha=None):
    key = (pattern, int(flags), mode, tuple(groups), None if markers is None else tuple(markers), id(alpha) if alpha is not None else None)
    r = _RL_CACHE.get(key)
    if r is None:
        r = _RL_CACHE[key] = _regex_lang(pattern, flags, mode, groups, markers, alpha)
    return r


def _regex_lang(pattern, flags=0, mode='match', groups=(), markers=None, alpha=None):
    """DFA of { s : re.<mode>(pattern, s) succeeds }  (mode: match | fullmatch | search).

    With `groups` (names or numbers) the language is over Σ ∪ markers and contains, for every
    successful parse, the string with ⟨g: / :g⟩ inserted where that parse opens/closes group g.
    """
    kind = 'bytes' if isinstance(pattern, bytes) else 'str'
    alpha = alpha or alphabet(kind)
    if alpha.kind != kind:
        raise AnalysisError('pattern/alphabet kind mismatch')
    if kind == 'str' and not flags & re.ASCII:
        flags |= re.UNICODE
    tree = parse(pattern, flags)
    flags = tree.state.flags
    gd = tree.state.groupdict
    num_of = {}
    for g in groups:
        if isinstance(g, int):
            if g >= tree.state.groups:
                raise AnalysisError('regex has no group %d' % g)
            num_of[g] = g
        else:
            if g not in gd:
                raise AnalysisError('regex has no group %r' % g)
            num_of[g] = gd[g]
    name_of = {v: k for k, v in num_of.items()}
    wanted = set(num_of.values())
    nfa = NFA()
    s0 = nfa.new()
    accq = _compile_seq(nfa, tree, flags, s0, wanted, alpha)
    if markers is None:
        markers = [(k, g) for g in groups for k in ('open', 'close')]
    markers = list(markers)
    ML = bool(flags & re.MULTILINE)
    NL = alpha.idx['\n' if kind == 'str' else b'\n']
    nA = alpha.n
    SEARCH = -1   # pseudo NFA state: "still skipping the prefix" (search mode)

    # configuration = (q, promise)  promise: None | 'E' rest in {'', '\n'} | 'Z' rest == '' |
    #                                        'L' rest == '' or starts with '\n' | 'T' matched, rest free
    def closure(confs, ctx):
        """ctx: 'S' at position 0, 'N' after a newline, 'M' otherwise"""
        stack = list(confs)
        seen = set(confs)
        while stack:
            q, pr = stack.pop()
            if pr == 'T':
                continue
            if q == SEARCH:
                c = (s0, pr)
                if c not in seen:
                    seen.add(c)
                    stack.append(c)
                continue
            nxt = [(n, pr) for n in nfa.eps[q]]
            for mk, n in nfa.mk[q]:
                if mk[0] == 'look':
                    np = _meet(pr, ('A', mk[1] if mk[2] else alpha.full & ~mk[1], not mk[2]), 1 << NL)
                    if np is not False:
                        nxt.append((n, np))
                    continue
                if mk[0] != 'at':
                    continue
                a = mk[1]
                if a == 'AT_BEGINNING':
                    if ctx == 'S' or (ML and ctx == 'N'):
                        nxt.append((n, pr))
                elif a == 'AT_BEGINNING_STRING':
                    if ctx == 'S':
                        nxt.append((n, pr))
                elif a == 'AT_END':
                    want = 'L' if ML else 'E'
                    np = _meet(pr, want, 1 << NL)
                    if np is not False:
                        nxt.append((n, np))
                elif a == 'AT_END_STRING':
                    np = _meet(pr, 'Z', 1 << NL)
                    if np is not False:
                        nxt.append((n, np))
                else:
                    raise AnalysisError('unsupported regex anchor %s' % a)
            for c in nxt:
                if c not in seen:
                    seen.add(c)
                    stack.append(c)
        if mode in ('match', 'search'):
            # a finished match leaves the rest of the input free (subject to its promise)
            for (q, pr) in list(seen):
                if q == accq and pr is None:
                    seen.add((accq, 'T'))
        return frozenset(seen)

    start = closure({(SEARCH if mode == 'search' else s0, None)}, 'S')

    def step(S, sym, cache):
        out = set()
        if sym >= nA:
            mk = markers[sym - nA]
            for (q, pr) in S:
                if q == 'CTX' or q == SEARCH or pr == 'T':
                    # markers do not belong to the unmatched prefix/suffix
                    continue
                for (m2, n) in nfa.mk[q]:
                    if m2[0] != 'at' and (m2[0], name_of.get(m2[1], m2[1])) == mk:
                        out.add((n, pr))
            if not out:
                return frozenset()
            # ctx is irrelevant for anchors right after a marker only if no char was consumed in
            # between; we keep the ctx of the last consumed symbol by storing it in the state set
            ctx = 'M'
            for (q, pr) in S:
                if q == 'CTX':
                    ctx = pr
            T = closure(out, ctx)
            return T | frozenset([('CTX', ctx)])
        ctx = 'N' if sym == NL else 'M'
        for (q, pr) in S:
            if q == 'CTX':
                continue
            if pr == 'T':
                out.add((q, 'T'))
                continue
            if q == SEARCH:
                out.add((SEARCH, None))
                continue
            if pr == 'Z':
                continue
            if pr == 'E':
                if sym != NL:
                    continue
                # the final newline is either consumed by the regex or left over
                for (mask, n) in nfa.tr[q]:
                    if mask >> sym & 1:
                        out.add((n, 'Z'))
                if q == accq and mode != 'fullmatch':
                    out.add((accq, 'Z'))
                continue
            if pr == 'L':
                if sym != NL:
                    continue
                for (mask, n) in nfa.tr[q]:
                    if mask >> sym & 1:
                        out.add((n, None))
                if q == accq and mode != 'fullmatch':
                    out.add((accq, 'T'))
                continue
            if isinstance(pr, tuple):
                # ('A', allowed, end): a look-ahead's promise about this character
                if not (pr[1] >> sym & 1):
                    continue
                if q == accq and mode != 'fullmatch':
                    out.add((accq, 'T'))
            for (mask, n) in nfa.tr[q]:
                if mask >> sym & 1:
                    out.add((n, None))
        if not out:
            return frozenset()
        T = closure(out, ctx)
        if markers:
            T = T | frozenset([('CTX', ctx)])
        return T

    if markers:
        start = start | frozenset([('CTX', 'S')])

    def accepting(S):
        for (q, pr) in S:
            if q == accq and not (isinstance(pr, tuple) and not pr[2]):
                return True
        return False

    masks = {m for trs in nfa.tr for (m, _n) in trs}
    masks |= {mk[1] for mks in nfa.mk for (mk, _n) in mks if mk[0] == 'look'}
    masks.add(1 << NL)
    classes = split_classes([alpha.full], masks)
    return _determinise(alpha, markers, start, step, accepting, classes)


def _meet(pr, want, nl=0):
    """combine an existing promise about the rest of the input with a new one"""
    if pr is None:
        return want
    if pr == want:
        return pr
    if isinstance(pr, tuple) or isinstance(want, tuple):
        # ('A', allowed, end): the rest is empty (if end) or begins with a character of `allowed`
        if isinstance(pr, tuple) and isinstance(want, tuple):
            a, e = pr[1] & want[1], pr[2] and want[2]
            return ('A', a, e) if (a or e) else False
        look, other = (pr, want) if isinstance(pr, tuple) else (want, pr)
        _a, allowed, end = look
        newline = bool(allowed & nl)
        if other == 'Z':                      # rest == ''
            return 'Z' if end else False
        if other in ('E', 'L'):               # rest in {'', '\n'}  /  rest == '' or begins with '\n'
            if end and newline:
                return other
            if end:
                return 'Z'
            if not newline:
                return False
            raise AnalysisError('unsupported regex construct: a look-ahead that demands the newline in front of the end of the line')
        return False
    order = {'Z': 0, 'E': 1, 'L': 2}
    if pr in order and want in order:
        return pr if order[pr] < order[want] else want
    return False


def from_function(alpha, markers, start, step, accepting, classes=None):
    """hand-specified deterministic automaton: step(state, symbol_index) -> state (hashable)"""
    return _determinise(alpha, list(markers), start, lambda S, sym, cache: step(S, sym), accepting, classes)


def sigma_star(alpha, markers=()):
    return from_function(alpha, markers, 0, lambda s, sym: 0, lambda s: True, [alpha.full])


def erase_markers(lang):
    """project a marked language onto Σ (markers become ε) and determinise"""
    nA = lang.alpha.n
    nM = len(lang.markers)

    def clo(states):
        st = list(states)
        seen = set(states)
        while st:
            q = st.pop()
            for m in range(nM):
                t = lang.trans[q][nA + m]
                if t not in seen:
                    seen.add(t)
                    st.append(t)
        return frozenset(seen)

    start = clo({0})

    def step(S, sym, cache):
        return clo({lang.trans[q][sym] for q in S})

    return _determinise(lang.alpha, [], start, step, lambda S: any(lang.acc[q] for q in S), lang.classes())


def capture_agreement(reader, rflags, rmode, template, tflags, groups, alpha=None, rgroups=None):
    """Reader/writer agreement with groups.

    `template` is a regex (writer template) whose named groups `groups` are the slots;
    `rgroups` maps slot name -> reader group (name or number), default identity.
    Returns (w1, w2): w1 = a string the writer can emit that the reader does not accept;
    w2 = a marked string showing a reader parse that puts a group boundary elsewhere than the
    writer put the slot boundary.  (None, None) = agreement.
    """
    rgroups = rgroups or {g: g for g in groups}
    markers = [(k, g) for g in groups for k in ('open', 'close')]
    kind = 'bytes' if isinstance(reader, bytes) else 'str'
    alpha = alpha or alphabet(kind)
    Tm = regex_lang(template, tflags, 'fullmatch', groups, markers, alpha)
    Te = regex_lang(template, tflags, 'fullmatch', (), [], alpha)
    return agreement(reader, rflags, rmode, Tm, Te, groups, rgroups, alpha)


def marked_reader(reader, rflags, rmode, groups, rgroups=None, alpha=None):
    """(Rm, Re): the reader's marked language restricted to the parses backtracking can choose
    (lazy/greedy single-character tails, leading greedy optional groups), and its plain language"""
    rgroups = rgroups or {g: g for g in groups}
    markers = [(k, g) for g in groups for k in ('open', 'close')]
    kind = 'bytes' if isinstance(reader, bytes) else 'str'
    alpha = alpha or alphabet(kind)
    Rm = _renamed(regex_lang(reader, rflags, rmode, [rgroups[g] for g in groups], None, alpha), markers)
    Re = regex_lang(reader, rflags, rmode, (), [], alpha)
    for g in groups:
        k = tail_kind(reader, rflags, rgroups[g])
        if k is not None:
            Rm = prune_tail(Rm, g, k)
    inv = {v: k for k, v in rgroups.items()}
    for rg in first_optional_groups(reader, rflags, set(rgroups.values())):
        g = inv[rg]
        part = has_group(alpha, markers, g)
        with_g = erase_markers(Rm.intersect(part))
        # backtracking tries the participating alternative of a leading greedy optional first:
        # a parse without it is never chosen for a string that also has a parse with it
        Rm = Rm.minus(part.complement().intersect(lift(with_g, markers)))
    return Rm, Re


def agreement(reader, rflags, rmode, Tm, Te, groups, rgroups=None, alpha=None):
    """capture agreement against a template given as automata (Tm marked, Te erased)"""
    rgroups = rgroups or {g: g for g in groups}
    markers = [(k, g) for g in groups for k in ('open', 'close')]
    kind = 'bytes' if isinstance(reader, bytes) else 'str'
    alpha = alpha or alphabet(kind)
    if Tm.markers != markers:
        raise AnalysisError('internal: template markers differ from the requested groups')
    Rm, Re = marked_reader(reader, rflags, rmode, groups, rgroups, alpha)
    w1 = Te.not_subset_witness(Re)
    nA = alpha.n
    seen = {(0, 0, 0): None}
    dq = deque([(0, 0, 0)])
    w2 = None
    nS = nA + len(markers)
    cl = split_classes(split_classes(Rm.classes(), Tm.classes()), Te.classes())
    agree_syms = sorted((alpha.rep_of(c) for c in cl), key=lambda i: alpha.rank[i]) + list(range(nA, nS))
    while dq:
        p = dq.popleft()
        r, e, t = p
        if Rm.acc[r] and Te.acc[e] and not Tm.acc[t]:
            out = []
            while seen[p] is not None:
                p, sym = seen[p]
                out.append(sym)
            w2 = Tm.render(reversed(out))
            break
        rr, tt = Rm.trans[r], Tm.trans[t]
        for sym in agree_syms:
            q = (rr[sym], Te.trans[e][sym] if sym < nA else e, tt[sym])
            if q not in seen:
                seen[q] = (p, sym)
                dq.append(q)
    return w1, w2


def _renamed(lang, markers):
    """reader automaton was built with its own group ids as marker names; positions coincide"""
    if len(lang.markers) != len(markers):
        raise AnalysisError('internal: marker count mismatch')
    return Lang(lang.trans, lang.acc, lang.alpha, markers)


def literal(text):
    """regex source text matching exactly `text`"""
    return re.escape(text)


# ---- languages over Σ ∪ markers used to express conditions on groups ---------------------------

def has_group(alpha, markers, g):
    """marked strings in which group g participates"""
    markers = list(markers)
    k = alpha.n + markers.index(('open', g))
    return from_function(alpha, markers, 0, lambda s, sym: 1 if (s == 1 or sym == k) else 0, lambda s: s == 1, [alpha.full])


def group_content(alpha, markers, g, lang):
    """marked strings in which g participates and its content (other markers erased) is in `lang`"""
    markers = list(markers)
    ko = alpha.n + markers.index(('open', g))
    kc = alpha.n + markers.index(('close', g))
    nA = alpha.n

    def step(s, sym):
        ph, q = s
        if ph == 'dead':
            return s
        if sym == ko:
            return ('in', 0) if ph == 'before' else ('dead', 0)
        if sym == kc:
            if ph == 'in':
                return ('ok', 0) if lang.acc[q] else ('bad', 0)
            return ('dead', 0)
        if ph == 'in' and sym < nA:
            return ('in', lang.trans[q][sym])
        return s
    return from_function(alpha, markers, ('before', 0), step, lambda s: s[0] == 'ok', lang.classes())


def lift(lang, markers):
    """an unmarked language as a language over Σ ∪ markers (markers ignored)"""
    markers = list(markers)
    nA = lang.alpha.n
    trans = [row[:nA] + [q] * len(markers) for q, row in enumerate(lang.trans)]
    res = Lang(trans, list(lang.acc), lang.alpha, markers)
    res._classes = lang._classes
    return res


# ---- line-level operators on a language of whole texts ------------------------------------------

def _coacc(lang):
    rev = {}
    for q, row in enumerate(lang.trans):
        for t in set(row):
            rev.setdefault(t, set()).add(q)
    seen = {q for q, a in enumerate(lang.acc) if a}
    st = list(seen)
    while st:
        x = st.pop()
        for y in rev.get(x, ()):
            if y not in seen:
                seen.add(y)
                st.append(y)
    return seen


def _reach(lang):
    seen = {0}
    st = [0]
    while st:
        x = st.pop()
        for y in set(lang.trans[x]):
            if y not in seen:
                seen.add(y)
                st.append(y)
    return seen


def lines_of(lang, which='rest', universal_newlines=False):
    """language of the lines of the texts of `lang`.

    which: 'first' | 'rest' (every line but the first) | 'all'.
    universal_newlines False: lines end at '\\n' only (file iteration);
    True: str.splitlines() restricted to the boundaries \\n, \\r, \\r\\n (the only ones inside the
    analysed domains).  A final unterminated empty piece is not a line.  Markers pass through."""
    alpha = lang.alpha
    nl = alpha.idx['\n' if alpha.kind == 'str' else b'\n']
    cr = alpha.idx['\r' if alpha.kind == 'str' else b'\r']
    bnd = [nl, cr] if universal_newlines else [nl]
    co = _coacc(lang)
    live = _reach(lang) & co
    starts = set()
    if which in ('first', 'all'):
        starts.add((0, False, True))
    if which in ('rest', 'all'):
        for p in live:
            for b in bnd:
                t = lang.trans[p][b]
                if t in co:
                    starts.add((t, universal_newlines and b == cr, True))
    nA = alpha.n

    def step(S, sym):
        if sym in bnd:
            return frozenset()
        out = set()
        for (q, f, e) in S:
            t = lang.trans[q][sym]
            if t in co:
                out.add((t, f, e if sym >= nA else False))
        return frozenset(out)

    def accepting(S):
        for (q, f, e) in S:
            if lang.acc[q] and not e:
                return True
            for b in bnd:
                if lang.trans[q][b] in co and not (e and f and b == nl):
                    return True
        return False
    return from_function(alpha, lang.markers, frozenset(starts), step, accepting,
                         split_classes(lang.classes(), [1 << b for b in bnd]))


def strip_lang(lang, chars):
    """{ w.strip(chars) : w in lang }"""
    alpha = lang.alpha
    cs = [alpha.idx[c] for c in chars]
    nA = alpha.n

    def clo(states):
        st = list(states)
        seen = set(states)
        while st:
            q = st.pop()
            for c in cs:
                t = lang.trans[q][c]
                if t not in seen:
                    seen.add(t)
                    st.append(t)
        return seen
    # states from which an accepting state is reachable through chars* only
    fin = {q for q, a in enumerate(lang.acc) if a}
    changed = True
    while changed:
        changed = False
        for q in range(len(lang.trans)):
            if q not in fin and any(lang.trans[q][c] in fin for c in cs):
                fin.add(q)
                changed = True
    start = (frozenset(clo({0})), 'start')

    def step(S, sym):
        qs, ph = S
        if ph == 'dead':
            return S
        if ph == 'start' and sym in cs:
            return (frozenset(), 'dead')      # result must not start with a stripped char
        nq = frozenset(lang.trans[q][sym] for q in qs)
        if sym >= nA:
            return (nq, ph)
        return (nq, 'endc' if sym in cs else 'mid')

    def accepting(S):
        qs, ph = S
        if ph in ('dead', 'endc'):
            return False
        return any(q in fin for q in qs)
    return from_function(alpha, lang.markers, start, step, accepting, split_classes(lang.classes(), [1 << c for c in cs]))


def bytes_pattern_as_str(pattern):
    """A bytes regex viewed as a str regex (with re.ASCII) over UTF-8 decoded text.  Sound only when
    every leaf that accepts a byte >= 0x80 accepts all of them and sits alone under an unbounded
    repeat (so "one non-ASCII character" and "its UTF-8 bytes" are interchangeable)."""
    if not isinstance(pattern, bytes):
        return pattern
    if any(b >= 0x80 for b in pattern):
        raise AnalysisError('bytes regex with non-ASCII literal')
    tree = parse(pattern, 0)
    A = alphabet('bytes')
    hi = sum(1 << i for i in range(128, 256))

    def walk(seq, under_star):
        for op, av in seq:
            ops = str(op)
            if ops in ('LITERAL', 'NOT_LITERAL', 'ANY', 'IN'):
                m = A.leaf((op, av), tree.state.flags) & hi
                if m and (m != hi or not (under_star and len(seq) == 1)):
                    raise AnalysisError('bytes regex %r is not liftable to text (leaf on high bytes)' % pattern)
            elif ops == 'SUBPATTERN':
                walk(av[3], under_star and len(seq) == 1)
            elif ops == 'BRANCH':
                for a in av[1]:
                    walk(a, False)
            elif ops in ('MAX_REPEAT', 'MIN_REPEAT'):
                walk(av[2], av[1] == MAXREPEAT)
    walk(tree, False)
    return pattern.decode('ascii')


# ---- backtracking priority for a group that ends in a lazy / greedy single-character repeat -------

def tail_kind(pattern, flags, group):
    """'lazy' / 'greedy' when the body of `group` is <fixed-length single-char leaves> followed by an
    unbounded MIN_/MAX_REPEAT of one single-char leaf and the group is a direct element of the
    top-level sequence (possibly inside optional wrappers); else None."""
    tree = parse(pattern, flags)
    gd = tree.state.groupdict
    gnum = gd.get(group, group) if not isinstance(group, int) else group

    def find(seq):
        for op, av in seq:
            ops = str(op)
            if ops == 'SUBPATTERN':
                if av[0] == gnum:
                    return av[3]
                r = find(av[3])
                if r is not None:
                    return r
            elif ops in ('MAX_REPEAT', 'MIN_REPEAT') and av[1] == 1:
                r = find(av[2])
                if r is not None:
                    return r
        return None
    body = find(tree)
    if body is None or len(body) == 0:
        return None
    items = list(body)
    for op, av in items[:-1]:
        if str(op) not in ('LITERAL', 'NOT_LITERAL', 'ANY', 'IN'):
            return None
    op, av = items[-1]
    if str(op) in ('MIN_REPEAT', 'MAX_REPEAT') and av[1] == MAXREPEAT and len(av[2]) == 1 \
            and str(av[2][0][0]) in ('LITERAL', 'NOT_LITERAL', 'ANY', 'IN'):
        return 'lazy' if str(op) == 'MIN_REPEAT' else 'greedy'
    return None


def prune_tail(Rm, g, kind):
    """remove from the marked language Rm the parses that backtracking can never choose because
    another parse with the same markers up to ⟨g closes g earlier (lazy) / later (greedy)."""
    alpha = Rm.alpha
    nA = alpha.n
    markers = Rm.markers
    kc = nA + markers.index(('close', g))
    nM = len(markers)
    co = _coacc(Rm)
    T = Rm.trans
    # NFA over the marked alphabet reading m; second component runs the competing parse m'
    # phase 0: in sync; 1: competitor is "ahead"/"behind" (one of the two has closed g, the other not yet,
    #          at least... ) ; 2: both closed, free markers for the competitor
    # lazy : competitor closes first.   greedy: m closes first (competitor later).
    def eps_closure(states):
        st = list(states)
        seen = set(states)
        while st:
            q1, q2, ph, gap = st.pop()
            nxt = []
            if kind == 'lazy':
                if ph == 0:
                    t = T[q2][kc]
                    if t in co:
                        nxt.append((q1, t, 1, False))       # competitor closes g now, m later
                if ph == 1:
                    # the competitor, having closed g, goes on with its own markers (it may open and close later groups
                    # while m is still inside g)
                    for k in range(nM):
                        t = T[q2][nA + k]
                        if t in co and nA + k != kc:
                            nxt.append((q1, t, 1, gap))
                if ph == 2:
                    for k in range(nM):
                        t = T[q2][nA + k]
                        if t in co and nA + k != kc:
                            nxt.append((q1, t, 2, gap))
            else:
                if ph == 1 and gap:
                    t = T[q2][kc]
                    if t in co:
                        nxt.append((q1, t, 2, gap))          # competitor closes g later than m
                if ph == 2:
                    for k in range(nM):
                        t = T[q2][nA + k]
                        if t in co and nA + k != kc:
                            nxt.append((q1, t, 2, gap))
            for c in nxt:
                if c not in seen:
                    seen.add(c)
                    st.append(c)
        return frozenset(seen)

    def step(S, sym):
        out = set()
        for (q1, q2, ph, gap) in S:
            t1 = T[q1][sym]
            if t1 not in co:
                continue
            if sym < nA:
                t2 = T[q2][sym]
                if t2 in co:
                    out.add((t1, t2, ph, True if ph == 1 else gap))
            else:
                if ph == 0:
                    if sym == kc and kind == 'greedy':
                        out.add((t1, q2, 1, False))           # m closes g now, competitor later
                    else:
                        t2 = T[q2][sym]
                        if t2 in co:
                            out.add((t1, t2, 0, gap))
                elif ph == 1:
                    if kind == 'lazy':
                        if sym == kc:
                            if gap:
                                out.add((t1, q2, 2, gap))
                        # other markers of m while the competitor is ahead: m's own business
                        else:
                            out.add((t1, q2, 1, gap))
                    else:
                        out.add((t1, q2, 1, gap))
                else:
                    out.add((t1, q2, 2, gap))
        return eps_closure(out) if out else frozenset()

    def accepting(S):
        return any(ph == 2 and Rm.acc[q1] and Rm.acc[q2] for (q1, q2, ph, gap) in S)
    dominated = from_function(alpha, markers, eps_closure({(0, 0, 0, False)}), step, accepting, Rm.classes())
    return Rm.minus(dominated)



def first_optional_groups(pattern, flags, wanted):
    """groups (names/numbers in `wanted`) whose participation is decided first by backtracking priority:
    they sit directly in a greedy optional that is the first consuming element of the top-level sequence"""
    tree = parse(pattern, flags)
    gd = tree.state.groupdict
    names = {v: k for k, v in gd.items()}
    for op, av in tree:
        ops = str(op)
        if ops == 'AT':
            continue
        if ops == 'MAX_REPEAT' and av[0] == 0 and av[1] == 1:
            out = []

            def collect(seq):
                for o, a in seq:
                    o = str(o)
                    if o == 'SUBPATTERN':
                        nm = names.get(a[0], a[0])
                        if nm in wanted:
                            out.append(nm)
                        elif a[0] in wanted:
                            out.append(a[0])
                        collect(a[3])
                    elif o in ('MAX_REPEAT', 'MIN_REPEAT', 'BRANCH'):
                        return
            collect(av[2])
            return out
        return []
    return []


def quotient(lang, pre, suf):
    """{ x : pre + x + suf in lang }  (lang over Σ, no markers)"""
    alpha = lang.alpha
    q0 = 0
    for ch in pre:
        q0 = lang.trans[q0][alpha.idx[ch]]
    acc = set()
    for q in range(len(lang.trans)):
        t = q
        for ch in suf:
            t = lang.trans[t][alpha.idx[ch]]
        if lang.acc[t]:
            acc.add(q)
    return from_function(alpha, [], q0, lambda s, sym: lang.trans[s][sym], lambda s: s in acc, lang.classes())


def concat(A, B):
    """L(A)·L(B) for marker-free languages"""
    A._compat(B)
    if A.markers:
        raise AnalysisError('internal: concat of marked languages')

    def close(S):
        if any(t == 'a' and A.acc[q] for t, q in S):
            S = S | {('b', 0)}
        return frozenset(S)

    def step(S, sym):
        return close({('a', A.trans[q][sym]) if t == 'a' else ('b', B.trans[q][sym]) for t, q in S})
    return from_function(A.alpha, [], close({('a', 0)}), step, lambda S: any(t == 'b' and B.acc[q] for t, q in S),
                         classes=split_classes(A.classes(), B.classes()))


def star(A):
    """L(A)* for a marker-free language"""
    if A.markers:
        raise AnalysisError('internal: star of a marked language')

    def step(s, sym):
        first, S = s
        nxt = {A.trans[q][sym] for q in S}
        if any(A.acc[q] for q in nxt):
            nxt.add(0)
        return (False, frozenset(nxt))
    return from_function(A.alpha, [], (True, frozenset({0})), step, lambda s: s[0] or any(A.acc[q] for q in s[1]), classes=A.classes())

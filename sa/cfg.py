"""E1 -- statement-level control-flow graph, dominators, path queries, guard extraction."""
import ast
from collections import defaultdict, deque

from .core import AnalysisError, norm

_BUILTIN_EXC = {
    'KeyError': ['LookupError', 'Exception'], 'IndexError': ['LookupError', 'Exception'],
    'ValueError': ['Exception'], 'TypeError': ['Exception'], 'AttributeError': ['Exception'],
    'OSError': ['Exception'], 'IOError': ['OSError', 'Exception'], 'StopIteration': ['Exception'],
    'UnicodeError': ['ValueError', 'Exception'], 'UnicodeDecodeError': ['UnicodeError', 'ValueError', 'Exception'],
    'NotImplementedError': ['RuntimeError', 'Exception'], 'RuntimeError': ['Exception'],
    'AssertionError': ['Exception'], 'LookupError': ['Exception'], 'Exception': [],
}


class Node:
    __slots__ = ('id', 'kind', 'ast', 'label')

    def __init__(self, id_, kind, astnode=None, label=''):
        self.id = id_
        self.kind = kind          # entry exit raise_exit stmt test fortest return raise break continue
        self.ast = astnode        # handler dispatch finally join def with yield
        self.label = label

    @property
    def lineno(self):
        return getattr(self.ast, 'lineno', 0)

    def __repr__(self):
        return '<%d %s %s L%s>' % (self.id, self.kind, self.label, self.lineno)


class CFG:
    """CFG of one function.  Edge labels: True/False (tests), 'next'/'exhausted' (for),
    'raise', 'caught', 'uncaught', 'finally-exit:<k>'."""

    def __init__(self, fn, may_raise=None):
        self.fn = fn
        self.may_raise = may_raise     # callable(stmt) -> iterable of exception class names
        self.nodes = []
        self.succ = defaultdict(list)
        self.pred = defaultdict(list)
        self.entry = self.new('entry')
        self.exit = self.new('exit')
        self.raise_exit = self.new('raise_exit')
        self.loops = []    # (continue_target, break_target, finally_depth)
        self.tries = []    # stack of dicts(dispatch=id|None, fin=node|None)
        self.node_of = {}  # ast stmt -> node
        ends = self.seq(fn.body, [(self.entry.id, None)])
        for e, lab in ends:
            self.edge(e, self.exit.id, lab)
        self._dom = None
        self._pdom = None

    # -- construction helpers
    def new(self, kind, astnode=None, label=''):
        n = Node(len(self.nodes), kind, astnode, label)
        self.nodes.append(n)
        if astnode is not None and kind not in ('join', 'dispatch', 'finally', 'handler'):
            self.node_of.setdefault(astnode, n)
        return n

    def edge(self, a, b, label=None):
        if (b, label) not in self.succ[a]:
            self.succ[a].append((b, label))
            self.pred[b].append((a, label))

    def connect(self, frontier, node):
        for e, lab in frontier:
            self.edge(e, node.id, lab)

    def seq(self, stmts, frontier):
        for st in stmts:
            if not frontier:
                break
            frontier = self.stmt(st, frontier)
        return frontier

    def _exc_target(self):
        """where an exception raised here goes first: innermost dispatcher or finally"""
        for t in reversed(self.tries):
            if t.get('dispatch') is not None and t.get('in_body'):
                return t['dispatch']
            if t.get('fin') is not None:
                return t['fin_exc'].id
        return self.raise_exit.id

    def _through_finally(self, src, final_target, depth=0, label=None):
        """route a jump (return/break/continue) through the enclosing finally blocks above `depth`"""
        fins = [t for t in self.tries[depth:] if t.get('fin') is not None]
        if not fins:
            self.edge(src, final_target, label)
            return
        cur = src
        lab = label
        for t in reversed(fins):
            # a private copy of the finally body for this jump keeps paths precise
            ends = self._copy_finally(t, [(cur, lab)])
            if not ends:
                return
            join = self.new('join', None, 'after-finally-jump')
            self.connect(ends, join)
            cur, lab = join.id, None
        self.edge(cur, final_target, lab)

    def _copy_finally(self, t, frontier):
        saved = self.tries
        self.tries = self.tries[:self.tries.index(t)]
        try:
            n = self.new('finally', t['ast'], 'finally(jump)')
            self.connect(frontier, n)
            return self.seq(t['ast'].finalbody, [(n.id, None)])
        finally:
            self.tries = saved

    def _maybe_raise(self, node, st):
        if self.may_raise is None:
            return
        for exc in self.may_raise(st) or ():
            self.edge(node.id, self._exc_target(), 'raise:' + exc)

    # -- statements
    def stmt(self, st, frontier):
        if isinstance(st, ast.If):
            t = self.new('test', st.test, norm(st.test)[:60])
            self.node_of[st] = t
            self.connect(frontier, t)
            self._maybe_raise(t, st.test)
            a = self.seq(st.body, [(t.id, True)])
            b = self.seq(st.orelse, [(t.id, False)]) if st.orelse else [(t.id, False)]
            return a + b
        if isinstance(st, ast.While):
            t = self.new('test', st.test, 'while ' + norm(st.test)[:50])
            self.node_of[st] = t
            self.connect(frontier, t)
            brk = self.new('join', st, 'after-while')
            self.loops.append((t.id, brk.id, len(self.tries)))
            body_end = self.seq(st.body, [(t.id, True)])
            self.loops.pop()
            for e, lab in body_end:
                self.edge(e, t.id, lab)
            const_true = isinstance(st.test, ast.Constant) and bool(st.test.value)
            out = [] if const_true else [(t.id, False)]
            if st.orelse:
                out = self.seq(st.orelse, out)
            self.connect(out, brk)
            return [(brk.id, None)] if self.pred[brk.id] else []
        if isinstance(st, (ast.For, ast.AsyncFor)):
            it = self.new('stmt', st.iter, 'iter ' + norm(st.iter)[:50])
            self.connect(frontier, it)
            self._maybe_raise(it, st.iter)
            t = self.new('fortest', st, 'for ' + norm(st.target))
            self.node_of[st] = t
            self.edge(it.id, t.id)
            brk = self.new('join', st, 'after-for')
            self.loops.append((t.id, brk.id, len(self.tries)))
            body_end = self.seq(st.body, [(t.id, 'next')])
            self.loops.pop()
            for e, lab in body_end:
                self.edge(e, t.id, lab)
            out = [(t.id, 'exhausted')]
            if st.orelse:
                out = self.seq(st.orelse, out)
            self.connect(out, brk)
            return [(brk.id, None)] if self.pred[brk.id] else []
        if isinstance(st, ast.Return):
            n = self.new('return', st, norm(st)[:60])
            self.connect(frontier, n)
            if st.value is not None:
                self._maybe_raise(n, st.value)
            self._through_finally(n.id, self.exit.id)
            return []
        if isinstance(st, ast.Raise):
            n = self.new('raise', st, norm(st)[:60])
            self.connect(frontier, n)
            self.edge(n.id, self._exc_target(), 'raise')
            return []
        if isinstance(st, ast.Break):
            n = self.new('break', st)
            self.connect(frontier, n)
            self._through_finally(n.id, self.loops[-1][1], self.loops[-1][2])
            return []
        if isinstance(st, ast.Continue):
            n = self.new('continue', st)
            self.connect(frontier, n)
            self._through_finally(n.id, self.loops[-1][0], self.loops[-1][2])
            return []
        if isinstance(st, ast.Try):
            return self._try(st, frontier)
        if isinstance(st, (ast.With, ast.AsyncWith)):
            n = self.new('with', st, 'with ' + norm(st.items[0].context_expr)[:50])
            self.connect(frontier, n)
            self._maybe_raise(n, st.items[0].context_expr)
            ends = self.seq(st.body, [(n.id, None)])
            if ends:
                x = self.new('join', st, 'with-exit')
                self.connect(ends, x)
                return [(x.id, None)]
            return []
        if isinstance(st, (ast.FunctionDef, ast.AsyncFunctionDef, ast.ClassDef)):
            n = self.new('def', st, st.name)
            self.connect(frontier, n)
            return [(n.id, None)]
        if getattr(ast, 'Match', None) is not None and isinstance(st, ast.Match):
            raise AnalysisError('match statement not supported by the CFG builder')
        if isinstance(st, ast.Assert):
            n = self.new('stmt', st, norm(st)[:60])
            self.connect(frontier, n)
            return [(n.id, None)]
        n = self.new('stmt', st, norm(st)[:70])
        self.connect(frontier, n)
        self._maybe_raise(n, st)
        return [(n.id, None)]

    def _try(self, st, frontier):
        rec = {'ast': st, 'dispatch': None, 'fin': None, 'in_body': False}
        if st.finalbody:
            rec['fin'] = True
            rec['fin_exc'] = self.new('finally', st, 'finally(exc)')
        disp = None
        if st.handlers:
            disp = self.new('dispatch', st, 'except-dispatch')
            rec['dispatch'] = disp.id
        self.tries.append(rec)
        rec['in_body'] = True
        body_end = self.seq(st.body, frontier)
        rec['in_body'] = False
        if st.orelse:
            body_end = self.seq(st.orelse, body_end)
        ends = list(body_end)
        for h in st.handlers:
            hn = self.new('handler', h, 'except ' + (norm(h.type) if h.type else '*'))
            self.edge(disp.id, hn.id, 'caught')
            ends += self.seq(h.body, [(hn.id, None)])
        self.tries.pop()
        outer = self._exc_target()
        if disp is not None:
            catches_all = any(h.type is None or norm(h.type) in ('Exception', 'BaseException') for h in st.handlers)
            if not catches_all:
                self.edge(disp.id, rec['fin_exc'].id if st.finalbody else outer, 'uncaught')
        if st.finalbody:
            # exceptional copy
            fend = self.seq(st.finalbody, [(rec['fin_exc'].id, None)])
            for e, lab in fend:
                self.edge(e, outer, 'reraise')
            # normal copy
            if ends:
                fn = self.new('finally', st, 'finally(normal)')
                self.connect(ends, fn)
                return self.seq(st.finalbody, [(fn.id, None)])
            return []
        return ends

    # -- analyses
    def reachable_from(self, src, avoid=()):
        avoid = set(avoid)
        seen = {src}
        dq = deque([src])
        while dq:
            x = dq.popleft()
            for y, _ in self.succ[x]:
                if y not in seen and y not in avoid:
                    seen.add(y)
                    dq.append(y)
        return seen

    def live_nodes(self):
        return self.reachable_from(self.entry.id)

    def exists_path(self, src, dst, avoid=()):
        """is there a path src -> dst that avoids the nodes in `avoid` (src itself not tested)"""
        if dst in avoid:
            return False
        return dst in self.reachable_from(src, avoid)

    def find_path(self, src, dst, avoid=()):
        avoid = set(avoid)
        prev = {src: None}
        dq = deque([src])
        while dq:
            x = dq.popleft()
            if x == dst:
                out = []
                while x is not None:
                    out.append(x)
                    x = prev[x]
                return list(reversed(out))
            for y, _ in self.succ[x]:
                if y not in prev and y not in avoid:
                    prev[y] = x
                    dq.append(y)
        return None

    def dominators(self):
        if self._dom is None:
            self._dom = self._doms(self.entry.id, self.pred)
        return self._dom

    def _doms(self, root, pred):
        live = self.live_nodes() if pred is self.pred else None
        ids = [n.id for n in self.nodes if live is None or n.id in live]
        allset = set(ids)
        dom = {i: set(allset) for i in ids}
        dom[root] = {root}
        changed = True
        while changed:
            changed = False
            for i in ids:
                if i == root:
                    continue
                ps = [p for p, _ in pred[i] if p in dom]
                new = (set.intersection(*(dom[p] for p in ps)) if ps else set()) | {i}
                if new != dom[i]:
                    dom[i] = new
                    changed = True
        return dom

    def dominates(self, a, b):
        return a in self.dominators().get(b, ())

    def describe_path(self, path):
        out = []
        for i in path:
            n = self.nodes[i]
            if n.kind in ('test', 'fortest', 'raise', 'return', 'break', 'continue', 'handler'):
                out.append('%s@L%d' % (n.label or n.kind, n.lineno))
        return ' -> '.join(out)

    def stmts(self, pred=None):
        return [n for n in self.nodes if n.ast is not None and (pred is None or pred(n))]

    def node_for(self, astnode):
        """CFG node of the statement containing `astnode`"""
        n = astnode
        while n is not None:
            if n in self.node_of:
                return self.node_of[n]
            n = getattr(n, '_parent', None)
        raise AnalysisError('no CFG node for %s' % norm(astnode)[:40])

    # -- acyclic path enumeration with guards
    def paths_to(self, target, limit=20000):
        """all acyclic paths entry -> target as lists of (node_id, edge_label)"""
        paths = []
        succ = self.succ
        can_reach = self._co_reachable(target)

        def dfs(n, onpath, acc):
            if len(paths) > limit:
                raise AnalysisError('too many paths')
            if n == target:
                paths.append(list(acc))
                return
            for d, lab in succ[n]:
                if d in onpath or d not in can_reach:
                    continue
                onpath.add(d)
                acc.append((n, lab))
                dfs(d, onpath, acc)
                acc.pop()
                onpath.discard(d)
        dfs(self.entry.id, {self.entry.id}, [])
        return paths

    def _co_reachable(self, target):
        seen = {target}
        dq = deque([target])
        while dq:
            x = dq.popleft()
            for y, _ in self.pred[x]:
                if y not in seen:
                    seen.add(y)
                    dq.append(y)
        return seen


# ---------------------------------------------------------------------------------------------
# guards

_NEG = {'Lt': 'GtE', 'LtE': 'Gt', 'Gt': 'LtE', 'GtE': 'Lt', 'Is': 'IsNot', 'IsNot': 'Is', 'Eq': 'NotEq',
        'NotEq': 'Eq', 'In': 'NotIn', 'NotIn': 'In'}


def atoms(test, pol=True):
    """atomic facts known to hold when `test` evaluates to `pol`:
    list of ('cmp', left_text, OpName, right_text) / ('truthy', text) / ('falsy', text)"""
    out = []
    if isinstance(test, ast.BoolOp):
        if isinstance(test.op, ast.And) and pol:
            for v in test.values:
                out += atoms(v, True)
        elif isinstance(test.op, ast.Or) and not pol:
            for v in test.values:
                out += atoms(v, False)
        return out
    if isinstance(test, ast.UnaryOp) and isinstance(test.op, ast.Not):
        return atoms(test.operand, not pol)
    if isinstance(test, ast.Compare):
        items = [test.left] + test.comparators
        if pol:
            for (l, op, r) in zip(items, test.ops, items[1:]):
                out.append(('cmp', norm(l), type(op).__name__, norm(r)))
        elif len(test.ops) == 1:
            out.append(('cmp', norm(items[0]), _NEG[type(test.ops[0]).__name__], norm(items[1])))
        return out
    out.append(('truthy' if pol else 'falsy', norm(test)))
    return out


def path_facts(cfg, path):
    """facts (atoms) and the sequence of executed statement nodes along one path"""
    facts, stmts = [], []
    for nid, lab in path:
        n = cfg.nodes[nid]
        if n.kind == 'test' and lab in (True, False):
            facts += [(nid,) + a for a in atoms(n.ast, lab)]
        stmts.append(n)
    return facts, stmts

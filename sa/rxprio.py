"""the marked language of the parses that backtracking CHOOSES.

`rx.regex_lang(pattern, ..., groups)` contains, for a string with several parses, every one of them.  CPython's matcher
returns one: the first accepting path in the order in which it tries alternatives -- the alternatives of a branch from left
to right, one more iteration before the exit for a greedy repeat, the exit first for a lazy one.  This module builds the
automaton of exactly those parses, for patterns that are matched against the whole string (mode 'fullmatch', or a pattern
whose top-level sequence ends in \\Z), by the construction known from prioritised transducers: a candidate path is run
together with the set of configurations reached by every path that the matcher would have tried *before* it on the same
input (each time the candidate takes the k-th alternative of a choice, the closures of alternatives 1..k-1 join that set);
the candidate is accepted iff none of them accepts.

Supported: literals / classes, groups, branches, greedy and lazy repeats (a group that is read by the code may sit inside
an optional part, not inside a repeat that can run more than once), the anchors ^ \\A $ \\Z (not MULTILINE).  Anything else:
AnalysisError -- the caller keeps its weaker rule.  `rx_selfcheck`-style validation against `re` is in selfcheck()."""
import re

from . import rx
from .core import AnalysisError

MAXREPEAT = rx.MAXREPEAT


class PNFA:
    """Thompson automaton with ordered alternatives: a state has either symbol transitions (tr) or an ordered list of
    alternatives (alts): ('eps', None, dst) | ('mk', (kind, group), dst) | ('at', name, dst)"""

    def __init__(self):
        self.tr = []
        self.alts = []

    def new(self):
        self.tr.append([])
        self.alts.append([])
        return len(self.tr) - 1


def _nullable(seq):
    for op, av in seq:
        ops = str(op)
        if ops in ('LITERAL', 'NOT_LITERAL', 'ANY', 'IN'):
            return False
        if ops == 'SUBPATTERN':
            if not _nullable(av[3]):
                return False
        elif ops == 'BRANCH':
            if not any(_nullable(a) for a in av[1]):
                return False
        elif ops in ('MAX_REPEAT', 'MIN_REPEAT'):
            if av[0] > 0 and not _nullable(av[2]):
                return False
        elif ops == 'AT':
            continue
        else:
            raise AnalysisError('unsupported regex construct for the priority construction: %s' % ops)
    return True


def _pcompile(P, seq, flags, s, wanted, alpha):
    """compile seq starting at state s; returns the end state"""
    cur = s
    for op, av in seq:
        ops = str(op)
        if ops in ('LITERAL', 'NOT_LITERAL', 'ANY', 'IN'):
            n = P.new()
            P.tr[cur].append((alpha.leaf((op, av), flags), n))
            cur = n
        elif ops == 'SUBPATTERN':
            g, addf, delf, sub = av
            f2 = (flags | addf) & ~delf
            n0 = P.new()
            P.alts[cur].append(('mk', ('open', g), n0) if (g is not None and g in wanted) else ('eps', None, n0))
            e = _pcompile(P, sub, f2, n0, wanted, alpha)
            n1 = P.new()
            P.alts[e].append(('mk', ('close', g), n1) if (g is not None and g in wanted) else ('eps', None, n1))
            cur = n1
        elif ops == 'BRANCH':
            end = P.new()
            for alt in av[1]:
                a0 = P.new()
                P.alts[cur].append(('eps', None, a0))
                e = _pcompile(P, alt, flags, a0, wanted, alpha)
                P.alts[e].append(('eps', None, end))
            cur = end
        elif ops in ('MAX_REPEAT', 'MIN_REPEAT'):
            lo, hi, sub = av
            greedy = ops == 'MAX_REPEAT'
            if lo > 32 or (hi != MAXREPEAT and hi > 32):
                raise AnalysisError('repeat bound too large for the priority construction')
            if rx._has_wanted_group(sub, wanted) and (hi == MAXREPEAT or hi > 1):
                raise AnalysisError('a group that is read sits inside a repeat (priority construction)')
            if hi == MAXREPEAT and _nullable(sub):
                raise AnalysisError('unbounded repeat of a part that can match the empty text (priority construction)')
            for _ in range(lo):
                n0 = P.new()
                P.alts[cur].append(('eps', None, n0))
                cur = _pcompile(P, sub, flags, n0, wanted, alpha)
            if hi == MAXREPEAT:
                loop = P.new()
                P.alts[cur].append(('eps', None, loop))
                body = P.new()
                out = P.new()
                P.alts[loop] += [('eps', None, body), ('eps', None, out)] if greedy else [('eps', None, out), ('eps', None, body)]
                e = _pcompile(P, sub, flags, body, wanted, alpha)
                P.alts[e].append(('eps', None, loop))
                cur = out
            else:
                end = P.new()
                for _ in range(hi - lo):
                    choice = P.new()
                    P.alts[cur].append(('eps', None, choice))
                    body = P.new()
                    P.alts[choice] += [('eps', None, body), ('eps', None, end)] if greedy else [('eps', None, end), ('eps', None, body)]
                    cur = _pcompile(P, sub, flags, body, wanted, alpha)
                P.alts[cur].append(('eps', None, end))
                cur = end
        elif ops == 'AT':
            n = P.new()
            P.alts[cur].append(('at', str(av), n))
            cur = n
        else:
            raise AnalysisError('unsupported regex construct for the priority construction: %s' % ops)
    return cur


def chosen_lang(pattern, flags=0, mode='fullmatch', groups=(), markers=None, alpha=None):
    """Lang over Σ ∪ markers: for every string the pattern matches as a whole, the string with the group markers of the parse
    CPython's matcher returns"""
    kind = 'bytes' if isinstance(pattern, bytes) else 'str'
    alpha = alpha or rx.alphabet(kind)
    if kind == 'str' and not flags & re.ASCII:
        flags |= re.UNICODE
    tree = rx.parse(pattern, flags)
    flags = tree.state.flags
    if flags & re.MULTILINE:
        raise AnalysisError('MULTILINE pattern (priority construction)')
    items = list(tree)
    if mode != 'fullmatch':
        if not (mode == 'match' and items and str(items[-1][0]) == 'AT' and str(items[-1][1]) == 'AT_END_STRING'):
            raise AnalysisError('the priority construction needs a pattern matched against the whole string (fullmatch, or match with a final \\Z)')
    gd = tree.state.groupdict
    num_of = {}
    for g in groups:
        num_of[g] = g if isinstance(g, int) else gd.get(g)
        if num_of[g] is None or (isinstance(g, int) and g >= tree.state.groups):
            raise AnalysisError('regex has no group %r' % (g,))
    name_of = {v: k for k, v in num_of.items()}
    wanted = set(num_of.values())
    P = PNFA()
    s0 = P.new()
    accq = _pcompile(P, tree, flags, s0, wanted, alpha)
    if markers is None:
        markers = [(k, g) for g in groups for k in ('open', 'close')]
    markers = list(markers)
    NL = alpha.idx['\n' if kind == 'str' else b'\n']
    nA = alpha.n

    def at_ok(name, pr, ctx):
        """promise after the anchor, or False"""
        if name in ('AT_BEGINNING', 'AT_BEGINNING_STRING'):
            return pr if ctx == 'S' else False
        if name == 'AT_END':
            return rx._meet(pr, 'E')
        if name == 'AT_END_STRING':
            return rx._meet(pr, 'Z')
        raise AnalysisError('unsupported regex anchor %s (priority construction)' % name)

    def plain_closure(confs, ctx):
        """all (state, promise) reachable without consuming input; markers are free moves here"""
        seen = set(confs)
        stack = list(confs)
        while stack:
            q, pr = stack.pop()
            for k_, lab, dst in P.alts[q]:
                if k_ == 'at':
                    np = at_ok(lab, pr, ctx)
                    if np is False:
                        continue
                    c = (dst, np)
                else:
                    c = (dst, pr)
                if c not in seen:
                    seen.add(c)
                    stack.append(c)
        return frozenset(seen)

    def cand_closure(confs, ctx):
        """candidate configurations (q, pr, better) with q a symbol state, the accepting state, or a pending marker ('m', q, k)"""
        out = set()
        seen = set()
        stack = list(confs)
        while stack:
            q, pr, better = stack.pop()
            if (q, pr, better) in seen:
                continue
            seen.add((q, pr, better))
            if isinstance(q, tuple) or not P.alts[q]:
                out.add((q, pr, better))
                continue
            earlier = set()
            for k, (k_, lab, dst) in enumerate(P.alts[q]):
                b2 = better | plain_closure(earlier, ctx) if earlier else better
                if k_ == 'eps':
                    stack.append((dst, pr, b2))
                    earlier.add((dst, pr))
                elif k_ == 'at':
                    np = at_ok(lab, pr, ctx)
                    if np is not False:
                        stack.append((dst, np, b2))
                        earlier.add((dst, np))
                else:
                    out.add((('m', q, k), pr, b2))
                    earlier.add((dst, pr))
        return frozenset(out)

    def sym_step_plain(confs, sym):
        out = set()
        for q, pr in confs:
            if pr == 'Z':
                continue
            if pr == 'E':
                if sym != NL:
                    continue
                for mask, n in P.tr[q]:
                    if mask >> sym & 1:
                        out.add((n, 'Z'))
                continue
            for mask, n in P.tr[q]:
                if mask >> sym & 1:
                    out.add((n, None))
        return out

    start = cand_closure({(s0, None, frozenset())}, 'S') | frozenset([('CTX', 'S', None)])

    def step(S, sym, cache):
        ctx = 'M'
        for c in S:
            if c[0] == 'CTX':
                ctx = c[1]
        out = set()
        if sym >= nA:
            mk = markers[sym - nA]
            for (q, pr, better) in S:
                if q == 'CTX' or not isinstance(q, tuple):
                    continue
                _m, q0, k = q
                k_, lab, dst = P.alts[q0][k]
                if (lab[0], name_of.get(lab[1], lab[1])) == mk:
                    out.add((dst, pr, better))
            if not out:
                return frozenset()
            return cand_closure(out, ctx) | frozenset([('CTX', ctx, None)])
        nctx = 'N' if sym == NL else 'M'
        for (q, pr, better) in S:
            if q == 'CTX' or isinstance(q, tuple):
                continue
            nb = None
            for q2, pr2 in sym_step_plain({(q, pr)}, sym):
                if nb is None:
                    nb = plain_closure(sym_step_plain(better, sym), nctx)
                out.add((q2, pr2, nb))
        if not out:
            return frozenset()
        return cand_closure(out, nctx) | frozenset([('CTX', nctx, None)])

    def accepting(S):
        for (q, pr, better) in S:
            if q == accq and not any(q2 == accq for q2, _p in better):
                return True
        return False

    masks = {m for trs in P.tr for (m, _n) in trs}
    masks.add(1 << NL)
    classes = rx.split_classes([alpha.full], masks)
    return rx._determinise(alpha, markers, start, step, accepting, classes)


def selfcheck(pattern, flags, groups, samples, mode='fullmatch'):
    """compare with CPython on sample strings: the marked string of re's own parse must be in the language, and the language must
    contain exactly one marked string per sample that matches; returns a list of disagreements"""
    alpha = rx.alphabet('bytes' if isinstance(pattern, bytes) else 'str')
    markers = [(k, g) for g in groups for k in ('open', 'close')]
    L = chosen_lang(pattern, flags, mode, groups, markers, alpha)
    creg = re.compile(pattern, flags)
    bad = []
    for s in samples:
        m = creg.fullmatch(s) if mode == 'fullmatch' else creg.match(s)
        plain = rx.erase_markers(L).accepts(s)
        if (m is not None) != plain:
            bad.append((s, 'acceptance', m is not None, plain))
            continue
        if m is None:
            continue
        # the marked spelling of CPython's parse
        ins = {}
        for g in groups:
            if m.start(g) >= 0:
                ins.setdefault(m.start(g), []).append(('open', g))
                ins.setdefault(m.end(g), []).append(('close', g))
        if not _accepts_marked(L, s, ins):
            bad.append((s, 'parse', {g: m.group(g) for g in groups}, None))
    return bad


def _accepts_marked(L, s, ins):
    """does the DFA accept s with the markers of `ins` (position -> markers) inserted, in some order of the markers of one position"""
    import itertools
    nA = L.alpha.n
    mi = {m: nA + k for k, m in enumerate(L.markers)}
    chars = list(s) if L.alpha.kind == 'str' else [bytes([b]) for b in s]
    states = {0}
    for pos in range(len(chars) + 1):
        mks = ins.get(pos, [])
        if mks:
            nxt = set()
            for perm in set(itertools.permutations(mks)):
                for q in states:
                    for m in perm:
                        q = L.trans[q][mi[m]]
                    nxt.add(q)
            states = nxt
        if pos < len(chars):
            i = L.alpha.idx.get(chars[pos])
            if i is None:
                raise KeyError(chars[pos])
            states = {L.trans[q][i] for q in states}
    return any(L.acc[q] for q in states)

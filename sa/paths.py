"""Path-wise forward substitution with constant folding.

A function body (normalised: helpers inlined) is unfolded into its acyclic paths.  Along one path every
local has exactly one reaching definition, so locals are *substituted away*: every branch condition, raised
exception, returned value and effect is re-expressed over the function's inputs (parameters, attributes,
calls) only.  Conditions that fold to a constant prune the other branch; the remaining ones are recorded
as literals (test, polarity).  Consumers translate the literals of a path into whatever domain decides their
rule (regular languages for string predicates, linear facts, typestate...) -- nothing is executed and no
solver is involved; two spellings of the same logic (flag variables, guard clauses, helper functions
returning a message-or-None, conditional expressions, De Morgan variants) give the same set of literals
up to propositional structure, which the consumers interpret semantically.

Loops are not unfolded: a `for`/`while` is handed to the consumer's loop handler (or becomes an opaque
effect that kills the names it assigns)."""
import ast

from .core import AnalysisError, clone, norm, walk_no_nested


MUTATORS = {'append', 'extend', 'insert', 'pop', 'remove', 'clear', 'sort', 'reverse', 'update', 'add', 'discard', 'setdefault', 'popitem', 'write'}


class Opaque(ast.AST):
    """placeholder for a value the substitution cannot express (assigned in a loop, ...)"""
    _fields = ('why',)


def _is_const(e):
    return isinstance(e, ast.Constant)


class Folder:
    """3-valued constant folding of expressions; `consts(name)` supplies module/class constants"""

    def __init__(self, consts=None, atom=None):
        self.consts = consts or (lambda name: None)
        self.atom = atom or (lambda e: None)     # consumer-specific atoms: returns True/False/None

    def value(self, e):
        """('const', v) or None"""
        if isinstance(e, ast.Constant):
            return ('const', e.value)
        if isinstance(e, ast.Name):
            v = self.consts(e.id)
            if v is not None:
                return ('const', v[0])
            return None
        if isinstance(e, ast.Attribute):
            v = self.consts(norm(e))
            if v is not None:
                return ('const', v[0])
            if isinstance(e.value, ast.Name) and e.value.id == 'string':
                from .consteval import _STRING_CONSTS
                if e.attr in _STRING_CONSTS:
                    return ('const', _STRING_CONSTS[e.attr])       # constants of the standard `string` module
            return None
        if isinstance(e, ast.Tuple):
            vs = [self.value(x) for x in e.elts]
            if all(v is not None for v in vs):
                return ('const', tuple(v[1] for v in vs))
            return None
        if isinstance(e, ast.UnaryOp) and isinstance(e.op, ast.USub):
            v = self.value(e.operand)
            if v is not None and isinstance(v[1], (int, float)):
                return ('const', -v[1])
            return None
        if isinstance(e, ast.BinOp) and isinstance(e.op, (ast.Add, ast.Sub, ast.Mult, ast.Mod)):
            l, r = self.value(e.left), self.value(e.right)
            if l is not None and r is not None:
                try:
                    if isinstance(e.op, ast.Add):
                        return ('const', l[1] + r[1])
                    if isinstance(e.op, ast.Sub):
                        return ('const', l[1] - r[1])
                    if isinstance(e.op, ast.Mult):
                        return ('const', l[1] * r[1])
                    if isinstance(e.op, ast.Mod) and isinstance(l[1], int):
                        return ('const', l[1] % r[1])
                except Exception:    # pylint: disable=broad-except
                    return None
            return None
        t = self.truth(e, _from_value=True)
        if t is not None and isinstance(e, (ast.Compare, ast.BoolOp)) or (isinstance(e, ast.UnaryOp) and isinstance(e.op, ast.Not) and t is not None):
            return ('const', t)
        return None

    def truth(self, e, _from_value=False):
        """True / False / None (unknown)"""
        a = self.atom(e)
        if a is not None:
            return a
        if isinstance(e, ast.Constant):
            return bool(e.value)
        if isinstance(e, ast.UnaryOp) and isinstance(e.op, ast.Not):
            t = self.truth(e.operand)
            return None if t is None else not t
        if isinstance(e, ast.BoolOp):
            ts = [self.truth(v) for v in e.values]
            if isinstance(e.op, ast.And):
                if any(t is False for t in ts):
                    return False
                return True if all(t is True for t in ts) else None
            if any(t is True for t in ts):
                return True
            return False if all(t is False for t in ts) else None
        if isinstance(e, ast.Compare) and len(e.ops) == 1:
            l, r = self.value(e.left) if not isinstance(e.left, (ast.Compare, ast.BoolOp)) else None, \
                self.value(e.comparators[0]) if not isinstance(e.comparators[0], (ast.Compare, ast.BoolOp)) else None
            op = e.ops[0]
            if l is not None and r is not None:
                try:
                    if isinstance(op, ast.Eq):
                        return l[1] == r[1]
                    if isinstance(op, ast.NotEq):
                        return l[1] != r[1]
                    if isinstance(op, ast.Is):
                        return l[1] is r[1] if (l[1] is None or r[1] is None or isinstance(l[1], bool)) else (l[1] == r[1] and type(l[1]) is type(r[1]))
                    if isinstance(op, ast.IsNot):
                        return not (l[1] is r[1] if (l[1] is None or r[1] is None or isinstance(l[1], bool)) else (l[1] == r[1] and type(l[1]) is type(r[1])))
                    if isinstance(op, ast.In):
                        return l[1] in r[1]
                    if isinstance(op, ast.NotIn):
                        return l[1] not in r[1]
                    if isinstance(op, ast.Lt):
                        return l[1] < r[1]
                    if isinstance(op, ast.LtE):
                        return l[1] <= r[1]
                    if isinstance(op, ast.Gt):
                        return l[1] > r[1]
                    if isinstance(op, ast.GtE):
                        return l[1] >= r[1]
                except Exception:    # pylint: disable=broad-except
                    return None
            # identical operands
            if norm(e.left) == norm(e.comparators[0]) and not any(isinstance(n, ast.Call) for n in ast.walk(e.left)):
                if isinstance(op, (ast.Eq, ast.Is, ast.LtE, ast.GtE)):
                    return True
                if isinstance(op, (ast.NotEq, ast.IsNot, ast.Lt, ast.Gt)):
                    return False
            return None
        if isinstance(e, (ast.Name, ast.Attribute)) and not _from_value:
            v = self.value(e)
            if v is not None:
                return bool(v[1])
        return None


class Subst(ast.NodeTransformer):
    def __init__(self, env):
        self.env = env

    def visit_Name(self, n):
        if isinstance(n.ctx, ast.Load) and n.id in self.env:
            return clone(self.env[n.id])
        return n

    def visit_Attribute(self, n):
        if isinstance(n.ctx, ast.Load):
            k = '@' + norm(n)
            if k in self.env:
                return clone(self.env[k])
        return self.generic_visit(n)

    def visit_Subscript(self, n):
        n = self.generic_visit(n)
        # canonical form of a named group read: m.groupdict()[name] is m.group(name)
        if isinstance(n.ctx, ast.Load) and isinstance(n.value, ast.Call) and isinstance(n.value.func, ast.Attribute) and n.value.func.attr == 'groupdict' \
                and not n.value.args and not n.value.keywords and isinstance(n.slice, ast.Constant) and isinstance(n.slice.value, str):
            r = ast.Call(func=ast.Attribute(value=n.value.func.value, attr='group', ctx=ast.Load()), args=[n.slice], keywords=[])
            return ast.fix_missing_locations(ast.copy_location(r, n))
        return n

    def visit_Lambda(self, n):
        shadow = {a.arg for a in n.args.args}
        inner = Subst({k: v for k, v in self.env.items() if k not in shadow})
        n.body = inner.visit(n.body)
        return n

    def _comp(self, n):
        shadow = set()
        for g in n.generators:
            shadow |= {x.id for x in ast.walk(g.target) if isinstance(x, ast.Name)}
        inner = Subst({k: v for k, v in self.env.items() if k not in shadow})
        for f in n._fields:
            v = getattr(n, f)
            if isinstance(v, list):
                setattr(n, f, [inner.visit(x) for x in v])
            elif isinstance(v, ast.AST):
                setattr(n, f, inner.visit(v))
        return n

    visit_ListComp = visit_SetComp = visit_DictComp = visit_GeneratorExp = _comp

    def visit_comprehension(self, n):
        n.iter = self.visit(n.iter)
        n.ifs = [self.visit(x) for x in n.ifs]
        return n


def subst(e, env):
    if e is None:
        return None
    return Subst(env).visit(clone(e))


class Path:
    def __init__(self):
        self.conds = []      # (test over inputs, polarity)
        self.events = []     # ('effect', stmt) / ('assign', target_text, value) / ('loop', node, info) in order
        self.env = {}
        self.outcome = None  # ('raise', exc) / ('return', value) / ('fall',) / ('break',) / ('continue',)

    def copy(self):
        p = Path()
        p.conds = list(self.conds)
        p.events = list(self.events)
        p.env = dict(self.env)
        p.outcome = self.outcome
        return p

    def describe(self):
        return ' ∧ '.join(('' if pol else 'not ') + '(' + norm(t) + ')' for t, pol in self.conds) or 'true'


class Enumerator:
    def __init__(self, folder=None, loop_handler=None, max_paths=4000, call_effect=None):
        self.folder = folder or Folder()
        self.loop_handler = loop_handler
        self.max_paths = max_paths
        self.call_effect = call_effect
        self.count = 0

    # -- conditions
    def split(self, test, path):
        """[(path, bool)] -- forks on the undecided sub-conditions of test in evaluation order"""
        t = self.folder.truth(test)
        if t is not None:
            return [(path, t)]
        if isinstance(test, ast.UnaryOp) and isinstance(test.op, ast.Not):
            return [(p, not v) for p, v in self.split(test.operand, path)]
        if isinstance(test, ast.BoolOp):
            is_and = isinstance(test.op, ast.And)
            out = []
            todo = [(path, 0)]
            while todo:
                p, i = todo.pop()
                if i == len(test.values):
                    out.append((p, is_and))
                    continue
                for p2, v in self.split(test.values[i], p):
                    if v != is_and:
                        out.append((p2, v))          # short circuit
                    else:
                        todo.append((p2, i + 1))
            return out
        if isinstance(test, ast.IfExp):
            out = []
            for p, v in self.split(test.test, path):
                out.extend(self.split(test.body if v else test.orelse, p))
            return out
        a, b = path.copy(), path.copy()
        # a literal already decided on this path?
        key = norm(test)
        for t0, pol in path.conds:
            if norm(t0) == key:
                return [(path, pol)]
        a.conds.append((test, True))
        b.conds.append((test, False))
        self.count += 1
        if self.count > self.max_paths:
            raise AnalysisError('path explosion (more than %d forks)' % self.max_paths)
        return [(a, True), (b, False)]

    # -- statements
    def run(self, stmts, paths):
        for st in stmts:
            nxt = []
            for p in paths:
                if p.outcome is not None:
                    nxt.append(p)
                else:
                    nxt.extend(self.exec(st, p))
            paths = nxt
        return paths

    def assign_value(self, name, value, path):
        """value already substituted; conditional expressions fork"""
        if isinstance(value, ast.IfExp):
            out = []
            for p, v in self.split(value.test, path):
                out.extend(self.assign_value(name, value.body if v else value.orelse, p))
            return out
        path.env[name] = value
        return [path]

    def exec(self, st, path):
        env = path.env
        if isinstance(st, (ast.Pass, ast.Global, ast.Nonlocal, ast.Import, ast.ImportFrom, ast.FunctionDef, ast.ClassDef)):
            return [path]
        if isinstance(st, ast.Expr) and isinstance(st.value, ast.Constant):
            return [path]
        if isinstance(st, ast.If):
            out = []
            for p, v in self.split(subst(st.test, env), path):
                out.extend(self.run(st.body if v else st.orelse, [p]))
            return out
        if isinstance(st, ast.Raise):
            path.outcome = ('raise', subst(st.exc, env), st)
            return [path]
        if isinstance(st, ast.Return):
            v = subst(st.value, env)
            if isinstance(v, ast.IfExp):
                out = []
                for p, t in self.split(v.test, path):
                    p.outcome = ('return', v.body if t else v.orelse, st)
                    out.append(p)
                return out
            path.outcome = ('return', v, st)
            return [path]
        if isinstance(st, ast.Break):
            path.outcome = ('break', None, st)
            return [path]
        if isinstance(st, ast.Continue):
            path.outcome = ('continue', None, st)
            return [path]
        if isinstance(st, ast.Assert):
            return [path]
        if isinstance(st, (ast.Assign, ast.AnnAssign)):
            if isinstance(st, ast.AnnAssign):
                if st.value is None:
                    return [path]
                targets = [st.target]
            else:
                targets = st.targets
            value = subst(st.value, env)
            paths = [path]
            for t in targets:
                nxt = []
                for p in paths:
                    nxt.extend(self.assign(t, value, p, st))
                paths = nxt
            return paths
        if isinstance(st, ast.AugAssign):
            if isinstance(st.target, ast.Name):
                cur = env.get(st.target.id, ast.Name(id=st.target.id, ctx=ast.Load()))
                v = ast.BinOp(left=clone(cur), op=st.op, right=subst(st.value, env))
                ast.copy_location(v, st)
                ast.fix_missing_locations(v)
                path.env[st.target.id] = v
                return [path]
            path.events.append(('effect', subst(st, env), st))
            return [path]
        if isinstance(st, ast.Expr):
            path.events.append(('effect', subst(st, env), st))
            _forget_attrs(path)
            # in-place mutation of a local container: its substituted value no longer describes it
            c = st.value
            if isinstance(c, ast.Call) and isinstance(c.func, ast.Attribute) and isinstance(c.func.value, ast.Name) and c.func.value.id in env \
                    and c.func.attr in MUTATORS:
                path.env[c.func.value.id] = _opaque('mutated by .%s()' % c.func.attr, st)
            return [path]
        if isinstance(st, ast.Delete):
            path.events.append(('effect', subst(st, env), st))
            for t in st.targets:
                if isinstance(t, ast.Name):
                    path.env.pop(t.id, None)
                elif isinstance(t, ast.Subscript) and isinstance(t.value, ast.Name) and t.value.id in env:
                    cur = env[t.value.id]
                    if isinstance(t.slice, ast.Constant) and t.slice.value == 0:
                        # del xs[0]: the rest of the sequence
                        v = ast.Subscript(value=clone(cur), slice=ast.Slice(lower=ast.Constant(value=1), upper=None, step=None), ctx=ast.Load())
                        ast.fix_missing_locations(ast.copy_location(v, st))
                        path.env[t.value.id] = v
                    else:
                        path.env[t.value.id] = _opaque('item deleted', st)
            return [path]
        if isinstance(st, (ast.For, ast.While)):
            if self.loop_handler is not None:
                r = self.loop_handler(self, st, path)
                if r is not None:
                    return r
            path.events.append(('loop', subst(st, {k: v for k, v in env.items() if k not in _assigned(st)}), st))
            _forget_attrs(path)
            for n in _assigned(st):
                path.env[n] = _opaque('assigned in a loop', st)
            return [path]
        if isinstance(st, ast.With):
            for it in st.items:
                path.events.append(('effect', subst(it.context_expr, env), st))
                if it.optional_vars is not None and isinstance(it.optional_vars, ast.Name):
                    path.env[it.optional_vars.id] = _opaque('with target', st)
            return self.run(st.body, [path])
        if isinstance(st, ast.Try):
            # the protected body; handlers are entered from the start of the body with the names it assigns unknown
            out = []
            body_paths = self.run(st.body, [path.copy()])
            for p in body_paths:
                if p.outcome is None and st.orelse:
                    out.extend(self.run(st.orelse, [p]))
                else:
                    out.append(p)
            for h in st.handlers:
                hp = path.copy()
                hp.conds.append((_exc_atom(h, st), True))
                for n in _assigned(ast.Module(body=st.body, type_ignores=[])):
                    hp.env[n] = _opaque('assigned in try body', st)
                out.extend(self.run(h.body, [hp]))
            if st.finalbody:
                fin = []
                for p in out:
                    oc = p.outcome
                    p.outcome = None
                    for q in self.run(st.finalbody, [p]):
                        if q.outcome is None:
                            q.outcome = oc
                        fin.append(q)
                out = fin
            return out
        raise AnalysisError('statement outside the path vocabulary: %s' % norm(st)[:80])

    def assign(self, target, value, path, st):
        if isinstance(target, ast.Name):
            return self.assign_value(target.id, value, path)
        if isinstance(target, (ast.Tuple, ast.List)) and isinstance(value, ast.IfExp):
            # a, b = X if T else Y: one path per outcome
            out = []
            for p, v in self.split(value.test, path):
                out.extend(self.assign(target, value.body if v else value.orelse, p, st))
            return out
        if isinstance(target, (ast.Tuple, ast.List)):
            elts = None
            if isinstance(value, (ast.Tuple, ast.List)) and len(value.elts) == len(target.elts):
                elts = value.elts
            elif isinstance(value, ast.Call) and isinstance(value.func, ast.Attribute) and value.func.attr == 'group' \
                    and len(value.args) == len(target.elts) and len(value.args) > 1:
                elts = [ast.copy_location(ast.Call(func=clone(value.func), args=[a], keywords=[]), value) for a in value.args]
            elif isinstance(value, ast.Constant) and isinstance(value.value, tuple) and len(value.value) == len(target.elts):
                elts = [ast.Constant(value=v) for v in value.value]
            paths = [path]
            for i, t in enumerate(target.elts):
                v = elts[i] if elts is not None else ast.Subscript(value=clone(value), slice=ast.Constant(value=i), ctx=ast.Load())
                ast.fix_missing_locations(ast.copy_location(v, st))
                nxt = []
                for p in paths:
                    nxt.extend(self.assign(t, v, p, st))
                paths = nxt
            return paths
        if isinstance(target, ast.Subscript) and isinstance(target.value, ast.Name) and target.value.id in path.env:
            path.env[target.value.id] = _opaque('item assigned', st)
        # attribute / subscript store: an effect, in order; a plain attribute store is also forwarded to later
        # loads of the same attribute text on this path (until an opaque effect may have changed it)
        tt = norm(subst(target, path.env))
        path.events.append(('store', tt, value, st))
        if isinstance(target, ast.Attribute):
            path.env['@' + tt] = value
        return [path]


def _forget_attrs(path):
    for k in [k for k in path.env if k.startswith('@')]:
        del path.env[k]


def _assigned(node):
    out = set()
    for n in walk_no_nested(node):
        if isinstance(n, ast.Name) and isinstance(n.ctx, (ast.Store, ast.Del)):
            out.add(n.id)
    return out


def _opaque(why, st):
    o = ast.Call(func=ast.Name(id='__opaque__', ctx=ast.Load()), args=[ast.Constant(value='%s@%d' % (why, getattr(st, 'lineno', 0)))], keywords=[])
    ast.fix_missing_locations(ast.copy_location(o, st))
    return o


def _exc_atom(handler, st):
    a = ast.Call(func=ast.Name(id='__raised__', ctx=ast.Load()),
                 args=[ast.Constant(value=norm(handler.type) if handler.type is not None else 'BaseException'), ast.Constant(value=getattr(st, 'lineno', 0))], keywords=[])
    ast.fix_missing_locations(ast.copy_location(a, st))
    return a


def function_paths(fnode, folder=None, loop_handler=None, env0=None, max_paths=4000):
    """all acyclic paths of a function body with locals substituted away"""
    en = Enumerator(folder, loop_handler, max_paths)
    p0 = Path()
    p0.env = dict(env0 or {})
    out = en.run(fnode.body, [p0])
    for p in out:
        if p.outcome is None:
            p.outcome = ('fall', None, None)
    return out


def module_consts(module, scope=''):
    """constant lookup for Folder: names and Class.attr / self.attr / cls.attr texts that fold"""
    def look(name):
        parts = name.split('.')
        if len(parts) == 1:
            for sc in ([scope] if scope else []) + ['']:
                d = module.consts.get(sc, {})
                if name in d and isinstance(d[name], (str, bytes, int, bool, tuple, frozenset, dict, list, type(None))):
                    return (d[name],)
            return None
        if len(parts) == 2 and (parts[0] in ('self', 'cls') and scope or parts[0] in module.classes):
            cname = scope if parts[0] in ('self', 'cls') else parts[0]
            for c in module.mro(cname):
                d = module.consts.get(c, {})
                if parts[1] in d and isinstance(d[parts[1]], (str, bytes, int, bool, tuple, frozenset, dict, list)):
                    return (d[parts[1]],)
        return None
    return look


def _is_truth_valued(e):
    if isinstance(e, ast.Compare) or (isinstance(e, ast.UnaryOp) and isinstance(e.op, ast.Not)):
        return True
    if isinstance(e, ast.BoolOp):
        return all(_is_truth_valued(v) for v in e.values)
    return isinstance(e, ast.Call) and isinstance(e.func, ast.Attribute) and e.func.attr in (
        'endswith', 'startswith', 'isspace', 'isdigit', 'isalpha', 'isalnum', 'isdecimal', 'isascii', 'isupper', 'islower', 'isidentifier')


def simplify(e, folder):
    """replace every boolean sub-expression the folder decides by its constant; IfExp with a decided test by its branch"""
    class T(ast.NodeTransformer):
        def generic_visit(self, n):
            n = super().generic_visit(n)
            if isinstance(n, ast.IfExp):
                t = folder.truth(n.test)
                if t is not None:
                    return n.body if t else n.orelse
            if isinstance(n, (ast.Compare, ast.BoolOp)) or (isinstance(n, ast.UnaryOp) and isinstance(n.op, ast.Not)) or folder.atom(n) is not None:
                t = folder.truth(n)
                if t is not None:
                    return ast.copy_location(ast.Constant(value=t), n)
            if isinstance(n, ast.Compare) and len(n.ops) == 1 and isinstance(n.ops[0], (ast.Eq, ast.NotEq)):
                # B == True / B != False / ... for an expression B that is a truth value itself (a comparison, a `not`, a str predicate)
                l_, r_ = n.left, n.comparators[0]
                if isinstance(l_, ast.Constant) and isinstance(l_.value, bool):
                    l_, r_ = r_, l_
                if isinstance(r_, ast.Constant) and isinstance(r_.value, bool) and _is_truth_valued(l_):
                    same = isinstance(n.ops[0], ast.Eq) == r_.value
                    return l_ if same else ast.copy_location(ast.UnaryOp(op=ast.Not(), operand=l_), n)
            if isinstance(n, ast.BoolOp):
                # drop neutral constants
                neutral = isinstance(n.op, ast.And)
                vals = [v for v in n.values if not (isinstance(v, ast.Constant) and v.value is neutral)]
                if len(vals) == 1:
                    return vals[0]
                if vals and len(vals) < len(n.values):
                    n.values = vals
            return n
    return T().visit(clone(e))


def parents(tree):
    """{id(child): parent} for a (substituted) expression tree"""
    out = {}
    for p in ast.walk(tree):
        for c in ast.iter_child_nodes(p):
            out[id(c)] = p
    return out

"""E5b -- shape-case abstract interpreter for the pointer-manipulating classes of debian._util.

The loop-free methods of LinkedListNode / LinkedList / OrderedSet are interpreted over a heap of
*symbolic* objects (node names, key symbols with an equivalence class for case-insensitive equality).
A shape case fixes which of the finitely many pointer-equality patterns holds (list empty / one / two /
three nodes; the argument node being head, tail, inner or the only node); in each case every test the
code performs (`is`, `is None`, truthiness of a reference, dict membership by key class) is decidable,
so the abstraction is exact.  Nothing of the repository is imported or executed: the interpreter walks
the AST with its own store."""
import ast

from . import symstr
from .symstr import SStr, SInt
from .core import AnalysisError, norm


class Raised(Exception):
    def __init__(self, exc, version, lineno):
        Exception.__init__(self, exc)
        self.exc, self.version, self.lineno = exc, version, lineno


class _Modules:
    """several core.Module objects seen as one namespace"""

    def __init__(self, mods):
        self.mods = mods
        self.classes = {}
        self.funcs = {}
        self.consts = {'': {}}
        for m in reversed(mods):
            self.classes.update(m.classes)
            self.funcs.update(m.funcs)
            self.consts[''].update(m.consts.get('', {}))

    def _home(self, cname):
        for m in self.mods:
            if cname in m.classes:
                return m
        return None

    def mro(self, cname):
        out, todo = [], [cname]
        while todo:
            c = todo.pop(0)
            if c in out or c not in self.classes:
                continue
            out.append(c)
            bases = []
            for b in self.classes[c].bases:
                if isinstance(b, ast.Subscript):
                    b = b.value          # Generic[T] / Base[str]: the subscripted class
                if isinstance(b, ast.Name):
                    bases.append(b.id)
                elif isinstance(b, ast.Attribute):
                    bases.append(b.attr)
            todo = bases + todo
        return out

    def method(self, cname, mname):
        for c in self.mro(cname):
            m = self._home(c)
            f = m.funcs.get('%s.%s' % (c, mname)) if m else None
            if f is not None:
                return f
        return None

    def class_const_node(self, cname, name):
        for c in self.mro(cname):
            m = self._home(c)
            n = m.const_nodes.get(c, {}).get(name) if m else None
            if n is not None:
                return n, c
        return None, None


_MAPPING_MIXIN = {f_.name: f_ for f_ in ast.parse('''
def get(self, key, default=None):
    try:
        return self[key]
    except KeyError:
        return default

def setdefault(self, key, default=None):
    try:
        return self[key]
    except KeyError:
        self[key] = default
    return default
''').body}


class KeysList(list):
    """what dict.keys() hands out: the keys in order (a list for every reader), set-like in comparisons with a set"""


class Key:
    """a key symbol: (equivalence class, spelling)"""
    __slots__ = ('cls', 'spelling')

    def __init__(self, cls, spelling):
        self.cls, self.spelling = cls, spelling

    def __repr__(self):
        return self.spelling


class Ref:
    __slots__ = ('name',)

    def __init__(self, name):
        self.name = name

    def __repr__(self):
        return self.name

    def __eq__(self, o):
        return isinstance(o, Ref) and o.name == self.name

    def __hash__(self):
        return hash(self.name)


_STDLIB_CONSTANTS = {(m_, n_): v_ for m_ in ('io', 'os') for n_, v_ in (('SEEK_SET', 0), ('SEEK_CUR', 1), ('SEEK_END', 2))}


class _GenExit(BaseException):
    pass


class _GenRun:
    """the body of a generator function, run in a thread of its own under strict hand-over: the consumer asks for an item and waits; the
    body runs up to its next yield (or its end, or an exception, which arrives at the consumer) and waits"""

    def __init__(self, interp, body, env, cls):
        import threading
        self.interp, self.body, self.env, self.cls = interp, body, env, cls
        self.req, self.rsp = threading.Semaphore(0), threading.Semaphore(0)
        self.item, self.finished, self.exc, self.closed, self.thread = None, False, None, False, None
        self.thrown = None

    def throw(self, exc):
        """raise `exc` in the body at the yield it waits at and run it on: -> (True, item) when it yields again, (False, None) when it
        ends; the exception (or another one) leaves through the caller when the body does not catch it"""
        if self.finished or self.thread is None:
            raise exc
        self.thrown = exc
        return self.producer()

    def _main(self):
        self.req.acquire()
        try:
            if not self.closed:
                self.env['#emit'] = self._emit
                self.interp.run(self.body, self.env, self.cls)
        except _GenExit:
            pass
        except BaseException as e:      # pylint: disable=broad-except
            if isinstance(e, Raised) and e.exc == 'StopIteration':
                # PEP 479: a StopIteration that leaves the body of a generator arrives at the consumer as RuntimeError
                e = Raised('RuntimeError', e.version, e.lineno)
            self.exc = e
        self.finished = True
        self.rsp.release()

    def _emit(self, v):
        self.item = v
        self.rsp.release()
        self.req.acquire()
        if self.closed:
            raise _GenExit()
        if self.thrown is not None:
            # generator.throw(): the exception is raised where the body waits at its yield
            e, self.thrown = self.thrown, None
            raise e

    def producer(self):
        import threading
        if self.finished:
            return (False, None)
        if self.thread is None:
            threading.stack_size(256 * 1024 * 1024)
            self.thread = threading.Thread(target=self._main, daemon=True)
            self.thread.start()
        depth_ = self.interp.h.depth
        self.req.release()
        self.rsp.acquire()
        self.interp.h.depth = depth_
        if self.exc is not None:
            e, self.exc = self.exc, None
            raise e
        if self.finished:
            return (False, None)
        return (True, self.item)

    def close(self):
        if self.thread is not None and not self.finished and not self.closed:
            self.closed = True
            self.req.release()
        self.closed = True


class PyIter:
    """an iterator (shared position) over items that are already known, or that a producer hands out one at a time when they are asked
    for (iter(callable, sentinel), a generator: what producing an item does happens when the item is taken, not before)"""

    def __init__(self, items, producer=None, owner=None):
        self.items, self.pos = list(items), 0
        self.producer = producer          # () -> (True, item) | (False, None)
        self.done = producer is None
        self.owner = owner

    def __del__(self):
        if self.owner is not None:
            try:
                self.owner.close()
            except Exception:      # pylint: disable=broad-except
                pass

    def has_next(self):
        while self.pos >= len(self.items) and not self.done:
            ok, x = self.producer()
            if ok:
                self.items.append(x)
            else:
                self.done = True
            if len(self.items) > 100000:
                raise AnalysisError('heap model: an iterator does not end')
        return self.pos < len(self.items)

    def take(self):
        self.pos += 1
        return self.items[self.pos - 1]

    def drain(self):
        out = []
        while self.has_next():
            out.append(self.take())
        return out

    def __repr__(self):
        return 'PyIter(%d/%d%s)' % (self.pos, len(self.items), '' if self.done else '+')


class Closure:
    def __init__(self, node, env, self_ref=None, cls=None):
        self.node, self.env, self.self_ref, self.cls = node, env, self_ref, cls


class Heap:
    def __init__(self, module, field_alias=None, extra_modules=(), opaque_ctors=(), hooks=None):
        self.module = _Modules([module] + list(extra_modules)) if extra_modules else module
        self.opaque_ctors = set(opaque_ctors)   # classes whose constructor is not interpreted: fields from arguments
        self.hooks = hooks or {}                # function name -> python callable(interp, args, kwargs)
        self.objs = {}                  # name -> {'__class__': cls, field: value}   dicts: {'__class__':'dict','entries':[(Key, value)]}
        self.version = 0          # counts mutations of objects that existed when mark() was called
        self.marked = None
        self.n = 0
        self.failed_asserts = []
        self.field_alias = field_alias or {}
        # (a scenario that keeps the parent link of its objects as a plain field keeps the object there, not a weak reference to it)
        self.plain_weak_fields = {'parent_element'} if (field_alias or {}).get('_parent_element') == 'parent_element' else set()
        self.depth = 0

    def alloc(self, cls, fields=None, name=None):
        self.n += 1
        name = name or '@%s%d' % (cls[:1].lower(), self.n)
        if name in self.objs:
            name = '%s#%d' % (name, self.n)          # a second object of that name (two model lists in one heap): never the same object
        self.objs[name] = dict({'__class__': cls}, **(fields or {}))
        return Ref(name)

    def new_dict(self, name=None):
        return self.alloc('dict', {'entries': []}, name)

    def mark(self):
        """from now on only mutations of the objects that exist at this point count as observable"""
        self.marked = set(self.objs)
        self.version = 0

    def touch(self, name):
        if self.marked is None or name in self.marked:
            self.version += 1

    def new_list(self, items=(), name=None):
        return self.alloc('list', {'items': list(items)}, name)

    def is_list(self, v):
        return isinstance(v, Ref) and self.objs[v.name]['__class__'] == 'list'

    def items(self, v):
        return self.objs[v.name]['items']

    def isinstance_(self, v, cname):
        if cname == 'tuple':
            return isinstance(v, tuple)
        if cname == 'bytes':
            return isinstance(v, bytes) or (isinstance(v, SStr) and getattr(self, 'bytes_mode', False))
        if cname == 'str':
            if isinstance(v, SStr):
                return not getattr(self, 'bytes_mode', False)
            return isinstance(v, (Key, str))
        if cname in ('set', 'frozenset'):
            return isinstance(v, (set, frozenset))
        if cname in ('int',):
            return isinstance(v, int) and not isinstance(v, bool)
        if not isinstance(v, Ref):
            return False
        c = self.objs[v.name]['__class__']
        c = getattr(self, 'class_alias', {}).get(c, c)          # a scenario's stand-in object counts as an instance of the class it stands for
        if c == cname:
            return True
        mro = self.module.mro(c) if c in self.module.classes else [c]
        return cname in mro

    def snapshot(self):
        def norm_v(v):
            if isinstance(v, list):
                return tuple(((k[0].cls, k[0].spelling, repr(k[1])) if isinstance(k, tuple) and len(k) == 2 and isinstance(k[0], Key) else repr(k)) for k in v)
            return repr(v)
        return tuple(sorted((n, tuple(sorted((f, norm_v(v)) for f, v in o.items()))) for n, o in self.objs.items()
                            if self.marked is None or n in self.marked))

    # -- attribute access
    def fld(self, attr, cls):
        attr = self.field_alias.get(attr, attr)
        if attr.startswith('__') and not attr.endswith('__'):
            return '_%s%s' % (cls.lstrip('_'), attr)
        return attr

    def getattr(self, ref, attr, cur_cls):
        if not isinstance(ref, Ref):
            raise Raised('AttributeError', self.version, 0)
        o = self.objs[ref.name]
        f = self.fld(attr, cur_cls)
        if f in o:
            return o[f]
        # bound method?
        fn = self.module.method(o['__class__'], attr) if o['__class__'] in self.module.classes else None
        if fn is not None:
            return Closure(fn.node, {}, ref, fn.cls)
        # class-level variable (shared by all instances; a mutable one is one object)
        if o['__class__'] in self.module.classes:
            raw = attr[len('_' + (cur_cls or '').lstrip('_')):] if cur_cls and attr.startswith('_' + cur_cls.lstrip('_') + '__') else attr
            for nm in (attr, raw, f):
                node, c = self.module.class_const_node(o['__class__'], nm)
                if node is None:
                    continue
                cv = self.__dict__.setdefault('class_vars', {})
                if (c, nm) not in cv:
                    if isinstance(node, ast.Call) and norm(node.func) == 're.compile' and node.args:
                        home = self.module._home(c) if hasattr(self.module, '_home') else self.module
                        try:
                            cv[(c, nm)] = ('regex', '%s.%s' % (c, nm), home.fold(node.args[0], c), home.fold(node.args[1], c) if len(node.args) > 1 else 0)
                        except Exception:      # pylint: disable=broad-except
                            raise AnalysisError('heap model: regex %s.%s does not fold' % (c, nm))
                    elif isinstance(node, ast.Constant):
                        cv[(c, nm)] = node.value
                    elif isinstance(node, ast.Call) and norm(node.func) == 'property':
                        # name = property(fget, fset): read and written through the two functions
                        parts = list(node.args[:2]) + [None] * (2 - len(node.args[:2]))
                        for kw_ in node.keywords:
                            if kw_.arg == 'fget':
                                parts[0] = kw_.value
                            if kw_.arg == 'fset':
                                parts[1] = kw_.value
                        cv[(c, nm)] = ('property', c, parts[0], parts[1])
                    elif isinstance(node, ast.Call) and norm(node.func) in ('set', 'frozenset') and not node.args:
                        cv[(c, nm)] = set()
                    elif isinstance(node, ast.Set):
                        cv[(c, nm)] = set()
                    elif isinstance(node, ast.Dict) and node.keys and all(isinstance(k_, ast.Constant) for k_ in node.keys) \
                            and any(isinstance(v_, ast.Lambda) for v_ in node.values) \
                            and all(isinstance(v_, (ast.Lambda, ast.Constant)) for v_ in node.values):
                        # a dispatch table: constant keys, functions written in the class body as values
                        cv[(c, nm)] = self.new_dict('@classvar_%s_%s' % (c, nm))
                        self.objs[cv[(c, nm)].name]['entries'].extend(
                            (k_.value, Closure(v_, {}, None, c) if isinstance(v_, ast.Lambda) else v_.value) for k_, v_ in zip(node.keys, node.values))
                    elif (isinstance(node, ast.Call) and norm(node.func) == 'dict' and not node.args) or (isinstance(node, ast.Dict) and not node.keys):
                        cv[(c, nm)] = self.new_dict('@classvar_%s_%s' % (c, nm))
                    elif (isinstance(node, ast.Call) and norm(node.func) == 'list' and not node.args) or (isinstance(node, ast.List) and not node.elts):
                        cv[(c, nm)] = self.new_list([], '@classvar_%s_%s' % (c, nm))
                    elif isinstance(node, (ast.Tuple, ast.List)) and any(isinstance(n_, ast.Name) for n_ in ast.walk(node)) \
                            and self._class_body_value(node, c) is not None:
                        # a table whose entries name functions written in the class body (a dispatch table): the functions themselves
                        cv[(c, nm)] = self._class_body_value(node, c)[0]
                    else:
                        # a table of constants (tuple / frozenset / list of str, int ...): the folded value
                        home = self.module._home(c) if hasattr(self.module, '_home') else self.module
                        val = home.consts.get(c, {}).get(nm) if home is not None else None
                        if isinstance(val, (tuple, frozenset, str, int, bytes)) and not isinstance(val, bool):
                            cv[(c, nm)] = val
                        elif isinstance(val, list) and all(isinstance(x, (str, int, bytes)) for x in val):
                            cv[(c, nm)] = self.new_list(list(val), '@classvar_%s_%s' % (c, nm))
                        elif isinstance(val, dict) and all(isinstance(x, (str, int, bytes, tuple, type(None))) for x in list(val) + list(val.values())):
                            # a class-level dictionary of constants: ONE object for the class and all its instances
                            cv[(c, nm)] = self.new_dict('@classvar_%s_%s' % (c, nm))
                            self.objs[cv[(c, nm)].name]['entries'].extend(val.items())
                        elif isinstance(val, dict) and all(isinstance(x, (str, int, bytes, tuple, type(None))) for x in val) and all(
                                isinstance(x, (str, int, bytes, tuple, type(None))) or (isinstance(x, list) and all(isinstance(y, (str, int, bytes)) for y in x))
                                for x in val.values()):
                            # ... whose values may be lists of constants (each one list object)
                            cv[(c, nm)] = self.new_dict('@classvar_%s_%s' % (c, nm))
                            self.objs[cv[(c, nm)].name]['entries'].extend(
                                (k_, self.new_list(list(v_)) if isinstance(v_, list) else v_) for k_, v_ in val.items())
                        else:
                            continue
                return cv[(c, nm)]
        # an attribute the constructor of the class sets to a constant, read on an object the scenario built without running the
        # constructor: the constant (as if the constructor had run)
        if o['__class__'] in self.module.classes:
            for c_ in self.module.mro(o['__class__']):
                init_ = self.module.funcs.get('%s.__init__' % c_)
                if init_ is None:
                    continue
                for st_ in init_.node.body:
                    if isinstance(st_, ast.Assign) and len(st_.targets) == 1 and isinstance(st_.targets[0], ast.Attribute) and norm(st_.targets[0].value) == 'self' \
                            and self.fld(st_.targets[0].attr, c_) == f and isinstance(st_.value, ast.Constant):
                        o[f] = st_.value.value
                        return o[f]
        # class-level alias like `append = add`
        if o['__class__'] in self.module.classes:
            node, c = self.module.class_const_node(o['__class__'], attr)
            if isinstance(node, ast.Name):
                fn = self.module.method(o['__class__'], node.id)
                if fn is not None:
                    return Closure(fn.node, {}, ref, fn.cls)
        if o['__class__'] in self.module.classes and attr in _MAPPING_MIXIN and self.is_abc_mapping(o['__class__']):
            # a method the class inherits from collections.abc.Mapping / MutableMapping: the mixin's definition in terms of the
            # class's own __getitem__ / __setitem__
            return Closure(_MAPPING_MIXIN[attr], {}, ref, o['__class__'])
        if o['__class__'] in self.module.classes and not attr.startswith('#') and self.never_has(o['__class__'], attr):
            # no class of the object's hierarchy defines, stores or declares (__slots__) an attribute of that name, and all its base
            # classes are classes of the analysed modules (or object): the look-up raises AttributeError
            raise Raised('AttributeError', self.version, 0)
        raise AnalysisError('heap model: %s has no attribute %s' % (o['__class__'], attr))

    def is_abc_mapping(self, cname):
        """the class defines __getitem__ and every base outside the analysed modules is (an alias, under every module-level
        assignment of that alias, of) typing / collections.abc Mapping or MutableMapping, and there is at least one"""
        cache = self.__dict__.setdefault('abc_mapping_cache', {})
        if cname in cache:
            return cache[cname]
        mods = self.module.mods if hasattr(self.module, 'mods') else [self.module]

        def ends_in_mapping(b, depth=0):
            if isinstance(b, ast.Subscript):
                b = b.value
            if isinstance(b, ast.Attribute):
                return b.attr in ('Mapping', 'MutableMapping')
            if not isinstance(b, ast.Name) or depth > 4:
                return False
            if b.id in ('Mapping', 'MutableMapping'):
                return True
            alts = [st_.value for m_ in mods for st_ in ast.walk(getattr(m_, 'tree', None) or ast.Module(body=[], type_ignores=[]))
                    if isinstance(st_, ast.Assign) and len(st_.targets) == 1 and isinstance(st_.targets[0], ast.Name) and st_.targets[0].id == b.id]
            return bool(alts) and all(ends_in_mapping(a_, depth + 1) for a_ in alts)
        found, ok = 0, self.module.method(cname, '__getitem__') is not None
        for c_ in self.module.mro(cname):
            for b_ in self.module.classes[c_].bases:
                bn_ = b_.value if isinstance(b_, ast.Subscript) else b_
                nm_ = bn_.id if isinstance(bn_, ast.Name) else bn_.attr if isinstance(bn_, ast.Attribute) else None
                if nm_ in self.module.classes or nm_ in ('object', 'Generic'):
                    continue
                if ends_in_mapping(b_):
                    found += 1
                else:
                    ok = False
        cache[cname] = ok and found > 0
        return cache[cname]

    def never_has(self, cname, attr):
        cache = self.__dict__.setdefault('never_has_cache', {})
        if (cname, attr) in cache:
            return cache[(cname, attr)]
        ok = True
        for c_ in self.module.mro(cname):
            cd = self.module.classes.get(c_)
            if cd is None:
                ok = False
                break
            for b_ in cd.bases:
                bn_ = norm(b_).split('[')[0]
                if bn_.split('.')[-1] not in self.module.classes and bn_ not in ('object', 'Generic', 'typing.Generic') and not bn_.startswith('Generic'):
                    ok = False          # (a base class outside the analysed modules may bring the attribute)
            if any(m_.name == '__getattr__' for m_ in cd.body if isinstance(m_, ast.FunctionDef)):
                ok = False
            for n_ in ast.walk(cd):
                if isinstance(n_, ast.Attribute) and n_.attr in (attr, attr.split('__')[-1] if attr.startswith('_' + c_.lstrip('_') + '__') else attr) and isinstance(n_.ctx, ast.Store):
                    ok = False
                if isinstance(n_, (ast.FunctionDef, ast.ClassDef)) and n_.name == attr:
                    ok = False
                if isinstance(n_, ast.Name) and n_.id == attr and isinstance(n_.ctx, ast.Store):
                    ok = False
                if isinstance(n_, ast.Constant) and n_.value == attr:
                    ok = False          # (a name in __slots__, a setattr(self, 'name', ...))
            if not ok:
                break
        cache[(cname, attr)] = ok
        return ok

    def _class_body_value(self, node, c):
        """value of an expression of the class body of c that is built from constants, tuples / lists and names of functions defined in
        that class body: (value,) or None"""
        if isinstance(node, ast.Constant):
            return (node.value,)
        if isinstance(node, (ast.Tuple, ast.List)):
            vals = [self._class_body_value(e_, c) for e_ in node.elts]
            if any(v_ is None for v_ in vals):
                return None
            vals = [v_[0] for v_ in vals]
            return (tuple(vals),) if isinstance(node, ast.Tuple) else (self.new_list(vals),)
        if isinstance(node, ast.Name):
            home = self.module._home(c) if hasattr(self.module, '_home') else self.module
            fn = home.funcs.get('%s.%s' % (c, node.id)) if home is not None else None
            if fn is not None and not fn.node.decorator_list:
                return (Closure(fn.node, {}, None, c),)          # the plain function (no binding: it is called with the object)
            val = home.consts.get(c, {}).get(node.id) if home is not None else None
            if isinstance(val, (str, int, bytes, tuple, frozenset)) and not isinstance(val, bool):
                return (val,)
            mfn = home.funcs.get(node.id) if home is not None else None
            if mfn is not None and not mfn.node.decorator_list:
                return (Closure(mfn.node, {}, None, None),)          # a function of the module named in a class-level table
        return None

    def setattr(self, ref, attr, value, cur_cls):
        o = self.objs[ref.name]
        self.touch(ref.name)
        f_ = self.fld(attr, cur_cls)
        if f_ in getattr(self, 'plain_weak_fields', ()) and isinstance(value, tuple) and len(value) == 2 and value[0] == 'weak':
            value = value[1]          # (a scenario keeps this link as the object itself: a weak reference stored there is the object)
        o[f_] = value

    # -- dicts
    @staticmethod
    def _kid(k):
        """identity of a dictionary key: case-insensitive keys by their class, symbolic strings by structure"""
        if isinstance(k, Key):
            return ('key', k.cls)
        if isinstance(k, SStr):
            c = k.concrete()
            return ('key', c) if c is not None else ('sym', k.key())
        if isinstance(k, str):
            return ('key', k)        # a plain string equals the case-insensitive key only in the lower-cased spelling
        return ('val', k)

    def dict_get(self, dref, key, lineno=0):
        kid = self._kid(key)
        for k, v in self.objs[dref.name]['entries']:
            if self._kid(k) == kid:
                return v
        raise Raised('KeyError', self.version, lineno)

    def dict_has(self, dref, key):
        kid = self._kid(key)
        return any(self._kid(k) == kid for k, v in self.objs[dref.name]['entries'])

    def dict_set(self, dref, key, value):
        ent = self.objs[dref.name]['entries']
        self.touch(dref.name)
        kid = self._kid(key)
        for i, (k, v) in enumerate(ent):
            if self._kid(k) == kid:
                ent[i] = (k, value)       # an existing key object is kept (first spelling)
                return
        ent.append((key, value))

    def dict_del(self, dref, key, lineno=0):
        ent = self.objs[dref.name]['entries']
        kid = self._kid(key)
        for i, (k, v) in enumerate(ent):
            if self._kid(k) == kid:
                self.touch(dref.name)
                del ent[i]
                return
        raise Raised('KeyError', self.version, lineno)


def _builtin_exception_parents():
    """parent of every builtin exception class, by name (CPython's own hierarchy; IOError / EnvironmentError are names of OSError)"""
    import builtins
    out = {}
    for nm in dir(builtins):
        c = getattr(builtins, nm)
        if isinstance(c, type) and issubclass(c, BaseException) and c is not BaseException:
            out[nm] = c.__mro__[1].__name__ if c.__name__ == nm else c.__name__      # an alias leads to the class it names
    return out


_EXC_PARENTS = _builtin_exception_parents()


def _handler_matches(htype, exc, module=None):
    """does `except <htype>` catch an exception of the class named exc: the class, its base classes when it is a class of the analysed
    modules (class MyError(Error, ValueError)), the parents of the builtin exceptions, Exception and BaseException"""
    if htype is None:
        return True
    names = [norm(e) for e in htype.elts] if isinstance(htype, ast.Tuple) else [norm(htype)]
    chain, todo = [], [exc.split('.')[-1]]
    if exc not in todo:
        chain.append(exc)
    while todo:
        cur = todo.pop(0)
        if cur in chain:
            continue
        chain.append(cur)
        cd = module.classes.get(cur) if module is not None and hasattr(module, 'classes') else None
        if cd is not None:
            todo.extend(norm(b).split('.')[-1] for b in cd.bases)
        elif cur in _EXC_PARENTS:
            todo.append(_EXC_PARENTS[cur])
    chain += ['Exception', 'BaseException'] if 'Exception' not in chain else ['BaseException']
    return any(n in chain or n.split('.')[-1] in chain for n in names)


def _walk_fn(node):
    todo = list(ast.iter_child_nodes(node))
    while todo:
        n = todo.pop()
        yield n
        if isinstance(n, (ast.FunctionDef, ast.Lambda, ast.ClassDef)):
            continue
        todo.extend(ast.iter_child_nodes(n))


class Interp:
    def __init__(self, heap):
        self.h = heap

    def seq(self, v):
        """python list of the elements of an iterable value"""
        h = self.h
        if isinstance(v, tuple) and len(v) == 4 and v[0] == 'record' and isinstance(v[2], tuple) and isinstance(v[3], tuple):
            return list(v[3])           # a namedtuple iterates over its field values
        if isinstance(v, tuple) and len(v) == 2 and v[0] == 'class' and self.enum_member_refs(v[1]) is not None:
            return [r_ for _n, r_ in self.enum_member_refs(v[1])]          # an enum class iterates over its members, in definition order
        if isinstance(v, (list, tuple)):
            return list(v)
        if isinstance(v, PyIter):
            return v.drain()
        if isinstance(v, str):
            return list(v)              # a text iterates over its characters
        if isinstance(v, (set, frozenset)):
            return sorted(v, key=repr)
        if h.is_list(v):
            return list(h.items(v))
        if isinstance(v, Ref):
            o = h.objs[v.name]
            if o['__class__'] == 'dict':
                return [k for k, _ in o['entries']]
            oi_ = self.obj_iter(v)
            if oi_ is not None:
                return oi_.drain()
        raise AnalysisError('heap model: cannot iterate %r' % (v,))

    def walk(self, v):
        """the elements of an iterable value one at a time: an iterator is asked for an item only when the consumer wants one (what a
        consumer that stops early leaves in it stays in it)"""
        if isinstance(v, Ref) and not self.h.is_list(v) and self.h.objs[v.name]['__class__'] != 'dict':
            oi_ = self.obj_iter(v)
            if oi_ is not None:
                v = oi_
        if isinstance(v, PyIter):
            while v.has_next():
                yield v.take()
            return
        for x_ in self.seq(v):
            yield x_

    def obj_iter_possible(self, v):
        h = self.h
        return isinstance(v, Ref) and h.objs[v.name]['__class__'] in h.module.classes and (
            h.module.method(h.objs[v.name]['__class__'], '__next__') is not None or h.module.method(h.objs[v.name]['__class__'], '__iter__') is not None)

    def obj_iter(self, v):
        """the iterator of an object of a class of the module: what its __iter__ hands out, or -- for a class with __next__ (an iterator:
        collections.abc.Iterator gives it `__iter__ = return self`) -- the object itself, asked item by item"""
        h = self.h
        if not (isinstance(v, Ref) and h.objs[v.name]['__class__'] in h.module.classes):
            return None
        cn_ = h.objs[v.name]['__class__']
        it = h.module.method(cn_, '__iter__')
        if it is not None:
            r_ = self.call(Closure(it.node, {}, v, it.cls), [])
            if isinstance(r_, PyIter):
                return r_
            if isinstance(r_, Ref) and r_.name != v.name:
                return self.obj_iter(r_) or PyIter(self.seq(r_))
            if not isinstance(r_, Ref):
                return PyIter(self.seq(r_))
        nx = h.module.method(cn_, '__next__')
        if nx is None:
            return None

        def producer(v=v, nx=nx):
            try:
                return (True, self.call(Closure(nx.node, {}, v, nx.cls), []))
            except Raised as x_:
                if x_.exc == 'StopIteration':
                    return (False, None)
                raise
        return PyIter([], producer)

    def enum_member_refs(self, cname):
        """[(name, member object)] of an enum class of the module (one object per member for the whole run: `is` and `==` are identity)"""
        h = self.h
        if not isinstance(cname, str) or cname not in h.module.classes:
            return None
        cache = h.__dict__.setdefault('enum_cache', {})
        if cname not in cache:
            home = h.module._home(cname) if hasattr(h.module, '_home') else h.module
            mem = home.enum_members(cname) if home is not None and hasattr(home, 'enum_members') else None
            if mem is None:
                cache[cname] = None
            else:
                cache[cname] = [(n_, h.alloc(cname, {'name': n_, 'value': (h.new_list(list(v_)) if isinstance(v_, list) else v_), '_name_': n_, '_value_': v_},
                                             name='@enum_%s_%s' % (cname, n_))) for n_, v_ in mem]
        return cache[cname]

    def lazy_iter(self, gen):
        """an iterator of the model that takes its items from a Python generator, one when one is asked for"""
        def producer_():
            for x_ in gen:
                return (True, x_)
            return (False, None)
        return PyIter([], producer_)

    def accessor(self, cname, attr, kind):
        """the @property getter (kind 'get') / the @<attr>.setter (kind 'set') of `attr`, looked up through the classes of the object"""
        h = self.h
        if cname not in h.module.classes:
            return None
        want = 'property' if kind == 'get' else attr + '.setter'
        for c_ in h.module.mro(cname):
            home_ = h.module._home(c_) if hasattr(h.module, '_home') else h.module
            if home_ is None:
                continue
            for q_, f_ in home_.funcs.items():
                if (q_ == '%s.%s' % (c_, attr) or q_.startswith('%s.%s#' % (c_, attr))) and isinstance(f_.node, ast.FunctionDef) \
                        and any(norm(d_) == want for d_ in f_.node.decorator_list):
                    return f_
        return None

    def is_contextmanager(self, fnode):
        """the called function is a generator function of the module decorated with contextlib.contextmanager"""
        h = self.h
        name = fnode.id if isinstance(fnode, ast.Name) else None
        if name is None:
            return False
        for mod_ in (h.module.mods if hasattr(h.module, 'mods') else [h.module]):
            f_ = mod_.funcs.get(name)
            if f_ is not None and any(norm(d) in ('contextlib.contextmanager', 'contextmanager') for d in f_.node.decorator_list):
                return True
        return False

    def is_module_logger(self, name):
        """NAME = logging.getLogger(...) at module level"""
        h = self.h
        for mod_ in (h.module.mods if hasattr(h.module, 'mods') else [h.module]):
            node_ = mod_.const_nodes.get('', {}).get(name)
            if isinstance(node_, ast.Call) and norm(node_.func) in ('logging.getLogger', 'getLogger'):
                return True
        return False

    def defaults_now(self, node, env, cls):
        """the default values of a nested function / lambda, computed where it is defined (parameter -> value)"""
        a_ = node.args
        params = [x.arg for x in a_.args]
        out = {}
        for p_, d_ in zip(params[len(params) - len(a_.defaults):], a_.defaults):
            out[p_] = self.ev(d_, env, cls)
        for x_, d_ in zip(a_.kwonlyargs, a_.kw_defaults):
            if d_ is not None:
                out[x_.arg] = self.ev(d_, env, cls)
        return out

    def call(self, fn, args, kwargs=None):
        """fn: Closure"""
        h = self.h
        h.depth += 1
        if h.depth > 30:
            raise AnalysisError('heap model: call depth exceeded')
        try:
            node = fn.node
            env = dict(fn.env)
            env.pop('#nonlocal', None)
            env.pop('#comp_outer', None)
            env['#outer'] = fn.env          # (for `nonlocal` stores)
            params = [a.arg for a in node.args.args]
            if isinstance(node, ast.Lambda):
                if node.args.vararg is not None:
                    env[node.args.vararg.arg] = tuple(args[len(params):])       # lambda a, *rest: ...
                elif len(args) > len(params):
                    raise AnalysisError('heap model: too many arguments for a lambda')
                env.update(zip(params, args))
                given_ = set(params[:len(args)]) | set(kwargs or {})
                stored_ = getattr(fn, 'defaults', None)
                for p, d in zip(params[len(params) - len(node.args.defaults):], node.args.defaults):
                    if p not in given_:
                        env[p] = stored_[p] if stored_ is not None and p in stored_ else self.ev(d, env, fn.cls)
                for k, v in (kwargs or {}).items():
                    env[k] = v
                return self.ev(node.body, env, fn.cls)
            decos = [norm(d) for d in node.decorator_list]
            allargs = list(args)
            if fn.self_ref is not None and 'staticmethod' not in decos:
                allargs = [fn.self_ref] + allargs
            elif fn.self_ref is None and 'classmethod' in decos and fn.cls and not (
                    allargs and isinstance(allargs[0], tuple) and len(allargs[0]) == 2 and allargs[0][0] == 'class') \
                    and len(allargs) + sum(1 for k_ in (kwargs or {}) if k_ in params[:len(params) - len(node.args.defaults)]) < len(params) - len(node.args.defaults):
                # a class method taken from its class (the caller gave the arguments after `cls` only): the class is the first argument
                allargs = [('class', fn.cls)] + allargs
            if node.args.vararg is not None:
                # def f(a, *rest): the arguments beyond the named parameters, as a tuple
                env[node.args.vararg.arg] = tuple(allargs[len(params):])
                allargs = allargs[:len(params)]
            if len(allargs) > len(params):
                raise AnalysisError('heap model: too many arguments for %s' % node.name)
            env.update(zip(params, allargs))
            defaults = node.args.defaults
            given_ = set(params[:len(allargs)]) | set(kwargs or {})
            stored_ = getattr(fn, 'defaults', None)
            for p, d in zip(params[len(params) - len(defaults):], defaults):
                if p not in given_:
                    env[p] = stored_[p] if stored_ is not None and p in stored_ else self.ev(d, env, fn.cls)
            for a, d in zip(node.args.kwonlyargs, node.args.kw_defaults):
                if a.arg in (kwargs or {}):
                    env[a.arg] = kwargs[a.arg]
                elif stored_ is not None and a.arg in stored_:
                    env[a.arg] = stored_[a.arg]
                else:
                    env[a.arg] = self.ev(d, env, fn.cls) if d is not None else None
            named = set(params) | {a.arg for a in node.args.kwonlyargs}
            if node.args.kwarg is not None:
                # def f(..., **rest): the keyword arguments that name no parameter, as a dictionary
                rest_ = h.new_dict()
                for k, v in (kwargs or {}).items():
                    if k not in named:
                        h.dict_set(rest_, k, v)
                env[node.args.kwarg.arg] = rest_
                kwargs = {k: v for k, v in (kwargs or {}).items() if k in named}
            for k, v in (kwargs or {}).items():
                env[k] = v
            nd_ = len(params) - len(defaults)
            for i_, p in enumerate(params):
                if p not in given_ and i_ < nd_:
                    raise AnalysisError('heap model: missing argument %s of %s' % (p, node.name))
            is_gen = any(isinstance(x, (ast.Yield, ast.YieldFrom)) for x in _walk_fn(node))
            if is_gen and getattr(h, 'lazy_generators', True):
                # a generator function: nothing of its body runs now; each item is computed when it is asked for (the body runs in a
                # thread of its own that is resumed for one item at a time -- strict hand-over, never two at once)
                g_ = _GenRun(self, node.body, env, fn.cls)
                return PyIter([], g_.producer, g_)
            if is_gen:
                env['#yields'] = []
            r = self.run(node.body, env, fn.cls)
            if is_gen:
                return list(env['#yields'])
            return r[1] if r is not None and r[0] == 'return' else None
        finally:
            h.depth -= 1

    def complete_from_init(self, ref):
        """a scenario object that was built without running its constructor: the attributes the constructor derives from other attributes
        of the object (`self.x = self.y.method`, `self.n = len(self.items)`) are set now, from the object as the scenario built it --
        as the constructor would have left them -- so that later changes of the attributes they were derived from do not reach them"""
        h = self.h
        o = h.objs[ref.name]
        for c_ in (h.module.mro(o['__class__']) if o['__class__'] in h.module.classes else []):
            init_ = h.module.method(c_, '__init__')
            if init_ is None or init_.cls != c_:
                continue
            params = {a.arg for a in init_.node.args.args + init_.node.args.kwonlyargs} - {'self'}
            for st_ in init_.node.body:
                if not (isinstance(st_, ast.Assign) and len(st_.targets) == 1 and isinstance(st_.targets[0], ast.Attribute) and norm(st_.targets[0].value) == 'self'):
                    continue
                f_ = h.fld(st_.targets[0].attr, c_)
                if f_ in o or isinstance(st_.value, ast.Constant):
                    continue
                names = {n_.id for n_ in ast.walk(st_.value) if isinstance(n_, ast.Name)}
                if names & params or not any(isinstance(n_, ast.Attribute) and norm(n_.value) == 'self' for n_ in ast.walk(st_.value)) \
                        or any(isinstance(n_, ast.Call) for n_ in ast.walk(st_.value)):
                    continue
                try:
                    o[f_] = self.ev(st_.value, {'self': ref}, c_)
                except (AnalysisError, Raised):
                    pass

    def run(self, stmts, env, cls):
        for st in stmts:
            r = self.exec(st, env, cls)
            if r is not None:
                return r
        return None

    def truth(self, v):
        if isinstance(v, (set, frozenset)):
            return bool(v)
        if isinstance(v, SStr):
            return v.truth()
        if isinstance(v, SInt):
            return not symstr.compare_int(v, 'Eq', 0)
        if isinstance(v, tuple) and v and v[0] == 'linesof':
            return v[1].truth()          # no lines exactly for the empty string
        if isinstance(v, tuple) and v and v[0] == 'linecount':
            return v[1].truth()
        if v is None or v is False or v == 0:
            return False
        if isinstance(v, Ref):
            o = self.h.objs[v.name]
            if o['__class__'] == 'dict':
                return bool(o['entries'])
            if o['__class__'] == 'list':
                return bool(o['items'])
            c = o['__class__']
            b = self.h.module.method(c, '__bool__') if c in self.h.module.classes else None
            if b is not None:
                return self.truth(self.call(Closure(b.node, {}, v, b.cls), []))
            ln = self.h.module.method(c, '__len__') if c in self.h.module.classes else None
            if ln is not None:
                return self.truth(self.call(Closure(ln.node, {}, v, ln.cls), []))
            return True
        return bool(v)

    def ev(self, e, env, cls):
        h = self.h
        if isinstance(e, ast.Constant):
            if isinstance(e.value, bytes) and getattr(h, 'symbolic_strings', False):
                return e.value.decode('latin-1')
            return e.value
        if isinstance(e, ast.Name):
            if e.id in env:
                return env[e.id]
            if e.id in h.module.classes:
                return ('class', e.id)
            if e.id in h.hooks:
                return ('hook', e.id)
            if e.id in h.module.funcs:
                fdef_ = h.module.funcs[e.id].node
                decos_ = [d_ for d_ in getattr(fdef_, 'decorator_list', []) if isinstance(d_, ast.Name) and d_.id in h.module.funcs and d_.id not in h.hooks
                          and any(isinstance(x_, ast.FunctionDef) for x_ in h.module.funcs[d_.id].node.body)]
                if decos_ and len(decos_) == len(fdef_.decorator_list):
                    # @decorator of the analysed modules (a function that returns a nested function): the name is bound to what the
                    # decorator returns for the function, made once
                    mv_ = h.__dict__.setdefault('module_values', {})
                    if ('@', e.id) not in mv_:
                        v_ = Closure(fdef_, {}, None, None)
                        for d_ in reversed(decos_):
                            v_ = self.call(Closure(h.module.funcs[d_.id].node, {}, None, None), [v_])
                        mv_[('@', e.id)] = v_
                    return mv_[('@', e.id)]
                return Closure(fdef_, {}, None, None)
            for mod_ in (h.module.mods if hasattr(h.module, 'mods') else [h.module]):
                node_ = mod_.const_nodes.get('', {}).get(e.id)
                if isinstance(node_, ast.Call) and norm(node_.func) == 're.compile':
                    try:
                        return ('regex', e.id, mod_.fold(node_.args[0], ''), mod_.fold(node_.args[1], '') if len(node_.args) > 1 else 0)
                    except Exception:      # pylint: disable=broad-except
                        pass
            for mod_ in (h.module.mods if hasattr(h.module, 'mods') else [h.module]):
                node_ = mod_.const_nodes.get('', {}).get(e.id)
                # a named-tuple type defined at module level, and a module-level instance of one built from constants
                if isinstance(node_, ast.Call) and norm(node_.func) in ('collections.namedtuple', 'namedtuple') and len(node_.args) == 2 and not node_.keywords:
                    try:
                        fields_ = mod_.fold(node_.args[1], '')
                        tname_ = mod_.fold(node_.args[0], '')
                    except Exception:      # pylint: disable=broad-except
                        continue
                    if isinstance(fields_, str):
                        fields_ = fields_.replace(',', ' ').split()
                    return ('namedtuple', tname_, tuple(fields_))
                if isinstance(node_, ast.Call) and isinstance(node_.func, ast.Name) and node_.func.id != e.id \
                        and isinstance(mod_.const_nodes.get('', {}).get(node_.func.id), ast.Call) \
                        and norm(mod_.const_nodes[''][node_.func.id].func) in ('collections.namedtuple', 'namedtuple') \
                        and all(isinstance(a_, ast.Constant) for a_ in node_.args) and all(isinstance(k_.value, ast.Constant) for k_ in node_.keywords):
                    nt_ = self.ev(ast.copy_location(ast.Name(id=node_.func.id, ctx=ast.Load()), e), {}, None)
                    return self.apply(nt_, [a_.value for a_ in node_.args], {k_.arg: k_.value.value for k_ in node_.keywords})
            for mod_ in (h.module.mods if hasattr(h.module, 'mods') else [h.module]):
                node_ = mod_.const_nodes.get('', {}).get(e.id)
                # module-level slice(...) and struct.Struct(...) objects built from constants
                if isinstance(node_, ast.Call) and norm(node_.func) == 'slice' and 1 <= len(node_.args) <= 3 and not node_.keywords:
                    try:
                        return slice(*[mod_.fold(a_, '') for a_ in node_.args])
                    except Exception:      # pylint: disable=broad-except
                        pass
                if isinstance(node_, ast.Call) and norm(node_.func) in ('operator.attrgetter', 'attrgetter', 'operator.itemgetter', 'itemgetter') and len(node_.args) == 1 \
                        and isinstance(node_.args[0], ast.Constant) and not node_.keywords:
                    return ('attrgetter' if norm(node_.func).endswith('attrgetter') else 'itemgetter', node_.args[0].value)
                if isinstance(node_, ast.Call) and norm(node_.func) in ('struct.Struct', 'Struct') and len(node_.args) == 1 and not node_.keywords:
                    try:
                        fmt_ = mod_.fold(node_.args[0], '')
                    except Exception:      # pylint: disable=broad-except
                        fmt_ = None
                    if isinstance(fmt_, (str, bytes)):
                        return ('struct', fmt_)
            if e.id in h.module.consts.get('', {}) and isinstance(h.module.consts[''][e.id], dict):
                d_ = h.new_dict()
                for k_, v_ in h.module.consts[''][e.id].items():
                    h.objs[d_.name]['entries'].append((k_, h.new_list(list(v_)) if isinstance(v_, list) else v_))
                return d_
            if e.id in h.module.consts.get('', {}) and isinstance(h.module.consts[''][e.id], (str, bytes, int, tuple, list, frozenset)):
                v = h.module.consts[''][e.id]
                if getattr(h, 'symbolic_strings', False):
                    # (bytes constants are text of the model, also inside tuples)
                    def _as_text(x):
                        if isinstance(x, bytes):
                            return x.decode('latin-1')
                        if isinstance(x, tuple):
                            return tuple(_as_text(y) for y in x)
                        if isinstance(x, list):
                            return [_as_text(y) for y in x]
                        return x
                    v = _as_text(v)
                return h.new_list(list(v)) if isinstance(v, list) else v
            for mod_ in (h.module.mods if hasattr(h.module, 'mods') else [h.module]):
                node_ = mod_.const_nodes.get('', {}).get(e.id)
                # a module-level tuple / list of names of other module-level objects (a table of compiled patterns, of functions)
                if isinstance(node_, (ast.Tuple, ast.List)) and node_.elts and all(isinstance(x_, (ast.Name, ast.Constant)) for x_ in node_.elts) \
                        and any(isinstance(x_, ast.Name) for x_ in node_.elts) and not any(isinstance(x_, ast.Name) and x_.id == e.id for x_ in node_.elts):
                    vals_ = [self.ev(x_, {}, None) for x_ in node_.elts]
                    return tuple(vals_) if isinstance(node_, ast.Tuple) else h.new_list(vals_)
                tree_ = getattr(mod_, 'tree', None)
                for st_ in (tree_.body if tree_ is not None else []):
                    if isinstance(st_, ast.ImportFrom):
                        for a_ in st_.names:
                            if (a_.asname or a_.name) == e.id and (st_.module, a_.name) in _STDLIB_CONSTANTS:
                                return _STDLIB_CONSTANTS[(st_.module, a_.name)]          # a constant of the standard library
            # NAME = factory(...) at module level, the factory a function of the analysed modules that returns a nested function (a stage of
            # a pipeline made at import time): the function it hands out, made once
            mv_ = h.__dict__.setdefault('module_values', {})
            if e.id in mv_:
                return mv_[e.id]
            for mod_ in (h.module.mods if hasattr(h.module, 'mods') else [h.module]):
                node_ = mod_.const_nodes.get('', {}).get(e.id)
                if isinstance(node_, ast.Call) and isinstance(node_.func, ast.Name) and node_.func.id[:1].isupper() and node_.func.id in h.module.classes \
                        and node_.func.id not in h.hooks and e.id.isupper() and h.module.method(node_.func.id, '__init__') is not None:
                    # NAME = ClassOfTheModules(...) at module level (a constant object: an interpretation, a formatter): made once
                    mv_[e.id] = self.ev(node_, {}, None)
                    return mv_[e.id]
                if isinstance(node_, ast.Call) and isinstance(node_.func, ast.Name) and node_.func.id == 'object' and not node_.args and not node_.keywords \
                        and 'object' not in h.hooks:
                    # NAME = object() at module level (a private marker): one object, identical to itself only
                    mv_[e.id] = h.alloc('object', {})
                    return mv_[e.id]
                if isinstance(node_, ast.Call) and isinstance(node_.func, ast.Name) and not node_.func.id[:1].isupper():
                    fac_ = None
                    for m2_ in (h.module.mods if hasattr(h.module, 'mods') else [h.module]):
                        fac_ = fac_ or m2_.funcs.get(node_.func.id)
                    if fac_ is not None and any(isinstance(x_, ast.FunctionDef) for x_ in fac_.node.body) and node_.func.id not in h.hooks:
                        mv_[e.id] = self.ev(node_, {}, None)
                        return mv_[e.id]
            if e.id in ('tuple', 'str', 'int', 'list', 'dict', 'bytes', 'set', 'frozenset') or (e.id[:1].isupper() and e.id not in env):
                return ('class', e.id)
            if e.id in ('len', 'repr', 'ord', 'chr', 'bool', 'sorted', 'min', 'max', 'any', 'all', 'enumerate', 'reversed') and e.id not in h.hooks:
                return ('builtin', e.id)            # a builtin function as a value (map(len, xs), key=len)
            # a name the module imports from elsewhere (function, class, constant of another module): an opaque value that
            # can be stored and compared, not called
            for mod_ in (h.module.mods if hasattr(h.module, 'mods') else [h.module]):
                tree_ = getattr(mod_, 'tree', None)
                for st_ in (tree_.body if tree_ is not None else []):
                    for n_ in ([st_] if isinstance(st_, ast.ImportFrom) else [x for x in ast.walk(st_) if isinstance(x, ast.ImportFrom)] if isinstance(st_, (ast.Try, ast.If)) else []):
                        if any((a_.asname or a_.name) == e.id for a_ in n_.names):
                            orig_ = next(a_.name for a_ in n_.names if (a_.asname or a_.name) == e.id)
                            if (n_.module, orig_) in _STDLIB_CONSTANTS:
                                return _STDLIB_CONSTANTS[(n_.module, orig_)]          # a constant of the standard library
                            return ('extern', '%s.%s' % (n_.module, e.id))
            raise AnalysisError('heap model: unbound name %s' % e.id)
        if isinstance(e, ast.Attribute) and isinstance(e.value, ast.Name) and e.value.id == 'string' and 'string' not in env:
            from .consteval import _STRING_CONSTS
            if e.attr in _STRING_CONSTS:
                return _STRING_CONSTS[e.attr]
        if isinstance(e, ast.Attribute) and isinstance(e.value, ast.Name) and e.value.id == 're' and 're' not in env:
            from .core import RE_FLAGS
            if e.attr in RE_FLAGS:
                return int(RE_FLAGS[e.attr])
        if isinstance(e, ast.BinOp) and isinstance(e.op, (ast.BitOr, ast.BitAnd)):
            l, r = self.ev(e.left, env, cls), self.ev(e.right, env, cls)
            if isinstance(l, int) and isinstance(r, int):
                return (l | r) if isinstance(e.op, ast.BitOr) else (l & r)
            if isinstance(l, (set, frozenset)) and isinstance(r, (set, frozenset)):
                return (l | r) if isinstance(e.op, ast.BitOr) else (l & r)
        if isinstance(e, ast.Attribute):
            base = self.ev(e.value, env, cls)
            if base == ('super',) and cls and isinstance(env.get('self'), Ref) and 'super' not in h.hooks:
                # super().m inside a method of class `cls`: m of the next class in the method resolution order of the object, bound to it
                me_ = env['self']
                oc_ = h.objs[me_.name]['__class__']
                mro_ = h.module.mro(oc_) if oc_ in h.module.classes else []
                after_ = mro_[mro_.index(cls) + 1:] if cls in mro_ else []
                for c_ in after_:
                    home_ = h.module._home(c_) if hasattr(h.module, '_home') else h.module
                    fn_ = home_.funcs.get('%s.%s' % (c_, e.attr)) if home_ is not None else None
                    if fn_ is not None:
                        return Closure(fn_.node, {}, me_, c_)
                if e.attr in ('__exit__', '__enter__') and any('AbstractContextManager' in norm(b_) for c2_ in mro_ if c2_ in h.module.classes for b_ in h.module.classes[c2_].bases):
                    # contextlib.AbstractContextManager: __enter__ hands out the object, __exit__ answers None (nothing is swallowed)
                    h.hooks.setdefault('#acm___enter__', lambda it_, a_, k_: a_[0])
                    h.hooks.setdefault('#acm___exit__', lambda it_, a_, k_: None)
                    return ('partial', ('hook', '#acm_' + e.attr), [me_], {})
                raise AnalysisError('heap model: super().%s not found above %s' % (e.attr, cls))
            if isinstance(base, tuple) and len(base) == 2 and base[0] == 'class' and base[1] in ('str', 'bytes') and base[1] not in h.module.classes \
                    and not e.attr.startswith('_') and callable(getattr(str if base[1] == 'str' else bytes, e.attr, None)):
                return ('unboundmethod', base[1], e.attr)           # str.isspace, str.lower ... as a value (a key function)
            if isinstance(base, tuple) and base[0] == 'class' and len(base) == 2 and self.enum_member_refs(base[1]) is not None \
                    and e.attr in dict(self.enum_member_refs(base[1])):
                return dict(self.enum_member_refs(base[1]))[e.attr]          # a member of an enum class of the module
            if isinstance(base, tuple) and base[0] == 'class':
                fn = h.module.method(base[1], e.attr)
                if fn is None:
                    cv = self.class_value(base[1], e.attr, cls)
                    if cv is not None:
                        return cv
                    raise AnalysisError('heap model: %s.%s not found' % (base[1], e.attr))
                if any(norm(d) == 'classmethod' for d in fn.node.decorator_list):
                    return Closure(fn.node, {}, ('class', base[1]), fn.cls)
                return Closure(fn.node, {}, None, fn.cls)
            if isinstance(base, Ref) and ('.' + e.attr) in h.hooks and isinstance(e.ctx, ast.Load):
                # a method the scenario supplies, taken as a value (`iter(self.readline, b'')`): bound to its receiver
                return ('partial', ('hook', '.' + e.attr), [base], {})
            if e.attr == '__contains__' and isinstance(base, (set, frozenset, str, tuple)) and not (isinstance(base, tuple) and base and isinstance(base[0], str) and base[0] in ('regex', 'record', 'partial', 'class', 'hook')):
                return ('partial', ('hook', '#contains'), [base], {})       # the membership test of a builtin container, as a value
            if isinstance(base, tuple) and base and base[0] == 'regex':
                return ('regexmethod', base, e.attr)
            if isinstance(base, tuple) and len(base) == 2 and base[0] == 'struct':
                import struct as _struct
                if e.attr == 'size':
                    return _struct.calcsize(base[1])
                if e.attr == 'format':
                    return base[1]
                if e.attr in ('unpack', 'unpack_from', 'pack'):
                    return ('structmethod', base[1], e.attr)
            if isinstance(base, tuple) and base and base[0] == 'record' and e.attr in base[2]:
                return base[3][base[2].index(e.attr)]
            if isinstance(base, tuple) and len(base) == 4 and base[0] == 'record' and isinstance(base[1], str) and base[1] in h.module.classes \
                    and h.module.method(base[1], e.attr) is not None:
                m_ = h.module.method(base[1], e.attr)          # a method of a named-tuple class of the module, bound to the record
                return Closure(m_.node, {}, base, m_.cls)
            if isinstance(base, SStr):
                return ('symmethod', base, e.attr)
            if isinstance(base, Key) and e.attr in ('endswith', 'startswith', 'strip', 'lstrip', 'rstrip', 'lower', 'upper', 'split', 'partition', 'splitlines', 'find',
                                                     'index', 'count', 'replace', 'isspace', 'isdigit'):
                base = base.spelling      # text methods of a case-insensitive string work on its spelling
            if isinstance(base, str) and not e.attr.startswith('_') and callable(getattr(str, e.attr, None)):
                return ('strmethod', base, e.attr)          # a method of a decided text: CPython's own str decides
            if isinstance(base, bytes) and not e.attr.startswith('_') and callable(getattr(bytes, e.attr, None)):
                return ('strmethod', base, e.attr)          # ... and of decided bytes: CPython's own bytes decides
            if e.attr == '__class__' and isinstance(base, Ref) and h.objs[base.name]['__class__'] in h.module.classes:
                return ('class', h.objs[base.name]['__class__'])
            if isinstance(base, Ref) and h.objs[base.name]['__class__'] == '#StringIO' and isinstance(e.ctx, ast.Load) and e.attr in ('write', 'getvalue', 'close'):
                return ('boundmethod', base, e.attr)        # a method of a text buffer taken as a value (`write = buf.write`)
            if isinstance(base, Ref) and h.objs[base.name]['__class__'] in ('list', 'dict') and isinstance(e.ctx, ast.Load) and e.attr in (
                    'append', 'extend', 'insert', 'update', 'setdefault', 'get', 'pop', 'remove', 'add', 'discard', 'clear', 'keys', 'values', 'items', 'index', 'count'):
                return ('boundmethod', base, e.attr)        # a method of a builtin container taken as a value (`add = xs.append`)
            v = self.obj_getattr(base, e.attr, cls)
            if isinstance(v, Closure) and isinstance(v.node, ast.FunctionDef) and any(norm(d) == 'property' for d in v.node.decorator_list):
                return self.call(v, [])
            if isinstance(v, Closure) and isinstance(v.node, ast.FunctionDef) and isinstance(base, Ref) and any(norm(d) == e.attr + '.setter' for d in v.node.decorator_list):
                g_ = self.accessor(h.objs[base.name]['__class__'], e.attr, 'get')          # (the setter is the later definition: read through the getter)
                if g_ is not None:
                    return self.call(Closure(g_.node, {}, base, g_.cls), [])
            if isinstance(v, tuple) and len(v) == 4 and v[0] == 'property' and isinstance(base, Ref):
                return self.call_accessor(v[1], v[2], base, [], e)
            return v
        if isinstance(e, ast.Compare) and len(e.ops) > 1:
            # a < b <= c: the conjunction of the links, left to right with short circuit (operands are evaluated once in Python; the
            # operands here are names / constants / pure expressions)
            left = e.left
            for op_, right in zip(e.ops, e.comparators):
                link = ast.copy_location(ast.Compare(left=left, ops=[op_], comparators=[right]), e)
                if not self.truth(self.ev(link, env, cls)):
                    return False
                left = right
            return True
        if isinstance(e, ast.Compare) and len(e.ops) == 1:
            l = self.ev(e.left, env, cls)
            r = self.ev(e.comparators[0], env, cls)
            op = e.ops[0]
            if isinstance(op, (ast.In, ast.NotIn)) and isinstance(r, Key) and isinstance(l, (str, SStr)):
                r = r.spelling          # substring test on the text of a case-insensitive string
            if isinstance(l, (SStr, SInt)) or isinstance(r, (SStr, SInt)) or any(isinstance(x, tuple) and x and x[0] == 'linecount' for x in (l, r)):
                return self.sym_compare(l, op, r, e)
            if isinstance(op, (ast.Is, ast.IsNot)):
                same = (l is None and r is None) or (isinstance(l, Ref) and isinstance(r, Ref) and l == r) or (l is r) or (
                    isinstance(l, tuple) and isinstance(r, tuple) and len(l) == 2 and l[0] == 'class' and l == r and isinstance(l[1], str))      # one class object per class
                return same if isinstance(op, ast.Is) else not same
            if isinstance(op, (ast.Eq, ast.NotEq)):
                if isinstance(l, Key) and isinstance(r, Key):
                    same = l.cls == r.cls
                elif isinstance(l, Ref) or isinstance(r, Ref):
                    same = self.equal_values(l, r)
                else:
                    same = l == r
                return same if isinstance(op, ast.Eq) else not same
            if isinstance(op, (ast.In, ast.NotIn)) and isinstance(r, (set, frozenset)):
                res = l in r
                return res if isinstance(op, ast.In) else not res
            if isinstance(op, (ast.In, ast.NotIn)) and isinstance(r, str) and isinstance(l, str):
                return (l in r) if isinstance(op, ast.In) else (l not in r)
            if isinstance(op, (ast.In, ast.NotIn)) and isinstance(r, bytes) and isinstance(l, (bytes, int)) and not isinstance(l, bool):
                return (l in r) if isinstance(op, ast.In) else (l not in r)
            if isinstance(op, (ast.In, ast.NotIn)) and (h.is_list(r) or isinstance(r, (list, tuple))):
                items = h.items(r) if h.is_list(r) else list(r)
                res = any((x == l) if not isinstance(l, Key) else (isinstance(x, Key) and x.cls == l.cls) for x in items)
                return res if isinstance(op, ast.In) else not res
            if isinstance(op, (ast.In, ast.NotIn)):
                if isinstance(r, Ref):
                    o = h.objs[r.name]
                    if o['__class__'] == 'dict':
                        res = h.dict_has(r, l)
                    elif '__contains__' in h.hooks:
                        res = self.truth(h.hooks['__contains__'](self, [r, l], {}))
                    else:
                        c = h.module.method(o['__class__'], '__contains__')
                        if c is None:
                            raise AnalysisError('heap model: `in` on %s' % o['__class__'])
                        res = self.truth(self.call(Closure(c.node, {}, r, c.cls), [l]))
                    return res if isinstance(op, ast.In) else not res
            if isinstance(l, int) and isinstance(r, int):
                return {ast.Lt: l < r, ast.LtE: l <= r, ast.Gt: l > r, ast.GtE: l >= r}[type(op)]
            if isinstance(op, (ast.Lt, ast.LtE, ast.Gt, ast.GtE)) and isinstance(l, (set, frozenset, KeysList)) and isinstance(r, (set, frozenset, KeysList)) \
                    and all(isinstance(x_, (str, bytes, int, tuple)) for x_ in list(l) + list(r)):
                # subset / superset of two sets (a keys view is set-like) of decided plain values
                sl_, sr_ = set(l), set(r)
                return {ast.Lt: sl_ < sr_, ast.LtE: sl_ <= sr_, ast.Gt: sl_ > sr_, ast.GtE: sl_ >= sr_}[type(op)]
            if isinstance(op, (ast.Lt, ast.LtE, ast.Gt, ast.GtE)) and (
                    (isinstance(l, Ref) and h.objs[l.name]['__class__'] in h.module.classes) or (isinstance(r, Ref) and h.objs[r.name]['__class__'] in h.module.classes)):
                # an object of the module on one side: its own rich comparison method, else the reflected one of the other side
                nm_ = {ast.Lt: '__lt__', ast.LtE: '__le__', ast.Gt: '__gt__', ast.GtE: '__ge__'}[type(op)]
                refl_ = {'__lt__': '__gt__', '__le__': '__ge__', '__gt__': '__lt__', '__ge__': '__le__'}[nm_]
                for me_, other_, m_ in ((l, r, nm_), (r, l, refl_)):
                    if isinstance(me_, Ref) and h.objs[me_.name]['__class__'] in h.module.classes:
                        f_ = h.module.method(h.objs[me_.name]['__class__'], m_)
                        if f_ is not None:
                            res_ = self.call(Closure(f_.node, {}, me_, f_.cls), [other_])
                            if not (isinstance(res_, tuple) and res_ == ('NotImplemented',)) and res_ is not NotImplemented:
                                return res_
                raise Raised('TypeError', h.version, e.lineno)
            if isinstance(op, (ast.Lt, ast.LtE, ast.Gt, ast.GtE)):
                # two lists / two tuples of decided numbers or texts: Python's lexicographic order; two decided texts: code point order
                def plain_(v_):
                    if h.is_list(v_):
                        return [plain_(x_) for x_ in h.items(v_)]
                    if isinstance(v_, tuple) and not (v_ and isinstance(v_[0], str) and v_[0] in ('regex', 'record', 'partial', 'class', 'hook', 'extern')):
                        return tuple(plain_(x_) for x_ in v_)
                    if isinstance(v_, (int, str, bytes)) and not isinstance(v_, bool):
                        return v_
                    raise AnalysisError('heap model: comparison %s' % norm(e))
                pl_, pr_ = plain_(l), plain_(r)
                if type(pl_) is type(pr_):
                    try:
                        return {ast.Lt: pl_ < pr_, ast.LtE: pl_ <= pr_, ast.Gt: pl_ > pr_, ast.GtE: pl_ >= pr_}[type(op)]
                    except TypeError:
                        raise Raised('TypeError', h.version, e.lineno)
            raise AnalysisError('heap model: comparison %s' % norm(e))
        if isinstance(e, ast.BoolOp):
            v = None
            for x in e.values:
                v = self.ev(x, env, cls)
                if isinstance(e.op, ast.And) and not self.truth(v):
                    return v
                if isinstance(e.op, ast.Or) and self.truth(v):
                    return v
            return v
        if isinstance(e, ast.UnaryOp) and isinstance(e.op, ast.Not):
            return not self.truth(self.ev(e.operand, env, cls))
        if isinstance(e, ast.IfExp):
            return self.ev(e.body if self.truth(self.ev(e.test, env, cls)) else e.orelse, env, cls)
        if isinstance(e, ast.BinOp) and isinstance(e.op, (ast.Add, ast.Sub)):
            l, r = self.ev(e.left, env, cls), self.ev(e.right, env, cls)
            if isinstance(e.op, ast.Add) and (isinstance(l, Key) or isinstance(r, Key)) and isinstance(l, (Key, str, SStr)) and isinstance(r, (Key, str, SStr)):
                # (a case-insensitive string is its spelling: str.__add__ gives a plain text)
                l, r = (l.spelling if isinstance(l, Key) else l), (r.spelling if isinstance(r, Key) else r)
            if isinstance(l, int) and isinstance(r, int):
                return l + r if isinstance(e.op, ast.Add) else l - r
            if isinstance(e.op, ast.Add) and (isinstance(l, SStr) or isinstance(r, SStr)) and isinstance(l, (SStr, str)) and isinstance(r, (SStr, str)):
                return symstr.lift(l) + symstr.lift(r)
            if isinstance(l, str) and isinstance(r, str) and isinstance(e.op, ast.Add):
                return l + r
            if isinstance(e.op, ast.Sub) and isinstance(l, (set, frozenset)) and isinstance(r, (set, frozenset)):
                return l - r          # a new set
            if isinstance(l, (SInt, int)) and isinstance(r, (SInt, int)):
                l2 = l if isinstance(l, SInt) else SInt(l)
                return l2 + r if isinstance(e.op, ast.Add) else l2 - r
            if isinstance(e.op, ast.Add) and (h.is_list(l) or isinstance(l, (list, tuple))) and (h.is_list(r) or isinstance(r, (list, tuple))):
                items = self.seq(l) + self.seq(r)
                return tuple(items) if isinstance(l, tuple) and isinstance(r, tuple) else h.new_list(items)
        if isinstance(e, ast.BinOp) and isinstance(e.op, ast.Mod):
            l, r = self.ev(e.left, env, cls), self.ev(e.right, env, cls)
            if isinstance(l, str):
                return self.sym_format_percent(l, r)
        if isinstance(e, ast.BinOp) and isinstance(e.op, (ast.Mod, ast.FloorDiv, ast.Mult, ast.Pow, ast.LShift, ast.RShift)):
            # integer arithmetic on decided numbers (and repetition of a decided text / list by a decided count)
            l, r = self.ev(e.left, env, cls), self.ev(e.right, env, cls)
            if isinstance(l, int) and isinstance(r, int) and not isinstance(l, bool) and not isinstance(r, bool):
                if isinstance(e.op, (ast.Mod, ast.FloorDiv)) and r == 0:
                    raise Raised('ZeroDivisionError', h.version, e.lineno)
                if isinstance(e.op, ast.Pow) and (r < 0 or r > 64):
                    raise AnalysisError('heap model: exponent %r' % r)
                import operator as _op
                return {ast.Mod: _op.mod, ast.FloorDiv: _op.floordiv, ast.Mult: _op.mul, ast.Pow: _op.pow, ast.LShift: _op.lshift, ast.RShift: _op.rshift}[type(e.op)](l, r)
            if isinstance(e.op, ast.Mult) and isinstance(l, str) and isinstance(r, int) and not isinstance(r, bool) and r <= 4096:
                return l * r
            if isinstance(e.op, ast.Mult) and isinstance(r, str) and isinstance(l, int) and not isinstance(l, bool) and l <= 4096:
                return l * r
            if isinstance(e.op, ast.Mult):
                # [x] * n / n * [x] / (x,) * n: a new list (tuple) of n times the items (a count below one gives the empty one)
                seq_, cnt_ = (l, r) if not (isinstance(l, int) and not isinstance(l, bool)) else (r, l)
                if isinstance(cnt_, int) and not isinstance(cnt_, bool) and cnt_ <= 4096:
                    if h.is_list(seq_):
                        return h.new_list(list(h.items(seq_)) * max(cnt_, 0))
                    if isinstance(seq_, tuple) and not (seq_ and isinstance(seq_[0], str) and seq_[0] in ('regex', 'record', 'partial', 'class', 'hook', 'extern')):
                        return seq_ * max(cnt_, 0)
        if isinstance(e, ast.Lambda):
            # the enclosing variables are read when the lambda is CALLED (one scope, late binding); its defaults are computed now
            c_ = Closure(e, env, None, cls)
            c_.defaults = self.defaults_now(e, env, cls)
            return c_
        if isinstance(e, (ast.GeneratorExp, ast.ListComp, ast.DictComp, ast.SetComp)) and not any(g.is_async for g in e.generators):
            # comprehensions with any number of `for` clauses and conditions: the clauses nest from left to right
            # a comprehension has ONE scope of its own: every round of its loops re-binds the same variables (a function made inside
            # reads them when it is called); the first iterable is computed where the comprehension stands, the rest inside
            scope_ = dict(env)
            scope_['#comp_outer'] = env
            first_ = self.ev(e.generators[0].iter, env, cls)

            def clauses(k):
                if k == len(e.generators):
                    if isinstance(e, ast.DictComp):
                        yield (self.ev(e.key, scope_, cls), self.ev(e.value, scope_, cls))
                    else:
                        yield self.ev(e.elt, scope_, cls)
                    return
                g = e.generators[k]
                for v in self.walk(first_ if k == 0 else self.ev(g.iter, scope_, cls)):
                    self.assign(g.target, v, scope_, cls)
                    if all(self.truth(self.ev(c, scope_, cls)) for c in g.ifs):
                        yield from clauses(k + 1)
            if isinstance(e, ast.GeneratorExp) and getattr(h, 'lazy_generators', True):
                # a generator expression computes an item when it is asked for one
                run_ = clauses(0)

                def producer_():
                    for x_ in run_:
                        return (True, x_)
                    return (False, None)
                return PyIter([], producer_)
            results = list(clauses(0))
            if isinstance(e, ast.GeneratorExp):
                return results
            if isinstance(e, ast.ListComp):
                return h.new_list(results)
            if isinstance(e, ast.DictComp):
                out_d = h.new_dict()
                for k_, v_ in results:
                    h.dict_set(out_d, k_, v_)
                return out_d
            return set(results)
        if isinstance(e, ast.Subscript):
            base = self.ev(e.value, env, cls)
            key = self.ev(e.slice, env, cls)
            if isinstance(base, bytes) and isinstance(key, (int, slice)) and not isinstance(key, bool):
                try:
                    return base[key]            # decided bytes: a cut is bytes, one position its number
                except IndexError:
                    raise Raised('IndexError', h.version, e.lineno)
            if isinstance(base, SStr) or (isinstance(base, str) and isinstance(key, (int, slice))):
                try:
                    r_ = symstr.lift(base).subscript(key)
                except KeyError:
                    raise Raised('IndexError', h.version, e.lineno)
                c_ = r_.concrete()
                return c_ if c_ is not None else r_
            if isinstance(base, Ref) and h.objs[base.name]['__class__'] == 'dict':
                fac_ = h.objs[base.name].get('default')
                if fac_ is not None and not h.dict_has(base, key):
                    # collections.defaultdict: a read of a missing key stores the factory's product
                    h.dict_set(base, key, self.call_value(fac_, [], e))
                sub_ = h.objs[base.name].get('#subclass')
                if sub_ is not None and not h.dict_has(base, key):
                    miss_ = h.module.method(sub_, '__missing__')
                    if miss_ is not None:
                        return self.call(Closure(miss_.node, {}, base, miss_.cls), [key])     # d[key] of a dict subclass: __missing__ answers
                return h.dict_get(base, key, e.lineno)
            if isinstance(base, str) and isinstance(key, str):
                raise Raised('TypeError', h.version, e.lineno)          # string indices must be integers
            if isinstance(base, Ref) and '__getitem__' in h.hooks and h.objs[base.name]['__class__'] not in ('dict', 'list'):
                h.version_at_line = e.lineno
                return h.hooks['__getitem__'](self, [base, key], {'lineno': e.lineno})
            if h.is_list(base) or isinstance(base, (list, tuple)):
                items = h.items(base) if h.is_list(base) else list(base)
                if isinstance(key, slice):
                    return tuple(items[key]) if isinstance(base, tuple) else h.new_list(items[key])      # a slice has the type of what is sliced
                if isinstance(key, int):
                    try:
                        return items[key]
                    except IndexError:
                        raise Raised('IndexError', h.version, e.lineno)
            if isinstance(base, Ref) and h.objs[base.name]['__class__'] in h.module.classes:
                gi_ = h.module.method(h.objs[base.name]['__class__'], '__getitem__')
                if gi_ is not None:
                    return self.call(Closure(gi_.node, {}, base, gi_.cls), [key])          # obj[key]: the class's own __getitem__
            raise AnalysisError('heap model: subscript %s' % norm(e))
        if isinstance(e, ast.Call):
            return self.ev_call(e, env, cls)
        if isinstance(e, ast.Slice):
            return slice(self.ev(e.lower, env, cls) if e.lower else None, self.ev(e.upper, env, cls) if e.upper else None,
                         self.ev(e.step, env, cls) if e.step else None)
        if isinstance(e, (ast.Tuple, ast.List, ast.Set)) and any(isinstance(x, ast.Starred) for x in e.elts):
            # [a, *rest] / (*xs, b): the items of a starred operand in place, left to right (an iterator is walked to its end)
            items_ = []
            for x in e.elts:
                if isinstance(x, ast.Starred):
                    items_.extend(self.seq(self.ev(x.value, env, cls)))
                else:
                    items_.append(self.ev(x, env, cls))
            return tuple(items_) if isinstance(e, ast.Tuple) else h.new_list(items_) if isinstance(e, ast.List) else set(items_)
        if isinstance(e, ast.Tuple):
            return tuple(self.ev(x, env, cls) for x in e.elts)
        if isinstance(e, ast.List):
            return h.new_list([self.ev(x, env, cls) for x in e.elts])
        if isinstance(e, ast.Dict) and not e.keys:
            return h.new_dict()
        if isinstance(e, ast.Dict) and all(k is not None for k in e.keys):
            d = h.new_dict()
            for k, v in zip(e.keys, e.values):
                h.dict_set(d, self.ev(k, env, cls), self.ev(v, env, cls))
            return d
        if isinstance(e, ast.Set):
            items = [self.ev(x, env, cls) for x in e.elts]
            if not all(isinstance(x, (str, int, tuple)) for x in items):
                raise AnalysisError('heap model: set of non-constants')
            return set(items)
        if isinstance(e, ast.UnaryOp) and isinstance(e.op, ast.USub):
            v = self.ev(e.operand, env, cls)
            if isinstance(v, int):
                return -v
        if isinstance(e, ast.JoinedStr) and getattr(h, 'symbolic_strings', False):
            parts = []
            for v in e.values:
                if isinstance(v, ast.Constant):
                    parts.append(v.value)
                else:
                    x = self.ev(v.value, env, cls)
                    if not isinstance(x, (str, SStr)) or v.conversion != -1 or v.format_spec is not None:
                        raise AnalysisError('heap model: formatted value %s' % norm(v.value))
                    parts.append(x)
            return SStr(parts)
        if isinstance(e, ast.JoinedStr):
            # decided plain values: CPython's own formatting; anything else (an object in a message) gives the placeholder for
            # message texts, whose content no rule looks at
            out_ = []
            for v in e.values:
                if isinstance(v, ast.Constant):
                    out_.append(v.value)
                    continue
                x = self.ev(v.value, env, cls)
                if isinstance(x, Key):
                    x = x.spelling
                if x is not None and not isinstance(x, (str, int, bytes, float)):
                    return 'text'
                spec_ = ''
                if v.format_spec is not None:
                    spec_ = self.ev(v.format_spec, env, cls)
                    if not isinstance(spec_, str) or spec_ == 'text':
                        return 'text'
                if v.conversion == ord('r'):
                    x = repr(x)
                elif v.conversion == ord('s'):
                    x = str(x)
                elif v.conversion == ord('a'):
                    x = ascii(x)
                try:
                    out_.append(format(x, spec_))
                except (ValueError, TypeError):
                    raise Raised('ValueError', h.version, e.lineno)
            return ''.join(out_)
        if isinstance(e, ast.NamedExpr) and isinstance(e.target, ast.Name):
            # (name := value): the value, bound in the scope of the enclosing function (from inside a comprehension too)
            v_ = self.ev(e.value, env, cls)
            sc_ = env
            while sc_ is not None:
                sc_[e.target.id] = v_
                sc_ = sc_.get('#comp_outer')
            return v_
        raise AnalysisError('heap model: expression %s' % norm(e)[:60])

    def ev_call(self, e, env, cls):
        h = self.h
        fn = e.func
        if isinstance(fn, ast.Name) and fn.id in ('any', 'all') and fn.id not in env and len(e.args) == 1 and isinstance(e.args[0], (ast.GeneratorExp, ast.ListComp)) \
                and len(e.args[0].generators) == 1 and not e.args[0].generators[0].ifs and isinstance(e.args[0].generators[0].target, ast.Name):
            g_ = e.args[0].generators[0]
            subject = self.ev(g_.iter, env, cls)
            if isinstance(subject, SStr) and subject.concrete() is None:
                # a per-character predicate: evaluated on every symbol of the alphabet, then decided as a language question
                a_ = symstr.alpha()
                mask = 0
                for i_, ch in enumerate(a_.syms):
                    env2 = dict(env)
                    env2[g_.target.id] = ch
                    if self.truth(self.ev(e.args[0].elt, env2, cls)):
                        mask |= 1 << i_
                from . import rx as _rx
                if fn.id == 'any':
                    lang = _rx.from_function(a_, [], 0, lambda q, sym: 1 if (q == 1 or mask >> sym & 1) else 0, lambda q: q == 1)
                else:
                    lang = _rx.from_function(a_, [], 0, lambda q, sym: 1 if (q == 1 or not (mask >> sym & 1)) else 0, lambda q: q == 0)
                return subject._decide(lang, '%s(... for %s in ...)' % (fn.id, g_.target.id))
        if isinstance(fn, ast.Name) and fn.id in ('any', 'all') and fn.id not in env and fn.id not in h.hooks and len(e.args) == 1 and not e.keywords \
                and isinstance(e.args[0], ast.GeneratorExp) and not any(g_.is_async for g_ in e.args[0].generators):
            # any / all over a generator expression stop at the first deciding item: what the later items would have computed (or
            # raised) does not happen
            gen_ = e.args[0]
            stop_on = fn.id == 'any'

            class _Stop(Exception):
                pass

            def clauses_(k, env2):
                if k == len(gen_.generators):
                    if self.truth(self.ev(gen_.elt, env2, cls)) == stop_on:
                        raise _Stop()
                    return
                g_ = gen_.generators[k]
                for v_ in self.walk(self.ev(g_.iter, env2 if k else env, cls)):
                    env3 = dict(env2)
                    self.assign(g_.target, v_, env3, cls)
                    if all(self.truth(self.ev(c_, env3, cls)) for c_ in g_.ifs):
                        clauses_(k + 1, env3)
            try:
                clauses_(0, dict(env))
            except _Stop:
                return stop_on
            return not stop_on
        args = []
        for a in e.args:
            if isinstance(a, ast.Starred):
                args.extend(self.seq(self.ev(a.value, env, cls)))       # f(*xs): the items of xs, in order
            else:
                args.append(self.ev(a, env, cls))
        kwargs = {}
        for k in e.keywords:
            if k.arg is None:
                # f(**table): the entries of a dictionary with text keys
                tv_ = self.ev(k.value, env, cls)
                if not (isinstance(tv_, Ref) and h.objs[tv_.name]['__class__'] == 'dict'):
                    raise AnalysisError('heap model: ** of %s' % norm(k.value)[:40])
                for kk_, vv_ in h.objs[tv_.name]['entries']:
                    kk_ = kk_.concrete() if isinstance(kk_, SStr) else kk_
                    if not isinstance(kk_, str):
                        raise AnalysisError('heap model: ** with the key %r' % (kk_,))
                    kwargs[kk_] = vv_
            else:
                kwargs[k.arg] = self.ev(k.value, env, cls)
        if isinstance(fn, ast.Attribute) and isinstance(fn.value, ast.Name) and fn.value.id not in env and norm(fn) not in h.hooks and ('.' + fn.attr) not in h.hooks \
                and fn.attr in ('debug', 'info', 'warning', 'warn', 'error', 'critical', 'exception', 'log') and self.is_module_logger(fn.value.id):
            # a call on the module's logging.getLogger(...) object: the arguments have been computed (what they raise is raised); the
            # record goes to the logging system, the program goes on
            return None
        if isinstance(fn, ast.Name) and fn.id in ('any', 'all') and fn.id not in env and len(args) == 1:
            for v in self.walk(args[0]):          # stops at the first deciding item
                if self.truth(v) == (fn.id == 'any'):
                    return fn.id == 'any'
            return fn.id != 'any'
        if isinstance(fn, ast.Name) and fn.id == 'range' and 'range' not in env and all(isinstance(a, int) for a in args) and 1 <= len(args) <= 3:
            r_ = range(*args)
            if len(r_) > 10000:
                raise AnalysisError('heap model: range too large')
            return list(r_)
        if isinstance(fn, ast.Name) and fn.id == 'ord' and 'ord' not in env and len(args) == 1 and not kwargs:
            t_ = args[0].concrete() if isinstance(args[0], SStr) else args[0]
            if isinstance(t_, (str, bytes)) and len(t_) == 1:
                return ord(t_)
            raise AnalysisError('heap model: ord() of %r' % (args[0],))
        if isinstance(fn, ast.Name) and fn.id == 'chr' and 'chr' not in env and len(args) == 1 and not kwargs and isinstance(args[0], int):
            return chr(args[0])
        if isinstance(fn, ast.Name) and fn.id in ('max', 'min', 'sorted', 'sum') and fn.id not in env and args and isinstance(args[0], PyIter):
            args = [args[0].drain()] + list(args[1:])          # an iterator is walked once, whichever branch below takes the call
        if isinstance(fn, ast.Attribute) and isinstance(fn.value, ast.Name) and fn.value.id == 'operator' and 'operator' not in env and not kwargs \
                and fn.attr in ('lt', 'le', 'eq', 'ne', 'ge', 'gt', 'is_', 'is_not', 'contains', 'not_', 'truth', 'add', 'sub', 'mul', 'neg', 'getitem') \
                and len(args) == (1 if fn.attr in ('not_', 'truth', 'neg') else 2):
            # the functions of the operator module: the operator itself, on the same operands
            a_, b_ = ast.Name(id='#a0', ctx=ast.Load()), ast.Name(id='#a1', ctx=ast.Load())
            ops_ = {'lt': ast.Lt, 'le': ast.LtE, 'eq': ast.Eq, 'ne': ast.NotEq, 'ge': ast.GtE, 'gt': ast.Gt, 'is_': ast.Is, 'is_not': ast.IsNot}
            if fn.attr in ops_:
                node_ = ast.Compare(left=a_, ops=[ops_[fn.attr]()], comparators=[b_])
            elif fn.attr == 'contains':
                node_ = ast.Compare(left=b_, ops=[ast.In()], comparators=[a_])
            elif fn.attr in ('not_', 'truth'):
                return (not self.truth(args[0])) if fn.attr == 'not_' else self.truth(args[0])
            elif fn.attr == 'neg':
                node_ = ast.UnaryOp(op=ast.USub(), operand=a_)
            elif fn.attr == 'getitem':
                node_ = ast.Subscript(value=a_, slice=b_, ctx=ast.Load())
            else:
                node_ = ast.BinOp(left=a_, op={'add': ast.Add, 'sub': ast.Sub, 'mul': ast.Mult}[fn.attr](), right=b_)
            env_ = {'#a0': args[0]}
            if len(args) > 1:
                env_['#a1'] = args[1]
            return self.ev(ast.fix_missing_locations(ast.copy_location(node_, e)), env_, cls)
        if isinstance(fn, ast.Name) and fn.id == 'issubclass' and 'issubclass' not in env and len(args) == 2 and not kwargs \
                and isinstance(args[0], tuple) and len(args[0]) == 2 and args[0][0] == 'class' and isinstance(args[0][1], str):
            want_ = [args[1]] if not (isinstance(args[1], tuple) and args[1] and isinstance(args[1][0], tuple)) else list(args[1])
            if all(isinstance(w_, tuple) and len(w_) == 2 and w_[0] == 'class' and isinstance(w_[1], str) for w_ in want_):
                t_ = ast.Tuple(elts=[ast.Name(id=w_[1], ctx=ast.Load()) for w_ in want_], ctx=ast.Load())
                if args[0][1] in h.module.classes or args[0][1] in _EXC_PARENTS or args[0][1] in ('Exception', 'BaseException'):
                    # (exception classes and classes of the module: by their base classes)
                    if args[0][1] in h.module.classes and not any(w_[1] in _EXC_PARENTS or w_[1] in ('Exception', 'BaseException') for w_ in want_):
                        return any(w_[1] in h.module.mro(args[0][1]) for w_ in want_)
                    return _handler_matches(t_, args[0][1], h.module) and not (args[0][1] not in ('Exception', 'BaseException') and [w_[1] for w_ in want_] == ['#none'])
        if isinstance(fn, ast.Name) and fn.id == 'hash' and 'hash' not in env and 'hash' not in h.hooks and len(args) == 1 and not kwargs:
            # hash(x): of a decided text / number / tuple of such -- CPython's own (equal values, equal hashes, within this run); of an
            # object of the module -- its __hash__, else its identity
            def plain_(v_):
                if isinstance(v_, SStr) and v_.concrete() is not None:
                    return v_.concrete()
                if isinstance(v_, Key):
                    return ('#key', v_.cls)
                if isinstance(v_, tuple) and not (v_ and isinstance(v_[0], str) and v_[0] in ('regex', 'record', 'partial', 'class', 'hook', 'extern')):
                    return tuple(plain_(y_) for y_ in v_)
                if v_ is None or isinstance(v_, (str, bytes, int, float, bool, frozenset)):
                    return v_
                raise AnalysisError('heap model: hash of %s' % norm(e)[:60])
            if isinstance(args[0], Ref) and h.objs[args[0].name]['__class__'] in h.module.classes:
                hf_ = h.module.method(h.objs[args[0].name]['__class__'], '__hash__')
                if hf_ is not None:
                    return self.call(Closure(hf_.node, {}, args[0], hf_.cls), [])
                return hash(('#object', args[0].name))
            if isinstance(args[0], Ref):
                raise Raised('TypeError', h.version, e.lineno)          # a list / a dictionary is unhashable
            return hash(plain_(args[0]))
        if isinstance(fn, ast.Name) and fn.id == 'sum' and 'sum' not in env and 1 <= len(args) <= 2 and set(kwargs) <= {'start'}:
            vals = self.seq(args[0])
            start_ = args[1] if len(args) == 2 else kwargs.get('start', 0)
            if all(isinstance(v, int) and not isinstance(v, bool) for v in vals + [start_]):
                return sum(vals, start_)
            if all(isinstance(v, SInt) or (isinstance(v, int) and not isinstance(v, bool)) for v in vals + [start_]):
                tot_ = start_
                for v in vals:
                    tot_ = tot_ + v
                return tot_
            raise AnalysisError('heap model: sum of %s' % norm(e)[:60])
        if isinstance(fn, ast.Name) and fn.id == 'max' and 'max' not in env and len(args) >= 1 and not kwargs:
            vals = self.seq(args[0]) if len(args) == 1 else list(args)
            if vals and all(isinstance(v, int) for v in vals):
                return max(vals)
        if isinstance(fn, ast.Name) and fn.id == 'min' and 'min' not in env and len(args) >= 1 and not kwargs:
            vals = self.seq(args[0]) if len(args) == 1 else list(args)
            if vals and all(isinstance(v, int) for v in vals):
                return min(vals)
        if norm(fn) in ('itertools.islice', 'islice') and len(args) in (2, 3, 4) and 'islice' not in env:
            sl = slice(*[a for a in args[1:]]) if len(args) > 2 else slice(args[1])
            if isinstance(args[0], PyIter) or self.obj_iter_possible(args[0]):
                # over an iterator: only the items the cut needs are taken from it, when they are asked for; the rest stays in it
                if any(x_ is not None and (not isinstance(x_, int) or isinstance(x_, bool) or x_ < 0) for x_ in (sl.start, sl.stop, sl.step)) or sl.step == 0:
                    raise Raised('ValueError', h.version, e.lineno)
                def islice_(src_, lo_=sl.start or 0, hi_=sl.stop, st_=sl.step or 1):
                    k_, nxt_ = 0, lo_
                    if hi_ is not None and nxt_ >= hi_:
                        return
                    for x_ in self.walk(src_):
                        if k_ == nxt_:
                            yield x_
                            nxt_ += st_
                            if hi_ is not None and nxt_ >= hi_:
                                # (CPython reads on to position hi_ - 1 when the step jumps past it; with step 1 nothing more is read)
                                return
                        k_ += 1
                return self.lazy_iter(islice_(args[0]))
            items = self.seq(args[0])
            return items[sl]
        if norm(fn) in ('itertools.dropwhile', 'dropwhile', 'itertools.takewhile', 'takewhile') and len(args) == 2 and not kwargs and norm(fn).split('.')[0] not in env:
            if isinstance(args[1], PyIter):
                # over a shared iterator: items are taken one by one; the first item the predicate refuses is consumed as well (takewhile
                # drops it, dropwhile hands it out) and the rest stays in the iterator for whoever reads it next
                def while_(pred_, it_, drop_):
                    while it_.has_next():
                        x_ = it_.take()
                        if not self.truth(self.apply(pred_, [x_])):
                            if drop_:
                                yield x_
                                while it_.has_next():
                                    yield it_.take()
                            return
                        if not drop_:
                            yield x_
                return self.lazy_iter(while_(args[0], args[1], norm(fn).endswith('dropwhile')))          # (lazy: when its items are asked for)
            items_ = self.seq(args[1])
            k_ = 0
            while k_ < len(items_) and self.truth(self.apply(args[0], [items_[k_]])):
                k_ += 1
            return items_[k_:] if norm(fn).endswith('dropwhile') else items_[:k_]
        if norm(fn) in ('itertools.zip_longest', 'zip_longest') and norm(fn).split('.')[0] not in env and args and set(kwargs) <= {'fillvalue'}:
            seqs_ = [self.seq(a_) for a_ in args]
            fill_ = kwargs.get('fillvalue')
            n_ = max(len(x_) for x_ in seqs_)
            return [tuple(x_[i_] if i_ < len(x_) else fill_ for x_ in seqs_) for i_ in range(n_)]
        if norm(fn) in ('itertools.chain', 'chain') and 'chain' not in env and not kwargs:
            # lazy: an argument is walked when the arguments before it are used up (one of them may not end)
            def chain_(parts_):
                for a_ in parts_:
                    yield from self.walk(a_)
            return self.lazy_iter(chain_(list(args)))
        if norm(fn) in ('itertools.chain.from_iterable', 'chain.from_iterable') and norm(fn).split('.')[0] not in env and len(args) == 1 and not kwargs:
            def chain_from_(outer_):
                for a_ in self.walk(outer_):
                    yield from self.walk(a_)
            return self.lazy_iter(chain_from_(args[0]))
        if norm(fn) in ('itertools.repeat', 'repeat') and norm(fn).split('.')[0] not in env and 1 <= len(args) <= 2 and set(kwargs) <= {'times'}:
            t_ = args[1] if len(args) == 2 else kwargs.get('times')
            if t_ is not None and (not isinstance(t_, int) or isinstance(t_, bool)):
                raise AnalysisError('heap model: repeat(times=%r)' % (t_,))
            def repeat_(x_, t_=t_):
                k_ = 0
                while t_ is None or k_ < t_:
                    k_ += 1
                    yield x_
            return self.lazy_iter(repeat_(args[0]))
        if norm(fn) in ('itertools.count', 'count') and norm(fn).split('.')[0] not in env and len(args) <= 2 and not kwargs and all(isinstance(a_, int) and not isinstance(a_, bool) for a_ in args):
            def count_(a_=args[0] if args else 0, b_=args[1] if len(args) == 2 else 1):
                while True:
                    yield a_
                    a_ += b_
            return self.lazy_iter(count_())
        if norm(fn) in ('itertools.cycle', 'cycle') and norm(fn).split('.')[0] not in env and len(args) == 1 and not kwargs:
            def cycle_(src_):
                saved_ = []
                for x_ in self.walk(src_):
                    saved_.append(x_)
                    yield x_
                while saved_:
                    yield from saved_
            return self.lazy_iter(cycle_(args[0]))
        if norm(fn) in ('itertools.product', 'product') and norm(fn).split('.')[0] not in env and args and not kwargs:
            import itertools as _it
            return self.lazy_iter(iter(list(_it.product(*[self.seq(a_) for a_ in args]))))          # (its arguments are read in full first, as the library does)
        if norm(fn) in ('itertools.starmap', 'starmap') and norm(fn).split('.')[0] not in env and len(args) == 2 and not kwargs:
            def starmap_(f_, src_):
                for x_ in self.walk(src_):
                    yield self.apply(f_, list(self.seq(x_)))
            return self.lazy_iter(starmap_(args[0], args[1]))
        if norm(fn) in ('itertools.accumulate', 'accumulate') and norm(fn).split('.')[0] not in env and len(args) == 1 and not kwargs:
            def accumulate_(src_):
                tot_ = None
                for k_, x_ in enumerate(self.walk(src_)):
                    if not isinstance(x_, (int, str)) or isinstance(x_, bool):
                        raise AnalysisError('heap model: accumulate over %r' % (x_,))
                    tot_ = x_ if k_ == 0 else tot_ + x_
                    yield tot_
            return self.lazy_iter(accumulate_(args[0]))
        if norm(fn) in ('collections.deque', 'deque') and norm(fn).split('.')[0] not in env and len(args) <= 1 and set(kwargs) <= {'maxlen'}:
            # a bounded queue fed from an iterable keeps the last maxlen items (read here as a list: indexing, truth, len, iteration)
            items = self.seq(args[0]) if args else []
            ml = kwargs.get('maxlen')
            if ml is not None:
                if not isinstance(ml, int) or isinstance(ml, bool) or ml < 0:
                    raise AnalysisError('heap model: deque(maxlen=%r)' % (ml,))
                items = items[len(items) - ml:] if ml else []
                q_ = h.new_list(list(items))
                h.objs[q_.name]['#maxlen'] = ml          # append / extend keep the bound (items fall out on the left); appendleft is not modelled
                return q_
            return h.new_list(list(items))
        if norm(fn) in ('operator.itemgetter', 'itemgetter') and len(args) == 1 and not kwargs and norm(fn).split('.')[0] not in env:
            return ('itemgetter', args[0])
        if norm(fn) in ('operator.attrgetter', 'attrgetter') and len(args) == 1 and not kwargs and isinstance(args[0], str) and '.' not in args[0] \
                and norm(fn).split('.')[0] not in env:
            return ('attrgetter', args[0])
        if norm(fn) in ('functools.partial', 'partial') and args and 'partial' not in env:
            return ('partial', args[0], tuple(args[1:]), dict(kwargs))
        if (isinstance(fn, ast.Attribute) and fn.attr == 'copy' and isinstance(fn.value, ast.Name) and fn.value.id == 'copy' and 'copy' not in env
                and len(args) == 1 and 'copy.copy' not in h.hooks):
            # copy.copy(x): a new object of the same class with the same attribute values (shallow)
            a_ = args[0]
            if not isinstance(a_, Ref):
                return a_
            o_ = h.objs[a_.name]
            if o_['__class__'] == 'dict':
                d_ = h.new_dict()
                h.objs[d_.name]['entries'] = list(o_['entries'])
                return d_
            if h.is_list(a_):
                return h.new_list(list(h.items(a_)))
            return h.alloc(o_['__class__'], {k_: v_ for k_, v_ in o_.items() if k_ != '__class__'})
        if isinstance(fn, ast.Name) and fn.id in h.hooks:
            return h.hooks[fn.id](self, args, kwargs)
        if isinstance(fn, ast.Attribute) and norm(fn) in h.hooks:
            return h.hooks[norm(fn)](self, args, kwargs)
        if isinstance(fn, ast.Attribute) and ('.' + fn.attr) in h.hooks:
            base = self.ev(fn.value, env, cls)
            r = h.hooks['.' + fn.attr](self, [base] + args, kwargs)
            if r is not NotImplemented:
                return r
        if norm(fn) in ('io.StringIO', 'StringIO') and norm(fn).split('.')[0] not in env and len(args) <= 1 and not kwargs:
            # a text buffer of the model: what is written to it, in order (read back with getvalue())
            return h.alloc('#StringIO', {'buf': args[0] if args else ''})
        if norm(fn) in ('io.BytesIO', 'BytesIO') and norm(fn).split('.')[0] not in env and norm(fn) not in h.hooks and len(args) <= 1 and not kwargs \
                and (not args or isinstance(args[0], bytes)):
            return h.alloc('#StringIO', {'buf': args[0] if args else b''})          # ... and a buffer of bytes
        if isinstance(fn, ast.Attribute) and fn.attr in ('write', 'getvalue', 'close') and isinstance(fn.value, (ast.Name, ast.Attribute)):
            b_ = self.ev(fn.value, env, cls)
            if isinstance(b_, Ref) and h.objs[b_.name]['__class__'] == '#StringIO':
                o_ = h.objs[b_.name]
                if fn.attr == 'write' and len(args) == 1 and isinstance(args[0], bytes) and isinstance(o_['buf'], bytes):
                    h.touch(b_.name)
                    o_['buf'] = o_['buf'] + args[0]
                    return len(args[0])
                if fn.attr == 'write' and len(args) == 1 and isinstance(args[0], (str, SStr)) and not isinstance(o_['buf'], bytes):
                    h.touch(b_.name)
                    o_['buf'] = (symstr.lift(o_['buf']) + symstr.lift(args[0])) if (isinstance(o_['buf'], SStr) or isinstance(args[0], SStr)) else o_['buf'] + args[0]
                    c_ = o_['buf'].concrete() if isinstance(o_['buf'], SStr) else o_['buf']
                    o_['buf'] = c_ if c_ is not None else o_['buf']
                    return None
                if fn.attr == 'getvalue' and not args:
                    return o_['buf']
                if fn.attr == 'close' and not args:
                    return None
                raise AnalysisError('heap model: StringIO.%s(%r)' % (fn.attr, args))
        if isinstance(fn, ast.Name) and fn.id in h.opaque_ctors:
            return h.alloc(fn.id, {'text': args[0] if args else None, 'parent_element': None})
        if isinstance(fn, ast.Name) and fn.id == 'isinstance' and len(e.args) == 2:
            cl = e.args[1]
            v = args[1]
            if isinstance(v, tuple) and v and v[0] == 'class':
                names = [v[1]]
            elif isinstance(v, tuple) and v and all(isinstance(x, tuple) and x and x[0] == 'class' for x in v):
                names = [x[1] for x in v]
            else:
                names = [norm(x) for x in cl.elts] if isinstance(cl, ast.Tuple) else [norm(cl)]
            return any(h.isinstance_(args[0], nme.split('.')[-1]) for nme in names)
        if norm(fn) in ('collections.defaultdict', 'defaultdict') and norm(fn).split('.')[0] not in env and not kwargs and len(args) == 1:
            d_ = h.new_dict()
            h.objs[d_.name]['default'] = args[0]
            return d_
        if isinstance(fn, ast.Name) and fn.id == 'dict' and 'dict' not in env and not kwargs and len(args) <= 1:
            # dict() / dict(iterable of pairs) / dict(mapping)
            d_ = h.new_dict()
            if args:
                src_ = args[0]
                if isinstance(src_, Ref) and h.objs[src_.name]['__class__'] == 'dict':
                    pairs = list(h.objs[src_.name]['entries'])
                elif isinstance(src_, Ref) and h.objs[src_.name]['__class__'] in h.module.classes and (
                        h.module.method(h.objs[src_.name]['__class__'], 'keys') is not None or '.keys' in h.hooks or
                        (h.module.method(h.objs[src_.name]['__class__'], '__getitem__') is not None and h.module.method(h.objs[src_.name]['__class__'], '__iter__') is not None)):
                    # a mapping object of the package: dict(m) reads m.keys() (or iterates m) and m[key]
                    cn_ = h.objs[src_.name]['__class__']
                    km_ = h.module.method(cn_, 'keys') or h.module.method(cn_, '__iter__')
                    gi_ = h.module.method(cn_, '__getitem__')
                    if gi_ is None:
                        raise AnalysisError('heap model: dict() of %s' % cn_)
                    keys_ = self.seq(self.call(Closure(km_.node, {}, src_, km_.cls), []))
                    pairs = [(k_, self.call(Closure(gi_.node, {}, src_, gi_.cls), [k_])) for k_ in keys_]
                else:
                    pairs = []
                    for it_ in self.seq(src_):
                        kv = self.seq(it_) if not isinstance(it_, tuple) else list(it_)
                        if len(kv) != 2:
                            raise Raised('ValueError', h.version, e.lineno)
                        pairs.append((kv[0], kv[1]))
                for k_, v_ in pairs:
                    h.dict_set(d_, k_, v_)
            return d_
        if isinstance(fn, ast.Name) and fn.id in ('getattr', 'hasattr') and fn.id not in env and len(args) >= 2 and isinstance(args[0], tuple) and len(args[0]) == 4 \
                and args[0][0] == 'record' and isinstance(args[1], (str, SStr)):
            # a field of a named tuple under a computed (but decided) name
            nm_ = args[1].concrete() if isinstance(args[1], SStr) else args[1]
            if nm_ is None:
                raise AnalysisError('heap model: attribute name is not decided: %s' % norm(e)[:60])
            if nm_ in args[0][2]:
                return True if fn.id == 'hasattr' else args[0][3][args[0][2].index(nm_)]
            if fn.id == 'hasattr':
                return nm_ in ('_replace', '_asdict', '_fields', 'count', 'index')
            if len(args) == 3:
                return args[2]
            raise Raised('AttributeError', h.version, e.lineno)
        if isinstance(fn, ast.Attribute) and fn.attr in ('_replace', '_asdict') and not args:
            b_ = self.ev(fn.value, env, cls)
            if isinstance(b_, tuple) and len(b_) == 4 and b_[0] == 'record':
                if fn.attr == '_asdict':
                    d_ = h.new_dict()
                    for k_, v_ in zip(b_[2], b_[3]):
                        h.dict_set(d_, k_, v_)
                    return d_
                if any(k_ not in b_[2] for k_ in kwargs):
                    raise Raised('ValueError', h.version, e.lineno)         # namedtuple._replace: unexpected field names
                return ('record', b_[1], b_[2], tuple(kwargs.get(k_, v_) for k_, v_ in zip(b_[2], b_[3])))
        if isinstance(fn, ast.Name) and fn.id in ('getattr', 'setattr', 'hasattr') and fn.id not in env and args and isinstance(args[0], Ref) \
                and len(args) >= 2 and isinstance(args[1], (str, SStr)):
            # attribute access under a computed (but decided) name; written names are already mangled
            nm_ = args[1].concrete() if isinstance(args[1], SStr) else args[1]
            if nm_ is None:
                raise AnalysisError('heap model: attribute name is not decided: %s' % norm(e)[:60])
            o_ = h.objs[args[0].name]
            if fn.id == 'setattr' and len(args) == 3:
                self.store_attr(args[0], nm_, args[2], None)
                return None
            if fn.id == 'hasattr' and o_['__class__'] in ('dict', 'list'):
                return nm_ in dir(dict if o_['__class__'] == 'dict' else list)      # the builtin containers
            if fn.id == 'hasattr':
                if ('.' + nm_) in h.hooks:
                    return True          # a method the scenario supplies
                try:
                    h.getattr(args[0], nm_, None)
                    return True
                except (AnalysisError, Raised):
                    return False
            if fn.id == 'getattr':
                try:
                    return self.obj_getattr(args[0], nm_, None)
                except AnalysisError:
                    if len(args) == 3:
                        return args[2]
                    raise Raised('AttributeError', h.version, e.lineno)
                except Raised as x_:
                    if len(args) == 3 and x_.exc == 'AttributeError':
                        return args[2]
                    raise
            _ = o_
        if isinstance(fn, ast.Name) and fn.id == 'hasattr' and 'hasattr' not in env and len(args) == 2 and not kwargs and isinstance(args[1], str) \
                and (args[0] is None or type(args[0]) in (str, bytes, int, bool, float, list, dict, set, frozenset) or (type(args[0]) is tuple and not (args[0] and isinstance(args[0][0], str)))):
            return hasattr(args[0], args[1])          # a decided plain value: what its type offers
        if isinstance(fn, ast.Name) and fn.id == 'getattr' and 'getattr' not in env and len(args) == 3 and not kwargs and isinstance(args[1], str) \
                and (args[0] is None or type(args[0]) in (str, bytes, int, bool, float, list, dict, set, frozenset) or isinstance(args[0], PyIter)
                     or (isinstance(args[0], Ref) and h.objs[args[0].name]['__class__'] in ('list', 'dict'))):
            # getattr(value, name, default) on a decided plain value / a builtin container / an iterator: a DATA attribute they do not have
            probe_ = args[0] if not isinstance(args[0], (PyIter, Ref)) else (iter(()) if isinstance(args[0], PyIter) else ([] if h.objs[args[0].name]['__class__'] == 'list' else {}))
            if not hasattr(probe_, args[1]):
                return args[2]
            raise AnalysisError('heap model: getattr(%s, %r, ...) of a builtin value' % (type(probe_).__name__, args[1]))
        if isinstance(fn, ast.Name) and fn.id == 'hasattr' and 'hasattr' not in env and len(args) == 2 and not kwargs and isinstance(args[1], str) and isinstance(args[0], PyIter):
            return args[1] in ('__next__', '__iter__')          # an iterator
        if isinstance(fn, ast.Name) and fn.id in ('bool',) and len(args) == 1:
            return self.truth(args[0])
        if isinstance(fn, ast.Name) and fn.id == 'int' and 'int' not in env and 'int' not in h.hooks and len(args) == 1 and not kwargs \
                and isinstance(args[0], (str, int, bytes)) and not isinstance(args[0], bool):
            try:
                return int(args[0])          # int() of a decided text / number / bytes
            except ValueError:
                raise Raised('ValueError', h.version, e.lineno)
        if norm(fn) == 're.escape' and 're' not in env and len(args) == 1 and isinstance(args[0], (str, bytes)) and not kwargs:
            import re as _re
            return _re.escape(args[0])
        if norm(fn) in ('re.findall', 're.split', 're.match', 're.search', 're.fullmatch', 're.sub') and getattr(h, 'native_regex', False) \
                and all(isinstance(a_, (str, int)) for a_ in args) and all(isinstance(v_, (str, int)) for v_ in kwargs.values()):
            import re as _re
            r_ = getattr(_re, fn.attr)(*args, **kwargs)       # a constant pattern on a decided text: CPython's engine decides
            return h.new_list(r_) if isinstance(r_, list) else r_
        if norm(fn) in ('itertools.groupby', 'groupby') and norm(fn) not in env and 1 <= len(args) <= 2 and set(kwargs) <= {'key'}:
            # groupby(xs, key): maximal runs of consecutive items with equal key, as (key, list of the run)
            kf_ = args[1] if len(args) == 2 else kwargs.get('key')
            out_, cur_k, cur_ = [], None, None
            for x_ in self.seq(args[0]):
                k_ = self.apply(kf_, [x_]) if kf_ is not None else x_
                if cur_ is not None and self.same_value(k_, cur_k):
                    cur_.append(x_)
                else:
                    cur_ = [x_]
                    cur_k = k_
                    out_.append((k_, cur_))
            return [(k_, list(v_)) for k_, v_ in out_]
        if isinstance(fn, ast.Name) and fn.id in ('max', 'min') and fn.id not in env and fn.id not in h.hooks and args and set(kwargs) <= {'default'}:
            vals = self.seq(args[0]) if len(args) == 1 else list(args)
            if not vals:
                if 'default' in kwargs and len(args) == 1:
                    return kwargs['default']
                raise Raised('ValueError', h.version, e.lineno)       # max() of an empty sequence
            if all(isinstance(x, int) and not isinstance(x, bool) for x in vals) or all(isinstance(x, str) for x in vals):
                return max(vals) if fn.id == 'max' else min(vals)
            if any(x is None for x in vals) or len({type(x) for x in vals}) > 1 and all(isinstance(x, (int, str)) for x in vals):
                raise Raised('TypeError', h.version, e.lineno)
            if all(h.is_list(x) or isinstance(x, (list, tuple)) for x in vals):
                # lists / tuples of decided numbers or texts: Python's lexicographic order; of equal ones the FIRST is the result
                plain_ = [[y.concrete() if isinstance(y, SStr) and y.concrete() is not None else y for y in (h.items(x) if h.is_list(x) else x)] for x in vals]
                if all(all(isinstance(y, str) for y in x) for x in plain_) or all(all(isinstance(y, int) and not isinstance(y, bool) for y in x) for x in plain_):
                    best_ = 0
                    for i_ in range(1, len(plain_)):
                        if (plain_[i_] > plain_[best_]) if fn.id == 'max' else (plain_[i_] < plain_[best_]):
                            best_ = i_
                    return vals[best_]
            raise AnalysisError('heap model: %s of %s' % (fn.id, norm(e)[:60]))
        if norm(fn) in ('set.union', 'set.intersection', 'set.difference', 'frozenset.union', 'frozenset.intersection', 'frozenset.difference') \
                and norm(fn).split('.')[0] not in env and not kwargs:
            # the method taken from the type: the first argument is the receiver (none: TypeError); the result is a NEW set
            if not args or not isinstance(args[0], (set, frozenset)):
                raise Raised('TypeError', h.version, e.lineno)
            rest_ = [set(self.seq(a_)) if not isinstance(a_, (set, frozenset)) else a_ for a_ in args[1:]]
            r_ = getattr(set(args[0]), fn.attr)(*rest_)
            return r_ if norm(fn).startswith('set.') else frozenset(r_)
        if isinstance(fn, ast.Name) and fn.id in ('set', 'frozenset') and len(args) <= 1 and fn.id not in env:
            items = self.seq(args[0]) if args else []
            if not all(isinstance(x, (str, int, tuple, Key, SStr)) for x in items):
                raise AnalysisError('heap model: set of non-constants')
            return set(items)
        if isinstance(fn, ast.Attribute) and fn.attr in ('intersection', 'union', 'difference', 'add', 'discard', 'issubset', 'isdisjoint', 'copy', 'update', 'clear'):
            base0 = self.ev(fn.value, env, cls)
            if isinstance(base0, (set, frozenset)):
                a2 = [set(self.seq(a)) if not isinstance(a, (str, int)) or fn.attr not in ('add', 'discard') else a for a in args]
                return getattr(base0, fn.attr)(*a2)
        if isinstance(fn, ast.Name) and fn.id == 'enumerate' and 'enumerate' not in env and args and set(kwargs) <= {'start'} and (
                isinstance(args[0], PyIter) or self.obj_iter_possible(args[0])):
            # enumerate over an iterator: numbered as the items are asked for (the iterator may be read by others in between)
            st_ = args[1] if len(args) == 2 else kwargs.get('start', 0)
            src_ = args[0] if isinstance(args[0], PyIter) else self.obj_iter(args[0])
            cnt_ = [st_]

            def producer(src_=src_, cnt_=cnt_):
                if not src_.has_next():
                    return (False, None)
                cnt_[0] += 1
                return (True, (cnt_[0] - 1, src_.take()))
            return PyIter([], producer)
        if isinstance(fn, ast.Name) and fn.id == 'enumerate' and 'enumerate' not in env and (len(args) == 2 or 'start' in kwargs) and set(kwargs) <= {'start'}:
            st_ = args[1] if len(args) == 2 else kwargs['start']
            if not isinstance(st_, int) or isinstance(st_, bool):
                raise AnalysisError('heap model: enumerate start %r' % (st_,))
            return [(i, v) for i, v in enumerate(self.seq(args[0]), st_)]          # enumerate(xs, start)
        if isinstance(fn, ast.Name) and fn.id == 'enumerate' and len(args) == 1 and isinstance(args[0], (str, PyIter)):
            return [(i, v) for i, v in enumerate(self.seq(args[0]))]
        if isinstance(fn, ast.Name) and fn.id == 'id' and 'id' not in env and len(args) == 1 and not kwargs and isinstance(args[0], Ref):
            return ('id', args[0].name)          # the identity of a heap object: a token that equals itself only
        if isinstance(fn, ast.Name) and fn.id == 'len' and len(args) == 1 and isinstance(args[0], tuple) and args[0] and args[0][0] == 'linesof':
            return ('linecount', args[0][1])
        if isinstance(fn, ast.Name) and fn.id == 'len' and len(args) == 1 and isinstance(args[0], (set, frozenset, dict, str, bytes)):
            return len(args[0])
        if isinstance(fn, ast.Name) and fn.id == 'sorted' and len(args) == 1 and not kwargs:
            return self.h.new_list(sorted(self.seq(args[0])))
        if isinstance(fn, ast.Name) and fn.id == 'sorted' and 'sorted' not in env and len(args) == 1 and set(kwargs) <= {'key', 'reverse'}:
            # sorted(xs, key=f): stable, by the key's value; a key symbol without a key function orders as the text it spells (str order)
            items_ = self.seq(args[0])
            kf_ = kwargs.get('key')
            ks_ = [self.apply(kf_, [x_]) if kf_ is not None else x_ for x_ in items_]
            ks_ = [k_.spelling if isinstance(k_, Key) else (k_.concrete() if isinstance(k_, SStr) and k_.concrete() is not None else k_) for k_ in ks_]
            if not (all(isinstance(k_, str) for k_ in ks_) or all(isinstance(k_, int) and not isinstance(k_, bool) for k_ in ks_)
                    or all(isinstance(k_, tuple) and all(isinstance(y_, (str, int)) for y_ in k_) for k_ in ks_)):
                raise AnalysisError('heap model: sort keys %r' % (ks_[:3],))
            order_ = sorted(range(len(items_)), key=lambda i_: ks_[i_], reverse=bool(kwargs.get('reverse', False)))
            return self.h.new_list([items_[i_] for i_ in order_])
        if isinstance(fn, ast.Name) and fn.id == 'cast' and len(args) == 2:
            return args[1]
        if isinstance(fn, ast.Name) and fn.id == 'reversed' and len(args) == 1:
            if isinstance(args[0], Ref) and not h.is_list(args[0]):
                o = h.objs[args[0].name]
                rv = h.module.method(o['__class__'], '__reversed__')
                if rv is not None:
                    return self.seq(self.call(Closure(rv.node, {}, args[0], rv.cls), []))
            return list(reversed(self.seq(args[0])))
        if isinstance(fn, ast.Name) and fn.id == 'next' and args and isinstance(args[0], Ref) and h.objs[args[0].name]['__class__'] in h.module.classes \
                and h.module.method(h.objs[args[0].name]['__class__'], '__next__') is not None:
            nx_ = h.module.method(h.objs[args[0].name]['__class__'], '__next__')
            try:
                return self.call(Closure(nx_.node, {}, args[0], nx_.cls), [])          # next(obj): the class's own __next__
            except Raised as x_:
                if x_.exc == 'StopIteration' and len(args) > 1:
                    return args[1]
                raise
        if isinstance(fn, ast.Name) and fn.id == 'next' and args:
            if isinstance(args[0], PyIter):
                itr = args[0]
                if itr.has_next():
                    return itr.take()
                if len(args) > 1:
                    return args[1]
                raise Raised('StopIteration', h.version, e.lineno)
            items = self.seq(args[0])
            if items:
                return items[0]
            if len(args) > 1:
                return args[1]
            raise Raised('StopIteration', h.version, e.lineno)
        if isinstance(fn, ast.Name) and fn.id == 'iter' and len(args) == 1 and getattr(h, 'symbolic_strings', False):
            return args[0] if isinstance(args[0], PyIter) else PyIter(self.seq(args[0]))
        if norm(fn) in ('io.StringIO', 'StringIO') and not args and getattr(h, 'symbolic_strings', False):
            return h.alloc('StringIO', {'parts': []})
        if isinstance(fn, ast.Attribute) and fn.attr in ('write', 'getvalue') and getattr(h, 'symbolic_strings', False):
            b0 = self.ev(fn.value, env, cls)
            if isinstance(b0, Ref) and h.objs[b0.name]['__class__'] == 'StringIO':
                if fn.attr == 'write':
                    h.objs[b0.name]['parts'].append(args[0])
                    return None
                r0 = SStr(h.objs[b0.name]['parts'])
                c0 = r0.concrete()
                return c0 if c0 is not None else r0
        if isinstance(fn, ast.Name) and fn.id == 'iter' and len(args) == 2 and 'iter' not in env:
            # iter(callable, sentinel): the results of the calls up to the first one that equals the sentinel -- each call is made when
            # its item is asked for (a loop that breaks leaves the later calls unmade)
            fn_, sentinel_ = args[0], args[1]

            def producer(fn_=fn_, sentinel_=sentinel_):
                r_ = self.apply(fn_, [])
                return (False, None) if self.same_value(r_, sentinel_) else (True, r_)
            return PyIter([], producer)
        if isinstance(fn, ast.Name) and fn.id in ('list', 'tuple', 'iter') and len(args) == 1:
            if fn.id == 'iter' and isinstance(args[0], PyIter):
                return args[0]              # iter() of an iterator is the iterator
            if fn.id == 'iter' and self.obj_iter_possible(args[0]):
                oi_ = self.obj_iter(args[0])
                if oi_ is not None:
                    return oi_
            items = self.seq(args[0])
            if fn.id == 'iter':
                return PyIter(items)        # ONE position shared by everybody who reads from it (an outer and an inner loop over the same stream)
            return h.new_list(items) if fn.id == 'list' else tuple(items)
        if isinstance(fn, ast.Name) and fn.id == 'len' and len(args) == 1 and isinstance(args[0], SStr):
            n = args[0].length()
            return n.const if not n.terms else n
        if isinstance(fn, ast.Name) and fn.id == 'str' and 'str' not in h.hooks and len(args) == 1 and isinstance(args[0], int) and not isinstance(args[0], bool):
            return str(args[0])
        if isinstance(fn, ast.Name) and fn.id == 'str' and len(args) == 1 and isinstance(args[0], (SStr, str)):
            return args[0]
        if isinstance(fn, ast.Name) and fn.id == 'str' and 'str' not in h.hooks and len(args) == 1 and isinstance(args[0], Key) and not kwargs:
            return args[0].spelling          # str() of a case-insensitive string: the plain text of its spelling
        if isinstance(fn, ast.Name) and fn.id == 'len' and len(args) == 1 and (h.is_list(args[0]) or isinstance(args[0], (list, tuple))):
            return len(h.items(args[0])) if h.is_list(args[0]) else len(args[0])
        if isinstance(fn, ast.Attribute) and fn.attr in ('copy', 'update', 'clear') and len(args) <= 1:
            b_ = self.ev(fn.value, env, cls)
            if isinstance(b_, Ref) and h.objs[b_.name]['__class__'] == 'dict':
                if fn.attr == 'copy':
                    d_ = h.new_dict()
                    h.objs[d_.name]['entries'] = list(h.objs[b_.name]['entries'])     # shallow: the same value objects
                    return d_
                if fn.attr == 'clear':
                    h.touch(b_.name)
                    h.objs[b_.name]['entries'] = []
                    return None
                if args and isinstance(args[0], Ref) and h.objs[args[0].name]['__class__'] == 'dict':
                    for k_, v_ in list(h.objs[args[0].name]['entries']):
                        h.dict_set(b_, k_, v_)
                    return None
        if isinstance(fn, ast.Attribute) and fn.attr in ('items', 'keys', 'values') and not args:
            b_ = self.ev(fn.value, env, cls)
            if isinstance(b_, Ref) and h.objs[b_.name]['__class__'] == 'dict':
                ent = h.objs[b_.name]['entries']
                return [(k, v) for k, v in ent] if fn.attr == 'items' else KeysList(k for k, _ in ent) if fn.attr == 'keys' else [v for _, v in ent]
        if isinstance(fn, ast.Name) and fn.id == 'filter' and len(args) == 2 and 'filter' not in env:
            return [x for x in self.seq(args[1]) if (self.truth(self.apply(args[0], [x])) if args[0] is not None else self.truth(x))]
        if isinstance(fn, ast.Attribute) and (getattr(h, 'native_regex', False) or (isinstance(fn.value, ast.Name) and isinstance(env.get(fn.value.id), __import__('re').Match))):
            import re as _re
            b_ = None
            try:
                b_ = self.ev(fn.value, env, cls)
            except AnalysisError:
                b_ = None
            if isinstance(b_, (_re.Match, _re.Pattern)) and all(isinstance(a, (str, int, bytes)) or a is None for a in args):
                r_ = getattr(b_, fn.attr)(*args, **kwargs)
                if isinstance(r_, dict):          # groupdict(): a fresh dictionary of the model
                    d_ = h.new_dict()
                    h.objs[d_.name]['entries'].extend(r_.items())
                    return d_
                return h.new_list(r_) if isinstance(r_, list) else r_
            if isinstance(b_, tuple) and b_ and b_[0] == 'regex' and all(isinstance(a, (str, int)) for a in args) and fn.attr in ('match', 'search', 'fullmatch', 'sub', 'split', 'findall'):
                r_ = getattr(_re.compile(b_[2], b_[3]), fn.attr)(*args, **kwargs)
                return h.new_list(r_) if isinstance(r_, list) else r_
        if norm(fn) == 're.compile' and getattr(h, 'native_regex', False) and all(isinstance(a, (str, int)) for a in args):
            return ('regex', 'local', args[0], args[1] if len(args) > 1 else kwargs.get('flags', 0))
        if norm(fn) in ('functools.reduce', 'reduce') and norm(fn) not in env and len(args) in (2, 3) and not kwargs:
            # reduce(f, xs, init): f applied from the left
            items_ = self.seq(args[1])
            if len(args) == 2:
                if not items_:
                    raise Raised('TypeError', h.version, e.lineno)
                acc_, items_ = items_[0], items_[1:]
            else:
                acc_ = args[2]
            for x_ in items_:
                acc_ = self.apply(args[0], [acc_, x_])
            return acc_
        if isinstance(fn, ast.Name) and fn.id == 'map' and len(args) == 2 and 'map' not in env:
            return [self.apply(args[0], [x]) for x in self.seq(args[1])]
        if isinstance(fn, ast.Name) and fn.id == 'enumerate' and len(args) == 1:
            return [(i, v) for i, v in enumerate(self.seq(args[0]))]
        if norm(fn) in ('struct.unpack', 'struct.unpack_from', 'struct.calcsize') and 'struct' not in env and args and isinstance(args[0], (str, bytes)):
            if fn.attr == 'calcsize':
                import struct as _struct
                return _struct.calcsize(args[0])
            return self.apply(('structmethod', args[0], fn.attr), args[1:], kwargs)
        if isinstance(fn, ast.Name) and fn.id == 'zip' and 'zip' not in env and 'zip' not in h.hooks and args and not kwargs:
            if any(isinstance(a_, PyIter) or self.obj_iter_possible(a_) for a_ in args):
                # an iterator among the arguments: one item of each per round, from left to right, until one of them has none (what
                # the arguments to its left have handed out in that round is gone; an argument that does not end is fine)
                def zip_(srcs_):
                    its_ = [self.walk(a_) for a_ in srcs_]
                    while True:
                        row_ = []
                        for i_ in its_:
                            try:
                                row_.append(next(i_))
                            except StopIteration:
                                return
                        yield tuple(row_)
                return self.lazy_iter(zip_(list(args)))
            return list(zip(*[self.seq(a_) for a_ in args]))        # (sequences: finite)
        if isinstance(fn, ast.Attribute) and fn.attr in ('popleft', 'appendleft', 'extendleft'):
            base = self.ev(fn.value, env, cls)
            if h.is_list(base):
                # the left-end operations of collections.deque (modelled as a list)
                items = h.items(base)
                h.touch(base.name)
                if fn.attr == 'popleft':
                    if not items:
                        raise Raised('IndexError', h.version, e.lineno)
                    return items.pop(0)
                if fn.attr == 'appendleft':
                    items.insert(0, args[0])
                else:
                    for x_ in self.seq(args[0]):
                        items.insert(0, x_)
                ml_ = h.objs[base.name].get('#maxlen')
                if isinstance(ml_, int):
                    del items[ml_:]
                return None
        if isinstance(fn, ast.Attribute) and fn.attr in ('append', 'remove', 'insert', 'index', 'pop', 'extend', 'clear', 'format', 'count'):
            base = self.ev(fn.value, env, cls)
            if h.is_list(base):
                items = h.items(base)
                if fn.attr == 'count' and len(args) == 1:
                    return len([x for x in items if self.same_value(x, args[0])])
                ml_ = h.objs[base.name].get('#maxlen')
                if fn.attr == 'append':
                    h.touch(base.name)
                    items.append(args[0])
                    if ml_ is not None:
                        del items[:max(0, len(items) - ml_)]        # a bounded queue drops what no longer fits, from the left
                    return None
                if fn.attr == 'extend':
                    h.touch(base.name)
                    items.extend(self.seq(args[0]))
                    if ml_ is not None:
                        del items[:max(0, len(items) - ml_)]
                    return None

                if fn.attr == 'insert':
                    h.touch(base.name)
                    items.insert(args[0], args[1])
                    return None
                if fn.attr == 'clear':
                    h.touch(base.name)
                    del items[:]
                    return None
                if fn.attr in ('remove', 'index'):
                    for i, x in enumerate(items):
                        if x == args[0]:
                            if fn.attr == 'index':
                                return i
                            h.touch(base.name)
                            del items[i]
                            return None
                    raise Raised('ValueError', h.version, e.lineno)
                if fn.attr == 'pop':
                    if not items:
                        raise Raised('IndexError', h.version, e.lineno)
                    h.touch(base.name)
                    return items.pop(args[0] if args else -1)
            if isinstance(base, str) and fn.attr == 'format' and getattr(h, 'symbolic_strings', False):
                return self.sym_format_braces(base, args, kwargs)
            if isinstance(base, tuple) and fn.attr in ('count', 'index') and len(args) == 1 and not kwargs \
                    and not (base and isinstance(base[0], str) and base[0] in ('regex', 'record', 'partial', 'class', 'hook', 'extern', 'builtin', 'namedtuple', 'struct')):
                hits_ = [i_ for i_, x_ in enumerate(base) if self.same_value(x_, args[0])]
                if fn.attr == 'count':
                    return len(hits_)
                if not hits_:
                    raise Raised('ValueError', h.version, e.lineno)
                return hits_[0]
            if isinstance(base, str) and fn.attr in ('count', 'index') and all(isinstance(a_, (str, int)) for a_ in args) and not kwargs:
                try:
                    return getattr(base, fn.attr)(*args)          # of a decided text: CPython's own str decides
                except ValueError:
                    raise Raised('ValueError', h.version, e.lineno)
            if isinstance(base, str) and fn.attr == 'format':
                try:
                    if all(isinstance(a_, (str, int)) for a_ in list(args) + list(kwargs.values())):
                        return base.format(*args, **kwargs)
                except (IndexError, KeyError, ValueError):
                    pass
                return 'text'          # (a message: its content is not looked at)
        if isinstance(fn, ast.Name) and fn.id in h.module.classes and any(isinstance(b_, ast.Name) and b_.id == 'dict' for b_ in h.module.classes[fn.id].bases) \
                and h.module.method(fn.id, '__init__') is None and not args and not kwargs:
            # a subclass of dict without constructor of its own: a dictionary of the model that remembers its class (its methods --
            # __missing__ -- are looked up there)
            d_ = h.new_dict()
            h.objs[d_.name]['#subclass'] = fn.id
            return d_
        if isinstance(fn, ast.Name) and fn.id in h.module.classes:
            ref = h.alloc(fn.id)
            init = h.module.method(fn.id, '__init__')
            if init is not None:
                self.call(Closure(init.node, {}, ref, init.cls), args, kwargs)
            elif h.module.method(fn.id, '__new__') is None:
                cd_ = h.module.classes[fn.id]
                if any(norm(b_) in ('NamedTuple', 'typing.NamedTuple') for b_ in cd_.bases):
                    # class X(NamedTuple) with annotated fields (and defaults): the fields from the arguments
                    decl_ = [(st_.target.id, st_.value) for st_ in cd_.body if isinstance(st_, ast.AnnAssign) and isinstance(st_.target, ast.Name)]
                    fields_ = [n_ for n_, _d in decl_]
                    if any(k_ not in fields_ for k_ in kwargs) or len(args) > len(fields_):
                        raise Raised('TypeError', h.version, e.lineno)
                    for i_, (n_, d_) in enumerate(decl_):
                        if i_ < len(args):
                            v_ = args[i_]
                        elif n_ in kwargs:
                            v_ = kwargs[n_]
                        elif d_ is not None:
                            v_ = self.ev(d_, {}, fn.id)
                        else:
                            raise Raised('TypeError', h.version, e.lineno)
                        h.objs[ref.name][n_] = v_
                    h.objs[ref.name]['#fields'] = tuple(fields_)
                # class X(collections.namedtuple('X', 'a b')) without constructor of its own: the fields from the arguments
                for b_ in h.module.classes[fn.id].bases:
                    if isinstance(b_, ast.Call) and norm(b_.func) in ('collections.namedtuple', 'namedtuple') and len(b_.args) == 2:
                        try:
                            fields_ = h.module.fold(b_.args[1], '') if hasattr(h.module, 'fold') else ast.literal_eval(b_.args[1])
                        except Exception:      # pylint: disable=broad-except
                            fields_ = None
                        if isinstance(fields_, str):
                            fields_ = fields_.replace(',', ' ').split()
                        if fields_:
                            vals_ = list(args) + [kwargs[n_] for n_ in fields_[len(args):] if n_ in kwargs]
                            if len(vals_) != len(fields_):
                                raise Raised('TypeError', h.version, e.lineno)
                            for n_, v_ in zip(fields_, vals_):
                                h.objs[ref.name][n_] = v_
                            h.objs[ref.name]['#fields'] = tuple(fields_)
            return ref
        if isinstance(fn, ast.Name) and fn.id == 'len' and len(args) == 1 and isinstance(args[0], Ref):
            o = h.objs[args[0].name]
            if o['__class__'] == 'dict':
                return len(o['entries'])
            ln = h.module.method(o['__class__'], '__len__')
            return self.call(Closure(ln.node, {}, args[0], ln.cls), [])
        if norm(fn) == 'weakref.ref':
            return ('weak', args[0])
        if norm(fn) == 'resolve_ref':
            return args[0][1] if isinstance(args[0], tuple) and args[0] and args[0][0] == 'weak' else args[0]
        if isinstance(fn, ast.Name) and fn.id == 'super':
            return ('super',)
        if isinstance(fn, ast.Attribute) and fn.attr == 'update' and len(args) <= 1:
            base = self.ev(fn.value, env, cls)
            if isinstance(base, Ref) and h.objs[base.name]['__class__'] == 'dict':
                # d.update(mapping or iterable of pairs, **kw): the pairs in order, later ones replace
                if args:
                    src_ = args[0]
                    if isinstance(src_, Ref) and h.objs[src_.name]['__class__'] == 'dict':
                        pairs_ = list(h.objs[src_.name]['entries'])
                    else:
                        pairs_ = []
                        for it_ in self.seq(src_):
                            kv_ = self.seq(it_)
                            if len(kv_) != 2:
                                raise Raised('ValueError', h.version, e.lineno)
                            pairs_.append((kv_[0], kv_[1]))
                    for k_, v_ in pairs_:
                        h.dict_set(base, k_, v_)
                for k_, v_ in kwargs.items():
                    h.dict_set(base, k_, v_)
                return None
        if isinstance(fn, ast.Attribute) and fn.attr in ('get', 'pop', 'setdefault'):
            base = self.ev(fn.value, env, cls)
            if isinstance(base, Ref) and h.objs[base.name]['__class__'] == 'dict':
                has = h.dict_has(base, args[0])
                if fn.attr == 'get':
                    return h.dict_get(base, args[0]) if has else (args[1] if len(args) > 1 else None)
                if fn.attr == 'setdefault':
                    if not has:
                        h.dict_set(base, args[0], args[1] if len(args) > 1 else None)
                    return h.dict_get(base, args[0])
                if has:
                    v = h.dict_get(base, args[0])
                    h.dict_del(base, args[0])
                    return v
                if len(args) > 1:
                    return args[1]
                raise Raised('KeyError', h.version, e.lineno)
        f = self.ev(fn, env, cls)
        while isinstance(f, tuple) and f and f[0] == 'partial':
            args = list(f[2]) + list(args)
            kwargs = dict(f[3], **kwargs)
            f = f[1]
        if isinstance(f, Closure):
            return self.call(f, args, kwargs)
        if isinstance(f, tuple) and f and f[0] == 'hook':
            return h.hooks[f[1]](self, args, kwargs)
        if isinstance(f, tuple) and f and f[0] in ('namedtuple', 'regexmethod'):
            return self.apply(f, args, kwargs)
        if isinstance(f, tuple) and len(f) == 2 and f[0] == 'class' and isinstance(f[1], str) and (f[1] in h.hooks or f[1] in h.module.classes):
            return self.apply(f, args, kwargs)
        if isinstance(f, tuple) and f and f[0] == 'weak':
            return f[1]
        if isinstance(f, tuple) and f and f[0] == 'symmethod':
            return self.sym_method(f[1], f[2], args, kwargs, e)
        if isinstance(f, tuple) and f and f[0] == 'strmethod':
            if f[2] == 'join' and args and isinstance(args[0], PyIter):
                args = [self.seq(args[0])] + list(args[1:])          # an iterator is walked once
            if any(isinstance(a, SStr) for a in args) or (f[2] == 'join' and args and any(isinstance(x, SStr) for x in self.seq(args[0]))):
                if f[2] == 'join':
                    items = self.seq(args[0])
                    out = []
                    for i, x in enumerate(items):
                        if i:
                            out.append(f[1])
                        out.append(symstr.lift(x))
                    return SStr(out)
                if f[2] == 'format':
                    return self.sym_format_braces(f[1], args, kwargs)
                return self.sym_method(symstr.lift(f[1]), f[2], args, kwargs, e)
            if f[2] == 'join':
                return f[1].join([x_.spelling if isinstance(x_, Key) else x_ for x_ in self.seq(args[0])])          # (a case-insensitive string is its spelling)
            r = getattr(f[1], f[2])(*args, **kwargs)
            if isinstance(r, list):
                return h.new_list(r)
            return r
        if isinstance(f, tuple) and len(f) == 3 and f[0] == 'structmethod':
            return self.apply(f, args, kwargs)
        if isinstance(f, tuple) and len(f) == 2 and f[0] in ('attrgetter', 'itemgetter') and not isinstance(fn, ast.Attribute):
            return self.apply(f, args, kwargs)
        if isinstance(f, Ref) and h.objs[f.name]['__class__'] in h.module.classes and h.module.method(h.objs[f.name]['__class__'], '__call__') is not None:
            return self.apply(f, args, kwargs)
        if isinstance(f, tuple) and len(f) == 3 and f[0] == 'boundmethod' and not (isinstance(fn, ast.Attribute) and fn.attr == f[2]):
            return self.apply(f, args, kwargs)
        raise AnalysisError('heap model: call %s' % norm(e)[:60])

    def obj_getattr(self, base, attr, cls):
        """attribute of an object; a name that the object, its class and the class's tables do not have goes to the class's own
        __getattr__ (Python's rule)"""
        h = self.h
        try:
            return h.getattr(base, attr, cls)
        except AnalysisError:
            if not (isinstance(base, Ref) and h.objs[base.name]['__class__'] in h.module.classes) or (attr.startswith('__') and attr.endswith('__')):
                raise
            ga = h.module.method(h.objs[base.name]['__class__'], '__getattr__')
            if ga is None or getattr(self, '_in_getattr', None) == (base.name, attr):
                raise
            self._in_getattr = (base.name, attr)
            try:
                return self.call(Closure(ga.node, {}, base, ga.cls), [attr])
            finally:
                self._in_getattr = None

    def call_accessor(self, home_cls, fnode, ref, args, e):
        """the getter / setter given to property(): a lambda written in the class body, or the name of a method there"""
        h = self.h
        if isinstance(fnode, ast.Lambda):
            return self.call(Closure(fnode, {}, None, home_cls), [ref] + list(args))
        if isinstance(fnode, ast.Name):
            fn = h.module.method(home_cls, fnode.id)
            if fn is not None:
                return self.call(Closure(fn.node, {}, ref, fn.cls), list(args))
        if fnode is None:
            raise Raised('AttributeError', h.version, getattr(e, 'lineno', 0))
        raise AnalysisError('heap model: property accessor %s' % norm(fnode)[:60])

    def store_attr(self, ref, attr, value, cls):
        """obj.attr = value: through the class's own __setattr__ when it defines one (heap.intercept_setattr), through the setter of a
        property(fget, fset) of the class, else the plain store"""
        h = self.h
        if isinstance(ref, tuple) and len(ref) == 2 and ref[0] == 'class' and isinstance(ref[1], str) and ref[1] in h.module.classes:
            # Class.attr = value: the class-level variable itself (what every instance without an attribute of its own reads)
            node_, owner_ = h.module.class_const_node(ref[1], attr)
            h.__dict__.setdefault('class_vars', {})[(owner_ or ref[1], attr)] = value
            h.__dict__.setdefault('class_stores', set()).add((owner_ or ref[1], attr))
            h.version += 1
            return
        if ref is None or isinstance(ref, (str, bytes, int, float, bool, tuple, frozenset)):
            raise Raised('AttributeError', h.version, 0)          # None / a text / a number takes no attribute
        if isinstance(ref, Ref) and h.objs[ref.name]['__class__'] in h.module.classes and not attr.startswith('__'):
            node, c = h.module.class_const_node(h.objs[ref.name]['__class__'], attr)
            if isinstance(node, ast.Call) and norm(node.func) == 'property':
                parts = list(node.args[:2]) + [None] * (2 - len(node.args[:2]))
                for kw_ in node.keywords:
                    if kw_.arg == 'fset':
                        parts[1] = kw_.value
                self.call_accessor(c, parts[1], ref, [value], None)
                return
        if isinstance(ref, Ref) and h.objs[ref.name]['__class__'] in h.module.classes and not attr.startswith('__') and h.fld(attr, cls) not in h.objs[ref.name]:
            # @property / @<name>.setter: the assignment runs the setter (an object of a scenario that keeps the value as a plain
            # field of that name is stored to directly)
            st_ = self.accessor(h.objs[ref.name]['__class__'], attr, 'set')
            if st_ is not None:
                self.call(Closure(st_.node, {}, ref, st_.cls), [value])
                return
        if getattr(h, 'intercept_setattr', False) and isinstance(ref, Ref) and h.objs[ref.name]['__class__'] in h.module.classes:
            fn = h.module.method(h.objs[ref.name]['__class__'], '__setattr__')
            if fn is not None:
                self.call(Closure(fn.node, {}, ref, fn.cls), [h.fld(attr, cls), value])
                return
        h.setattr(ref, attr, value, cls)

    def equal_values(self, a, b, depth=0):
        """`a == b` where at least one side is an object of the heap: builtin lists and dictionaries compare by content (a list never
        equals a tuple), an object of the module through its __eq__ when it defines one, anything else by identity"""
        h = self.h
        if depth > 20:
            raise AnalysisError('heap model: equality nested too deeply')
        la = h.is_list(a) or isinstance(a, list)
        lb = h.is_list(b) or isinstance(b, list)
        if la and lb:
            xs = h.items(a) if h.is_list(a) else a
            ys = h.items(b) if h.is_list(b) else b
            return len(xs) == len(ys) and all(self.equal_values(x, y, depth + 1) if (isinstance(x, Ref) or isinstance(y, Ref)) else self.same_value(x, y) for x, y in zip(xs, ys))
        if la or lb:
            return False
        if isinstance(a, Ref) and isinstance(b, Ref):
            oa, ob = h.objs[a.name], h.objs[b.name]
            if oa['__class__'] == 'dict' and ob['__class__'] == 'dict':
                ea, eb = oa['entries'], ob['entries']
                if len(ea) != len(eb):
                    return False
                for k_, v_ in ea:
                    if not h.dict_has(b, k_):
                        return False
                    w_ = h.dict_get(b, k_)
                    if not (self.equal_values(v_, w_, depth + 1) if (isinstance(v_, Ref) or isinstance(w_, Ref)) else self.same_value(v_, w_)):
                        return False
                return True
            if a == b:
                return True
            eq_ = h.module.method(oa['__class__'], '__eq__') if oa['__class__'] in h.module.classes else None
            if eq_ is not None:
                res_ = self.call(Closure(eq_.node, {}, a, eq_.cls), [b])
                if not (res_ is NotImplemented or (isinstance(res_, tuple) and res_ == ('NotImplemented',))):
                    return self.truth(res_)
                # NotImplemented: the reflected method of the other side, then identity (which is False here)
                eqb_ = h.module.method(ob['__class__'], '__eq__') if ob['__class__'] in h.module.classes else None
                if eqb_ is not None:
                    res_ = self.call(Closure(eqb_.node, {}, b, eqb_.cls), [a])
                    if not (res_ is NotImplemented or (isinstance(res_, tuple) and res_ == ('NotImplemented',))):
                        return self.truth(res_)
            return False
        return False

    def same_value(self, a, b):
        """== of two model values where it is decided without forking (constants, references by identity, equal symbolic texts)"""
        if isinstance(a, SStr) or isinstance(b, SStr):
            return symstr.lift(a).same(symstr.lift(b)) if isinstance(a, (str, SStr)) and isinstance(b, (str, SStr)) else False
        return a == b

    def call_value(self, f, args, e):
        """call an evaluated callable (default factories): the builtin container types and closures"""
        h = self.h
        if isinstance(f, Closure):
            return self.call(f, list(args), {})
        if isinstance(f, tuple) and len(f) == 2 and f[0] == 'class' and not args:
            if f[1] in ('set',):
                return set()
            if f[1] == 'list':
                return h.new_list([])
            if f[1] == 'dict':
                return h.new_dict()
            if f[1] == 'int':
                return 0
            if f[1] == 'str':
                return ''
        raise AnalysisError('heap model: call of the value %r' % (f,))

    def class_value(self, cname, attr, cur_cls):
        """class-level constants that are values of the model: compiled regexes, namedtuple types, plain constants"""
        h = self.h
        for c_ in (h.module.mro(cname) if cname in h.module.classes else [cname]):
            if (c_, attr) in h.__dict__.get('class_stores', ()):
                return h.class_vars[(c_, attr)]          # (a class-level variable that was assigned through the class)
        for nm in (attr, h.fld(attr, cur_cls or cname)):
            raw = nm
            if cur_cls and nm.startswith('_' + cur_cls.lstrip('_') + '__'):
                raw = nm[len('_' + cur_cls.lstrip('_')):]
            for cand in (nm, raw):
                node, c = h.module.class_const_node(cname, cand)
                if node is None:
                    continue
                if isinstance(node, ast.Call) and norm(node.func) == 're.compile':
                    home = h.module._home(c) if hasattr(h.module, '_home') else h.module
                    try:
                        pat = home.fold(node.args[0], c)
                        fl = home.fold(node.args[1], c) if len(node.args) > 1 else 0
                    except Exception:      # pylint: disable=broad-except
                        raise AnalysisError('heap model: regex %s.%s does not fold' % (c, cand))
                    return ('regex', '%s.%s' % (c, cand), pat, fl)
                if isinstance(node, ast.Call) and norm(node.func) in ('collections.namedtuple', 'namedtuple') and len(node.args) == 2:
                    home = h.module._home(c) if hasattr(h.module, '_home') else h.module
                    fields = home.fold(node.args[1], c)
                    if isinstance(fields, str):
                        fields = fields.replace(',', ' ').split()
                    return ('namedtuple', home.fold(node.args[0], c), tuple(fields))
                if isinstance(node, ast.Constant):
                    return node.value
                # a table computed from literals in the class body (and completed by .update() / [k] = v statements after it):
                # the folded value; a dictionary is ONE object of the class
                home = h.module._home(c) if hasattr(h.module, '_home') else h.module
                val = home.consts.get(c, {}).get(cand) if home is not None else None
                if isinstance(val, (tuple, frozenset, str, int, bytes)) and not isinstance(val, bool):
                    return val
                if isinstance(val, dict) and all(isinstance(x, (str, int, bytes, tuple, type(None))) for x in list(val) + list(val.values())):
                    nm_ = '@classvar_%s_%s' % (c, cand)
                    if nm_ not in h.objs:
                        h.new_dict(nm_)
                        h.objs[nm_]['entries'].extend(val.items())
                    return Ref(nm_)
                if isinstance(node, ast.Name) and node.id != cand:
                    # NAME = OTHER in the class body: the other class-level value, or a value of the module
                    other_ = self.class_value(c, node.id, c)
                    if other_ is not None:
                        return other_
                    try:
                        return self.ev(node, {}, None)
                    except AnalysisError:
                        return None
                if isinstance(node, (ast.Tuple, ast.List)) and all(
                        isinstance(x_, (ast.Lambda, ast.Constant, ast.Name)) or (isinstance(x_, ast.Tuple) and all(isinstance(y_, (ast.Lambda, ast.Constant, ast.Name)) for y_ in x_.elts))
                        for x_ in node.elts):
                    # a table of functions written in the class body (lambdas), constants and names, possibly as rows
                    def cell_(x_):
                        if isinstance(x_, ast.Lambda):
                            return Closure(x_, {}, None, c)
                        if isinstance(x_, ast.Constant):
                            return x_.value
                        if isinstance(x_, ast.Tuple):
                            return tuple(cell_(y_) for y_ in x_.elts)
                        v_ = self.class_value(c, x_.id, c)
                        if v_ is None:
                            fn_ = h.module.method(c, x_.id)
                            v_ = Closure(fn_.node, {}, None, fn_.cls) if fn_ is not None else self.ev(x_, {}, None)
                        return v_
                    try:
                        vals_ = [cell_(x_) for x_ in node.elts]
                    except AnalysisError:
                        return None
                    return tuple(vals_) if isinstance(node, ast.Tuple) else h.new_list(vals_)
        return None

    def apply(self, f, args, kwargs=None):
        """call a value of the model"""
        h = self.h
        kwargs = kwargs or {}
        while isinstance(f, tuple) and f and f[0] == 'partial':
            args = list(f[2]) + list(args)
            kwargs = dict(f[3], **kwargs)
            f = f[1]
        if isinstance(f, Closure):
            return self.call(f, list(args), kwargs)
        if isinstance(f, tuple) and len(f) == 2 and f[0] in ('builtin', 'class') and f[1] in (
                'len', 'repr', 'ord', 'chr', 'bool', 'sorted', 'min', 'max', 'any', 'all', 'enumerate', 'reversed', 'str', 'int', 'list', 'tuple', 'set', 'frozenset') \
                and f[1] not in h.hooks and f[1] not in h.module.classes:
            # a builtin that travelled as a value: the call it stands for, on these arguments
            env_ = {'#a%d' % i: a for i, a in enumerate(args)}
            for k_, v_ in kwargs.items():
                env_['#k_' + k_] = v_
            call_ = ast.Call(func=ast.Name(id=f[1], ctx=ast.Load()), args=[ast.Name(id='#a%d' % i, ctx=ast.Load()) for i in range(len(args))],
                             keywords=[ast.keyword(arg=k_, value=ast.Name(id='#k_' + k_, ctx=ast.Load())) for k_ in kwargs])
            return self.ev(ast.fix_missing_locations(call_), env_, None)
        if isinstance(f, tuple) and len(f) == 3 and f[0] == 'unboundmethod':
            recv_ = args[0].concrete() if isinstance(args[0], SStr) else args[0]
            want_ = str if f[1] == 'str' else bytes
            if isinstance(recv_, Key):
                recv_ = recv_.spelling
            if not isinstance(recv_, want_):
                raise AnalysisError('heap model: %s.%s on %r' % (f[1], f[2], args[0]))
            r_ = getattr(recv_, f[2])(*args[1:], **kwargs)
            return h.new_list(r_) if isinstance(r_, list) else r_
        if isinstance(f, tuple) and len(f) == 3 and f[0] == 'structmethod':
            import struct as _struct
            if not all(isinstance(a_, (bytes, int)) for a_ in list(args) + list(kwargs.values())):
                raise AnalysisError('heap model: struct %s on undecided values' % f[2])
            try:
                return tuple(getattr(_struct.Struct(f[1]), f[2])(*args, **kwargs)) if f[2] != 'pack' else _struct.Struct(f[1]).pack(*args)
            except _struct.error:
                raise Raised('struct.error', h.version, 0)
        if isinstance(f, tuple) and len(f) == 3 and f[0] == 'boundmethod':
            env_ = {'#recv': f[1]}
            env_.update(('#a%d' % i, a) for i, a in enumerate(args))
            env_.update(('#k_' + k_, v_) for k_, v_ in kwargs.items())
            call_ = ast.Call(func=ast.Attribute(value=ast.Name(id='#recv', ctx=ast.Load()), attr=f[2], ctx=ast.Load()),
                             args=[ast.Name(id='#a%d' % i, ctx=ast.Load()) for i in range(len(args))],
                             keywords=[ast.keyword(arg=k_, value=ast.Name(id='#k_' + k_, ctx=ast.Load())) for k_ in kwargs])
            return self.ev(ast.fix_missing_locations(call_), env_, None)
        if isinstance(f, tuple) and len(f) == 2 and f[0] == 'itemgetter':
            sub_ = ast.Subscript(value=ast.Name(id='#a0', ctx=ast.Load()), slice=ast.Name(id='#k', ctx=ast.Load()), ctx=ast.Load())
            return self.ev(ast.fix_missing_locations(sub_), {'#a0': args[0], '#k': f[1]}, None)
        if isinstance(f, tuple) and len(f) == 2 and f[0] == 'attrgetter':
            # (the attribute as the expression `a0.name` reads it: properties and class-level tables included)
            return self.ev(ast.fix_missing_locations(ast.Attribute(value=ast.Name(id='#a0', ctx=ast.Load()), attr=f[1], ctx=ast.Load())), {'#a0': args[0]}, None)
        if isinstance(f, tuple) and len(f) == 2 and f[0] == 'class' and isinstance(f[1], str):
            # a class object that travelled through a local / a table before being called
            if f[1] in h.hooks:
                return h.hooks[f[1]](self, list(args), kwargs)
            if f[1] in h.module.classes:
                ref = h.alloc(f[1])
                init = h.module.method(f[1], '__init__')
                if init is not None:
                    self.call(Closure(init.node, {}, ref, init.cls), list(args), kwargs)
                return ref
        if isinstance(f, tuple) and f and f[0] == 'hook' and f[1] == '#contains':
            return args[1] in args[0]
        if isinstance(f, tuple) and f and f[0] == 'hook':
            return h.hooks[f[1]](self, list(args), kwargs)
        if isinstance(f, tuple) and f and f[0] == 'namedtuple':
            vals = list(args) + [kwargs[n] for n in f[2][len(args):]]
            if len(vals) != len(f[2]):
                raise Raised('TypeError', h.version, 0)
            return ('record', f[1], f[2], tuple(vals))
        if isinstance(f, tuple) and f and f[0] == 'regexmethod':
            rxv, meth = f[1], f[2]
            hk = h.hooks.get('regex:%s.%s' % (rxv[1].split('.')[-1], meth)) or h.hooks.get('regex:%s.%s' % (rxv[1].split('.')[-1].lstrip('_'), meth))
            if hk is not None:
                return hk(self, list(args), kwargs)
            if getattr(h, 'native_regex', False) and meth in ('search', 'match', 'fullmatch') and args \
                    and all(isinstance(a_, (str, int, bytes)) or (isinstance(a_, SStr) and a_.concrete() is not None) for a_ in args):
                # decided text under a heap that lets CPython's regex engine decide: the Match object itself (groups are read later)
                import re as _re
                try:
                    return getattr(_re.compile(rxv[2], rxv[3]), meth)(*[a_.concrete() if isinstance(a_, SStr) else a_ for a_ in args], **kwargs)
                except TypeError:
                    raise Raised('TypeError', h.version, 0)          # (a text pattern on bytes, or the reverse)
            if meth in ('search', 'match', 'fullmatch') and args and isinstance(args[0], (str, SStr)):
                ok = symstr.regex_test(rxv[2], rxv[3], meth, args[0])
                return ('matchobj', rxv[1]) if ok else None
            if meth == 'split' and args and isinstance(args[0], (str, SStr)):
                try:
                    return h.new_list(symstr.regex_split(rxv[2], rxv[3], args[0], args[1] if len(args) > 1 else kwargs.get('maxsplit', 0)))
                except KeyError as k:
                    raise Raised(k.args[0], h.version, 0)
            args = [a_.concrete() if isinstance(a_, SStr) and a_.concrete() is not None else a_ for a_ in args]
            if meth in ('sub', 'subn') and len(args) >= 2 and isinstance(args[1], str) and not isinstance(args[0], (str, bytes, SStr)) \
                    and all(isinstance(a_, int) for a_ in args[2:]):
                # pattern.sub(function, text) on a decided text: CPython's engine finds the matches (the pattern is data), the
                # replacement function is interpreted for each Match object
                import re as _re

                def repl_(m_):
                    r2_ = self.apply(args[0], [m_])
                    r2_ = r2_.concrete() if isinstance(r2_, SStr) else r2_
                    if not isinstance(r2_, str):
                        raise AnalysisError('heap model: replacement function returns %r' % (r2_,))
                    return r2_
                return getattr(_re.compile(rxv[2], rxv[3]), meth)(repl_, *args[1:], **kwargs)
            if args and isinstance(args[0], str) and all(isinstance(a_, (str, int)) for a_ in args) \
                    and meth in ('finditer', 'findall', 'sub', 'match', 'search', 'fullmatch', 'split'):
                # a regex constant of the module applied to a decided string: CPython's own regex engine decides (the pattern is data)
                import re as _re
                r_ = getattr(_re.compile(rxv[2], rxv[3]), meth)(*args, **kwargs)
                if meth == 'finditer':
                    r_ = list(r_)
                return h.new_list(r_) if isinstance(r_, list) else r_
            raise symstr.Undecided('regex method %s.%s on %r' % (rxv[1], meth, args[:1]))
        if isinstance(f, tuple) and f and f[0] == 'symmethod':
            return self.sym_method(f[1], f[2], list(args), kwargs, None)
        if isinstance(f, tuple) and f and f[0] == 'strmethod':
            if any(isinstance(a, SStr) for a in args):
                return self.sym_method(symstr.lift(f[1]), f[2], list(args), kwargs, None)
            r = getattr(f[1], f[2])(*args, **kwargs)
            return h.new_list(r) if isinstance(r, list) else r
        if isinstance(f, Ref) and h.objs[f.name]['__class__'] in h.module.classes:
            cm_ = h.module.method(h.objs[f.name]['__class__'], '__call__')
            if cm_ is not None:
                return self.call(Closure(cm_.node, {}, f, cm_.cls), list(args), kwargs)          # an object of a class with __call__
        raise AnalysisError('heap model: cannot call %r' % (f,))

    # -- symbolic strings -------------------------------------------------------------------------------
    def sym_compare(self, l, op, r, e):
        name = type(op).__name__
        if isinstance(r, tuple) and r and r[0] == 'linecount' and isinstance(l, int):
            l, r = r, l
            name = {'Lt': 'Gt', 'LtE': 'GtE', 'Gt': 'Lt', 'GtE': 'LtE'}.get(name, name)
        if isinstance(l, tuple) and l and l[0] == 'linecount' and isinstance(r, int) and not isinstance(r, bool) \
                and name in ('Eq', 'NotEq', 'Lt', 'LtE', 'Gt', 'GtE'):
            return l[1]._decide(symstr.line_count_lang(name, r), 'len(splitlines()) %s %d' % (name, r))
        if isinstance(l, SInt) or isinstance(r, SInt):
            if name in ('Eq', 'NotEq', 'Lt', 'LtE', 'Gt', 'GtE') and isinstance(l, (SInt, int)) and isinstance(r, (SInt, int)):
                return symstr.compare_int(l, name, r)
            if name in ('Is', 'IsNot') and (l is None or r is None):
                return name == 'IsNot'
            raise AnalysisError('heap model: comparison %s' % norm(e))
        if name in ('Is', 'IsNot'):
            if l is None or r is None:
                return name == 'IsNot'
            raise AnalysisError('heap model: identity of strings %s' % norm(e))
        if name in ('Eq', 'NotEq'):
            if not isinstance(l, (SStr, str)) or not isinstance(r, (SStr, str)):
                return name == 'NotEq'
            res = symstr.lift(l).equals(r)
            return res if name == 'Eq' else not res
        if name in ('In', 'NotIn'):
            if isinstance(r, (SStr,)):
                res = r.contains(l)
            elif isinstance(r, str):
                res = symstr.lift(l).member_of(r)
            elif isinstance(r, (tuple, list, set, frozenset)) or self.h.is_list(r):
                res = symstr.lift(l).member_of(list(r) if isinstance(r, (tuple, list, set, frozenset)) else list(self.h.items(r)))
            else:
                raise AnalysisError('heap model: comparison %s' % norm(e))
            return res if name == 'In' else not res
        raise AnalysisError('heap model: comparison %s' % norm(e))

    def sym_method(self, s, meth, args, kwargs, e):
        h = self.h
        try:
            if meth in ('startswith', 'endswith'):
                a = args[0]
                if isinstance(a, tuple):
                    return any(getattr(s, meth)(x) for x in a)
                return getattr(s, meth)(a)
            if meth in ('strip', 'lstrip', 'rstrip'):
                return getattr(s, meth)(*args)
            if meth in ('removesuffix', 'removeprefix') and len(args) == 1 and not kwargs and isinstance(args[0], str):
                # str.removesuffix(c) / removeprefix(c) with a decided c: the slice when the text ends (starts) with c, else the text
                if not args[0]:
                    return s
                src_ = '(S[:-%d] if S.endswith(C) else S)' if meth == 'removesuffix' else '(S[%d:] if S.startswith(C) else S)'
                return self.ev(ast.fix_missing_locations(ast.parse(src_ % len(args[0]), mode='eval')).body, {'S': s, 'C': args[0]}, None)
            if meth in ('isascii', 'isdigit', 'isdecimal', 'isspace') and not args:
                # a predicate on all characters: decided on the language of the string (isascii: every character below U+0080, true
                # for the empty string; the others: non-empty and every character in the class)
                c_ = s.concrete()
                if c_ is not None:
                    return getattr(c_, meth)()
                pat_ = {'isascii': r'(?s:[\x00-\x7f]*)', 'isdigit': r'[0-9]+', 'isdecimal': r'[0-9]+', 'isspace': r'(?s:[ \t\n\r\x0b\x0c\x1c-\x1f\x85\xa0]+)'}[meth]
                if meth in ('isdigit', 'isdecimal', 'isspace') and not s.lang().minus(symstr.L(r'(?s:[\x00-\x7f]*)')).is_empty():
                    raise AnalysisError('string method %s on %r (non-ASCII members of the class are not modelled)' % (meth, s))
                return s._decide(symstr.L(pat_), meth + '()')
            if meth in ('lower', 'upper'):
                return getattr(s, meth)()
            if meth in ('split', 'rsplit'):
                sep = args[0] if args else kwargs.get('sep')
                mx = args[1] if len(args) > 1 else kwargs.get('maxsplit', -1)
                return h.new_list(getattr(s, meth)(sep, mx))
            if meth == 'splitlines':
                keep = bool(args[0]) if args else bool(kwargs.get('keepends', False))
                try:
                    return h.new_list(s.splitlines(keep))
                except symstr.Undecided as u:
                    if u.atom is not None and u.split is not None and not u.atom.lang.intersect(u.split).is_empty() \
                            and not u.atom.lang.minus(u.split).is_empty():
                        raise         # the case can be refined on this atom
                    # line boundaries other than "\n" may occur: the list is not built; its length / emptiness are
                    # decided on the language of the string
                    return ('linesof', s)
            if meth in ('partition', 'rpartition'):
                return getattr(s, meth)(args[0])
            if meth in ('find', 'index', 'count'):
                r = getattr(s, meth)(args[0])
                return r.const if isinstance(r, SInt) and not r.terms else r
            if meth == 'join':
                items = self.seq(args[0])
                out = []
                for i, x in enumerate(items):
                    if i:
                        out.append(s)
                    out.append(symstr.lift(x))
                return SStr(out)
            if meth in ('encode', 'decode'):
                return s
            if meth == 'format':
                c = s.concrete()
                if c is not None:
                    return self.sym_format_braces(c, args, kwargs)
        except KeyError as k:
            raise Raised(k.args[0], h.version, getattr(e, 'lineno', 0))
        raise symstr.Undecided('string method %s on %r' % (meth, s))

    def sym_format_percent(self, fmt, arg):
        vals = list(arg) if isinstance(arg, tuple) else [arg]
        import re as _re
        pieces = _re.split(r'(%s|%r|%d|%%)', fmt)
        out = []
        for p in pieces:
            if p in ('%s', '%r', '%d'):
                if not vals:
                    raise AnalysisError('heap model: not enough arguments for format string')
                v = vals.pop(0)
                if p == '%d' and isinstance(v, int) and not isinstance(v, bool):
                    v = str(v)
                elif p == '%r' and isinstance(v, str):
                    v = repr(v)
                elif p == '%r' and isinstance(v, SStr) and v.concrete() is not None:
                    v = repr(v.concrete())
                elif p == '%r' and isinstance(v, SStr):
                    v = SStr(["'", v, "'"])      # (only used in messages: the quoting of an undecided text is not modelled further)
                elif not isinstance(v, (str, SStr)):
                    v = '<%s>' % type(v).__name__      # rendered text of other objects (only used in messages)
                out.append(v)
            elif p == '%%':
                out.append('%')
            else:
                if '%' in p:
                    raise AnalysisError('heap model: format directive in %r' % fmt)
                out.append(p)
        r = SStr(out)
        c = r.concrete()
        return c if c is not None else r

    def sym_format_braces(self, fmt, args, kwargs):
        import string as _string
        out = []
        auto = 0
        for lit, field, spec, conv in _string.Formatter().parse(fmt):
            out.append(lit)
            if field is None:
                continue
            if spec or conv:
                raise AnalysisError('heap model: format spec in %r' % fmt)
            if field == '':
                v = args[auto]
                auto += 1
            elif field.isdigit():
                v = args[int(field)]
            else:
                v = kwargs[field]
            if not isinstance(v, (str, SStr)):
                v = '<%s>' % type(v).__name__
            out.append(v)
        r = SStr(out)
        c = r.concrete()
        return c if c is not None else r

    def exec(self, st, env, cls):
        h = self.h
        if isinstance(st, ast.Expr) and isinstance(st.value, ast.Yield):
            v_ = self.ev(st.value.value, env, cls) if st.value.value is not None else None
            if '#emit' in env:
                env['#emit'](v_)
            else:
                env['#yields'].append(v_)
            return None
        if isinstance(st, ast.Expr) and isinstance(st.value, ast.YieldFrom):
            src_ = self.ev(st.value.value, env, cls)
            if '#emit' in env:
                if isinstance(src_, PyIter):
                    while src_.has_next():
                        env['#emit'](src_.take())
                else:
                    for v_ in self.seq(src_):
                        env['#emit'](v_)
            else:
                env['#yields'].extend(self.seq(src_))
            return None
        if isinstance(st, ast.Expr):
            if isinstance(st.value, ast.Constant):
                return None
            if isinstance(st.value, ast.Call) and isinstance(st.value.func, ast.Attribute) and isinstance(st.value.func.value, ast.Call) \
                    and norm(st.value.func.value.func) == 'super':
                # super().m(...): the next definition of m after the current class in the object's MRO (within the analysed
                # modules; object / abstract bases outside them have nothing to run)
                me = env.get('self')
                if isinstance(me, Ref) and cls and h.objs[me.name]['__class__'] in h.module.classes:
                    mro = h.module.mro(h.objs[me.name]['__class__'])
                    if cls in mro:
                        for c_ in mro[mro.index(cls) + 1:]:
                            home = h.module._home(c_) if hasattr(h.module, '_home') else h.module
                            fn_ = home.funcs.get('%s.%s' % (c_, st.value.func.attr)) if home is not None else None
                            if fn_ is not None:
                                args_ = [self.ev(a_, env, cls) for a_ in st.value.args]
                                kw_ = {k_.arg: self.ev(k_.value, env, cls) for k_ in st.value.keywords if k_.arg}
                                self.call(Closure(fn_.node, {}, me, fn_.cls), args_, kw_)
                                break
                        else:
                            if st.value.func.attr == '__setattr__' and len(st.value.args) == 2:
                                # object.__setattr__: the plain store
                                a_, v_ = [self.ev(x_, env, cls) for x_ in st.value.args]
                                a_ = a_.concrete() if isinstance(a_, SStr) else a_
                                if not isinstance(a_, str):
                                    raise AnalysisError('heap model: attribute name is not decided: %s' % norm(st.value)[:60])
                                h.setattr(me, a_, v_, None)
                return None
            self.ev(st.value, env, cls)
            return None
        if isinstance(st, (ast.Assign, ast.AnnAssign)):
            value = self.ev(st.value, env, cls) if st.value is not None else None
            targets = st.targets if isinstance(st, ast.Assign) else [st.target]
            for t in targets:
                self.assign(t, value, env, cls)
            return None
        if isinstance(st, ast.AugAssign):
            cur = self.ev(st.target, env, cls)
            d = self.ev(st.value, env, cls)
            if isinstance(st.op, (ast.BitOr, ast.BitAnd, ast.Sub)) and isinstance(cur, set) and isinstance(d, (set, frozenset)):
                if isinstance(st.op, ast.BitOr):
                    cur |= d            # in place: the same set object (aliases see the change)
                elif isinstance(st.op, ast.BitAnd):
                    cur &= d
                else:
                    cur -= d
                return None
            if isinstance(st.op, ast.Add) and h.is_list(cur):
                # xs += ys: the items of ys at the end of the same list object
                h.touch(cur.name)
                h.items(cur).extend(self.seq(d))
                return None
            if isinstance(st.op, ast.Add) and isinstance(cur, (str, SStr)) and isinstance(d, (str, SStr)):
                self.assign(st.target, symstr.lift(cur) + symstr.lift(d) if (isinstance(cur, SStr) or isinstance(d, SStr)) else cur + d, env, cls)
                return None
            if isinstance(st.op, ast.Add) and ((isinstance(cur, (str, SStr)) and (d is None or (isinstance(d, int) and not isinstance(d, bool))))
                                               or (isinstance(d, (str, SStr)) and (cur is None or (isinstance(cur, int) and not isinstance(cur, bool))))):
                raise Raised('TypeError', h.version, st.lineno)        # text + None / text + number
            if isinstance(st.op, (ast.Add, ast.Sub)) and (isinstance(cur, SInt) or isinstance(d, SInt)) and isinstance(cur, (int, SInt)) and isinstance(d, (int, SInt)) \
                    and not isinstance(cur, bool) and not isinstance(d, bool):
                a_ = cur if isinstance(cur, SInt) else SInt(cur)
                b_ = d if isinstance(d, SInt) else SInt(d)
                self.assign(st.target, a_ + b_ if isinstance(st.op, ast.Add) else a_ - b_, env, cls)      # symbolic lengths
                return None
            if not (isinstance(cur, int) and isinstance(d, int) and isinstance(st.op, (ast.Add, ast.Sub))):
                raise AnalysisError('heap model: augmented assignment %s' % norm(st))
            self.assign(st.target, cur + d if isinstance(st.op, ast.Add) else cur - d, env, cls)
            return None
        if isinstance(st, ast.If):
            return self.run(st.body if self.truth(self.ev(st.test, env, cls)) else st.orelse, env, cls)
        if isinstance(st, ast.Return):
            return ('return', self.ev(st.value, env, cls) if st.value is not None else None)
        if isinstance(st, (ast.Import, ast.ImportFrom)):
            # an import inside a function binds names: a name the scenario hooks is that hook, anything else an opaque value
            modelled = ('itertools', 'functools', 'operator', 'collections', 're', 'io', 'copy', 'string', 'sys')
            for a_ in st.names:
                nm_ = a_.asname or a_.name.split('.')[0]
                if nm_ in h.hooks:
                    env[nm_] = ('hook', nm_)
                elif a_.asname is None and ((isinstance(st, ast.Import) and a_.name in modelled) or (isinstance(st, ast.ImportFrom) and st.module in modelled)):
                    pass            # a name of a module the interpreter knows (itertools.dropwhile ...): read where it is used
                else:
                    env[nm_] = ('extern', '%s.%s' % (getattr(st, 'module', None) or '', a_.name))
            return None
        if isinstance(st, (ast.Nonlocal, ast.Global)):
            # names of an enclosing scope: the closure's environment is the enclosing function's own (shared) environment when the
            # nested function was defined in it, so a store goes where the name lives
            for nm_ in st.names:
                env.setdefault('#nonlocal', set()).add(nm_)
            return None
        if isinstance(st, ast.With):
            # with E as v: the context manager of a stream is the stream itself; an object of the module with __enter__ is entered.
            # __exit__ is modelled for objects of the module only (called on normal and exceptional exit, its result ignored)
            entered = []
            for item in st.items:
                ce_ = item.context_expr
                if isinstance(ce_, ast.Call) and norm(ce_.func) in ('contextlib.suppress', 'suppress') and norm(ce_.func).split('.')[0] not in env \
                        and not ce_.keywords and item.optional_vars is None:
                    # contextlib.suppress(E1, E2): an exception of one of these classes that leaves the block ends the block quietly
                    entered.append(('suppress', ast.Tuple(elts=list(ce_.args), ctx=ast.Load())))
                    continue
                if isinstance(ce_, ast.Call) and norm(ce_.func) in ('contextlib.nullcontext', 'nullcontext') and norm(ce_.func).split('.')[0] not in env and len(ce_.args) <= 1:
                    if item.optional_vars is not None and isinstance(item.optional_vars, ast.Name):
                        env[item.optional_vars.id] = self.ev(ce_.args[0], env, cls) if ce_.args else None
                    continue
                v_ = self.ev(item.context_expr, env, cls)
                if isinstance(v_, PyIter) and isinstance(v_.owner, _GenRun) and isinstance(ce_, ast.Call) and self.is_contextmanager(ce_.func):
                    # a function decorated with contextlib.contextmanager: the block runs while its generator waits at its yield
                    if not v_.has_next():
                        raise Raised('RuntimeError', h.version, st.lineno)          # generator didn't yield
                    got_ = v_.take()
                    entered.append(('genctx', v_))
                    if item.optional_vars is not None:
                        if not isinstance(item.optional_vars, ast.Name):
                            raise AnalysisError('heap model: with ... as %s' % norm(item.optional_vars))
                        env[item.optional_vars.id] = got_
                    continue
                if isinstance(v_, Ref) and h.objs[v_.name]['__class__'] not in h.module.classes and h.objs[v_.name]['__class__'] == 'File' and '.close' in h.hooks:
                    entered.append(('stream', v_))          # a stream of the scenario: closed when the block is left, however it is left
                if isinstance(v_, Ref) and h.objs[v_.name]['__class__'] in h.module.classes:
                    en_ = h.module.method(h.objs[v_.name]['__class__'], '__enter__')
                    ex_ = h.module.method(h.objs[v_.name]['__class__'], '__exit__')
                    if ex_ is not None:
                        entered.append((v_, ex_))
                    if en_ is not None:
                        v_ = self.call(Closure(en_.node, {}, v_, en_.cls), [])
                if item.optional_vars is not None:
                    if not isinstance(item.optional_vars, ast.Name):
                        raise AnalysisError('heap model: with ... as %s' % norm(item.optional_vars))
                    env[item.optional_vars.id] = v_
            try:
                r_ = self.run(st.body, env, cls)
            except Raised as x_:
                # the managers leave innermost first; one whose __exit__ answers with a true value swallows the exception (the
                # outer ones then see a normal exit)
                pending = x_
                for v_, ex_ in reversed(entered):
                    if v_ == 'suppress':
                        if pending is not None and ex_.elts and _handler_matches(ex_, pending.exc, h.module):
                            pending = None
                        continue
                    if v_ == 'stream':
                        try:
                            h.hooks['.close'](self, [ex_], {})
                        except Raised as y_:
                            pending = y_
                        continue
                    if v_ == 'genctx':
                        try:
                            if pending is None:
                                more_ = ex_.has_next()
                            else:
                                more_, _x = ex_.owner.throw(pending)
                                ex_.done = True
                                pending = None          # (the generator ended without re-raising: the exception is swallowed)
                            if more_:
                                raise Raised('RuntimeError', h.version, st.lineno)          # generator didn't stop
                        except Raised as y_:
                            pending = y_
                        continue
                    res_ = self.call(Closure(ex_.node, {}, v_, ex_.cls), [('class', pending.exc), None, None] if pending is not None else [None, None, None])
                    if pending is not None and self.truth(res_):
                        pending = None
                if pending is not None:
                    if pending is x_:
                        raise
                    raise pending
                return None
            for v_, ex_ in reversed(entered):
                if v_ == 'stream':
                    h.hooks['.close'](self, [ex_], {})
                elif v_ == 'genctx':
                    if ex_.has_next():
                        raise Raised('RuntimeError', h.version, st.lineno)          # generator didn't stop
                elif v_ != 'suppress':
                    self.call(Closure(ex_.node, {}, v_, ex_.cls), [None, None, None])
            return r_
        if isinstance(st, ast.Assert):
            if not self.truth(self.ev(st.test, env, cls)):
                h.failed_asserts.append((st.lineno, norm(st.test)))
                raise Raised('AssertionError', h.version, st.lineno)
            return None
        if isinstance(st, ast.Raise):
            if isinstance(st.exc, ast.Name) and isinstance(env.get(st.exc.id), tuple) and len(env[st.exc.id]) == 2 and env[st.exc.id][0] == 'exception':
                raise Raised(env[st.exc.id][1], h.version, st.lineno)          # raise e: the exception a handler bound to that name
            tgt_ = st.exc.func if isinstance(st.exc, ast.Call) else st.exc
            if isinstance(tgt_, ast.Name) and isinstance(env.get(tgt_.id), tuple) and len(env[tgt_.id]) == 2 and env[tgt_.id][0] == 'class' and isinstance(env[tgt_.id][1], str):
                if isinstance(st.exc, ast.Call):
                    for a_ in st.exc.args:
                        self.ev(a_, env, cls)          # (the arguments are computed)
                raise Raised(env[tgt_.id][1], h.version, st.lineno)          # raise <a local that holds an exception class>
            if st.exc is None and env.get('#handling'):
                raise Raised(env['#handling'], h.version, st.lineno)          # a bare raise: the exception being handled
            name = norm(st.exc.func) if isinstance(st.exc, ast.Call) else (norm(st.exc) if st.exc is not None else 're-raise')
            raise Raised(name, h.version, st.lineno)
        if isinstance(st, ast.Delete):
            for t in st.targets:
                if isinstance(t, ast.Subscript):
                    base = self.ev(t.value, env, cls)
                    if h.is_list(base):
                        k_ = self.ev(t.slice, env, cls)          # del xs[i] / del xs[i:j]
                        h.touch(base.name)
                        try:
                            del h.items(base)[k_]
                        except IndexError:
                            raise Raised('IndexError', h.version, st.lineno)
                        continue
                    if isinstance(base, Ref) and h.objs[base.name]['__class__'] in h.module.classes and h.objs[base.name]['__class__'] != 'dict':
                        di_ = h.module.method(h.objs[base.name]['__class__'], '__delitem__')
                        if di_ is None:
                            raise AnalysisError('heap model: del %s' % norm(t))
                        self.call(Closure(di_.node, {}, base, di_.cls), [self.ev(t.slice, env, cls)])          # del obj[key]: the class's own __delitem__
                        continue
                    h.dict_del(base, self.ev(t.slice, env, cls), st.lineno)
                elif isinstance(t, ast.Name):
                    env.pop(t.id, None)
                else:
                    raise AnalysisError('heap model: del %s' % norm(t))
            return None
        if isinstance(st, ast.Try):
            def guarded_():
                try:
                    r = self.run(st.body, env, cls)
                    if r is not None:
                        return r
                    return self.run(st.orelse, env, cls)
                except Raised as x:
                    for hd in st.handlers:
                        if _handler_matches(hd.type, x.exc, h.module):
                            if hd.name:
                                env[hd.name] = ('exception', x.exc)
                            outer_ = env.get('#handling')
                            env['#handling'] = x.exc          # (what a bare `raise` inside the handler raises again)
                            try:
                                return self.run(hd.body, env, cls)
                            except Raised as y:
                                if y.exc == 're-raise':
                                    raise Raised(x.exc, h.version, y.lineno)
                                raise
                            finally:
                                env['#handling'] = outer_
                    raise
            if not st.finalbody:
                return guarded_()
            # try ... finally: the final block runs on every way out -- the end of the block, return / break / continue, an exception;
            # a return / break / continue of its own replaces what was on the way out
            try:
                r = guarded_()
            except Raised:
                rf = self.run(st.finalbody, env, cls)
                if rf is not None:
                    return rf
                raise
            except _GenExit:
                self.run(st.finalbody, env, cls)          # a generator that is closed at its yield runs its final blocks
                raise
            rf = self.run(st.finalbody, env, cls)
            return rf if rf is not None else r
        if isinstance(st, ast.For):
            itv = self.ev(st.iter, env, cls)
            if isinstance(itv, PyIter):
                def pull(itv=itv):
                    while itv.has_next():
                        yield itv.take()
                items = pull()
            elif self.obj_iter_possible(itv) and not self.h.is_list(itv):
                # an object of the module that is (or hands out) an iterator: one item per round -- what the body takes from the same
                # iterator in between is gone for the loop
                items = self.walk(itv)
            elif self.h.is_list(itv):
                # a list is iterated by position over its *current* content (Python's list iterator): a body that removes or
                # inserts elements while iterating skips or repeats elements exactly as it would at run time
                def live(ref=itv):
                    i = 0
                    while i < len(self.h.items(ref)):
                        i += 1
                        yield self.h.items(ref)[i - 1]
                        if i > 4096:
                            raise AnalysisError('heap model: loop bound exceeded at line %d' % st.lineno)
                items = live()
            else:
                items = self.seq(itv)
            broke = False
            for v in items:
                self.assign(st.target, v, env, cls)
                r = self.run(st.body, env, cls)
                if r is not None:
                    if r[0] == 'break':
                        broke = True
                        break
                    if r[0] == 'continue':
                        continue
                    return r
            if not broke and st.orelse:
                return self.run(st.orelse, env, cls)
            return None
        if isinstance(st, ast.While):
            n = 0
            broke = False
            while self.truth(self.ev(st.test, env, cls)):
                n += 1
                if n > 4096:
                    raise AnalysisError('heap model: loop bound exceeded at line %d' % st.lineno)
                r = self.run(st.body, env, cls)
                if r is not None:
                    if r[0] == 'break':
                        broke = True
                        break
                    if r[0] == 'continue':
                        continue
                    return r
            if not broke and st.orelse:
                return self.run(st.orelse, env, cls)          # while ... else: the test became false (no break)
            return None
        if isinstance(st, ast.FunctionDef):
            env[st.name] = Closure(st, env, None, cls)      # reads the enclosing variables at call time
            env[st.name].defaults = self.defaults_now(st, env, cls)          # (its defaults are computed now)
            return None
        if isinstance(st, ast.Break):
            return ('break', None)
        if isinstance(st, ast.Continue):
            return ('continue', None)
        if isinstance(st, ast.Pass):
            return None
        raise AnalysisError('heap model: statement %s' % norm(st)[:60])

    def assign(self, t, value, env, cls):
        h = self.h
        if isinstance(t, ast.Name):
            env[t.id] = value
            if t.id in env.get('#nonlocal', ()):
                o_ = env.get('#outer')
                while o_ is not None:
                    if t.id in o_ or o_.get('#outer') is None:
                        o_[t.id] = value
                        if t.id not in o_.get('#nonlocal', ()):
                            break
                    o_ = o_.get('#outer')
        elif isinstance(t, ast.Attribute):
            self.store_attr(self.ev(t.value, env, cls), t.attr, value, cls)
        elif isinstance(t, ast.Subscript):
            base = self.ev(t.value, env, cls)
            if isinstance(base, Ref) and h.objs[base.name]['__class__'] == 'dict':
                h.dict_set(base, self.ev(t.slice, env, cls), value)
            elif h.is_list(base):
                k = self.ev(t.slice, env, cls)
                h.touch(base.name)
                if isinstance(k, slice):
                    h.items(base)[k] = self.seq(value)      # xs[i:j] = ys: the items of ys in place of the range
                else:
                    try:
                        h.items(base)[k] = value
                    except IndexError:
                        raise Raised('IndexError', h.version, getattr(t, 'lineno', 0))
                    except TypeError:
                        raise Raised('TypeError', h.version, getattr(t, 'lineno', 0))
            elif isinstance(base, Ref) and '__setitem__' in h.hooks and h.objs[base.name]['__class__'] not in ('dict', 'list'):
                h.hooks['__setitem__'](self, [base, self.ev(t.slice, env, cls), value], {'lineno': getattr(t, 'lineno', 0)})      # the scenario's own store
            elif isinstance(base, Ref) and h.objs[base.name]['__class__'] in h.module.classes \
                    and h.module.method(h.objs[base.name]['__class__'], '__setitem__') is not None:
                si = h.module.method(h.objs[base.name]['__class__'], '__setitem__')
                self.call(Closure(si.node, {}, base, si.cls), [self.ev(t.slice, env, cls), value])
            else:
                raise AnalysisError('heap model: store %s' % norm(t))
        elif isinstance(t, (ast.Tuple, ast.List)):
            vals = self.seq(value)
            stars = [i for i, tt in enumerate(t.elts) if isinstance(tt, ast.Starred)]
            if len(stars) == 1:
                # a, *rest, z = xs: the named targets from both ends, the starred one a new list of what lies between
                i = stars[0]
                after = len(t.elts) - i - 1
                if len(vals) < len(t.elts) - 1:
                    raise Raised('ValueError', h.version, getattr(t, 'lineno', 0))
                for tt, v in zip(t.elts[:i], vals[:i]):
                    self.assign(tt, v, env, cls)
                self.assign(t.elts[i].value, h.new_list(vals[i:len(vals) - after]), env, cls)
                for tt, v in zip(t.elts[i + 1:], vals[len(vals) - after:] if after else []):
                    self.assign(tt, v, env, cls)
                return
            if stars:
                raise AnalysisError('heap model: assignment target %s' % norm(t))
            if len(vals) != len(t.elts):
                raise Raised('ValueError', h.version, getattr(t, 'lineno', 0))
            for tt, v in zip(t.elts, vals):
                self.assign(tt, v, env, cls)
        else:
            raise AnalysisError('heap model: assignment target %s' % norm(t))


# ---- helpers to build and read lists ---------------------------------------------------------------

def build_list(heap, values):
    """a well-formed LinkedList holding `values`; returns (list ref, [node refs])"""
    lst = heap.alloc('LinkedList', {'head_node': None, 'tail_node': None, '_size': len(values)}, name='@list')
    nodes = []
    for i, v in enumerate(values):
        nodes.append(heap.alloc('LinkedListNode', {'previous_node': None, 'next_node': None, 'value': v}, name='@n%d' % (i + 1)))
    for i, n in enumerate(nodes):
        o = heap.objs[n.name]
        o['previous_node'] = nodes[i - 1] if i > 0 else None
        o['next_node'] = nodes[i + 1] if i + 1 < len(nodes) else None
    if nodes:
        heap.objs[lst.name]['head_node'] = nodes[0]
        heap.objs[lst.name]['tail_node'] = nodes[-1]
    return lst, nodes


def read_list(heap, lst):
    """(node names from head following next, problems)"""
    o = heap.objs[lst.name]
    seq, problems = [], []
    seen = set()
    n = o['head_node']
    prev = None
    while n is not None:
        if n.name in seen:
            problems.append('cycle through %s' % n.name)
            break
        seen.add(n.name)
        seq.append(n)
        no = heap.objs[n.name]
        if no['previous_node'] != prev:
            problems.append('%s.previous_node is %r, expected %r' % (n.name, no['previous_node'], prev))
        prev = n
        n = no['next_node']
    if o['tail_node'] != (seq[-1] if seq else None):
        problems.append('tail_node is %r, last node reached from head is %r' % (o['tail_node'], seq[-1] if seq else None))
    if o['_size'] != len(seq):
        problems.append('_size is %r for %d linked nodes' % (o['_size'], len(seq)))
    return seq, problems
